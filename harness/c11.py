"""C11 - a crash at any moment leaves the SQLite store readable and consistent.

Correspondence with Model/Crash.v (driver Run/C11Run.v) and direct oracle.

A *writer server* process installs a proxy around sqlite3.connect, then imports artap, then serves
requests: for every request it forks a child that runs one scenario (sweep / NSGA-II / eps-MOEA on a
two-parameter problem with an SQLite store in the default thread-safe mode, serial or parallel
evaluation) and is killed at the requested crash point - os._exit inside the k-th objective call or at
the k-th boundary (before execute / between execute and commit / after commit of a synchronisation) -
or by SIGKILL from the server at a random instant.  Everything the child does to the store is reported
on an unbuffered pipe as it happens (objective entered / returned, signed costs computed, copy made,
statement executed, commit begun / finished, synchronisation returned for id).  After the child is dead
a second, fresh child opens the file with ProblemViewDataStore and returns what it finds.

Model side: the reported events are the prefix `pre` of the step sequence; Coq computes
`legal` (the reported order is the one the theorems assume), the recovered rows and the rows in flight;
at an exact crash point the rows read must equal the recovered rows (vector, costs, signed costs,
state); at an arbitrary instant (SIGKILL, or any crash of a parallel run) recovered <= rows <= recovered
+ in flight.

Direct oracle (the property on the implementation alone): the view can be built and shows the problem;
every id whose synchronisation had returned has a row; every row is a complete image whose costs are
the objective's value for its vector (recomputed here), one row per id.

Further streams (added after the red-team rounds):
* transient failures: the scenario's objective raises RuntimeError / TimeoutError at scripted global call
  numbers (1..4 failures in a row, on the first / middle / last design, serial and 2 workers); Job.evaluate
  draws a replacement vector (reported by a wrapper of VectorAndNumbers.gen_vector -> `SFail i v`) and tries
  again; crash points at every objective call, the retries included, and at every boundary.  The model (a
  failed attempt performs NO store statement) predicts the recovered rows.
* large rows: individual.custom carries a field of 130 000 / 400 000 / 1 000 000 integers (about 1 / 3 / 8 MB
  of JSON, more than SQLite's page cache, so pages reach the database file before the commit) or 30 rows of
  150 kB written in ONE sync_all transaction; the rows are synchronised again (UPDATE, with an image of
  another length) and the writer is killed between execute and commit or by SIGKILL inside the commit; a
  fresh process must open the file and find, for every row, the field of its vector and the population_id
  of the last committed statement.

* another process locks the file (red-team round 2): while the `at`-th individual is synchronised a fresh interpreter
  (a viewer / backup / second writer) holds a read transaction (SHARED), BEGIN IMMEDIATE (RESERVED) or BEGIN EXCLUSIVE on
  the file until the real SQLite has refused the writer r = 1..12 (thorough: 25) times in a row ('database is locked'
  after the busy timeout, shortened to 20 ms by the connect proxy), then lets go; the writer is killed at every
  objective call / boundary before, during and after that synchronisation (the refused attempts are boundaries too) and
  by SIGKILL.  Model: a refused attempt performs no store statement, and a synchronisation that has RETURNED has written
  its row (retry until success: C07's XRefused treatment) - a `SReturn` without its `SExec; SCommit` is not `legal`, and
  the direct oracle finds the acknowledged individual missing.

* red-team round 3: (a) chains of sessions on one file - earlier sessions KILLED at their own crash point or completed, the next
  process opens the file in write mode and numbers its own individuals, in the unchanged code, from the number of rows it found
  (checked: correspondence `id allocation`); every individual acknowledged in ANY session must still be there with its own vector
  (oracle clause `acknowledged individual replaced`).  (b) the problem description changes after the store was created
  (GradientEvaluator / WorstCaseEvaluator constructors, in-place edits of parameters / costs / name); every statement other than
  the upsert issued after creation is a pair of crash points and a correspondence mismatch (`meta rows`: the model writes the problem
  rows once), the file must keep its first description.

* red-team round 6 (rule 9, configuration changed between construction and use): the store object of the problem is attached after /
  before the algorithm object (whose Evaluator builds the Job) is constructed, exchanged for another file before the run starts, or
  exchanged between two batches of ONE algorithm object; the writer is killed at every point of both batches and BOTH files are read
  by a fresh process.  `jobret` = Job.evaluate has returned for an individual it evaluated, reported from outside the store object
  together with the store attached to the problem at that moment: model step SReturn (legal only after a committed statement for the
  id in THAT file), oracle clause `evaluated individual missing`.

Nothing in /repo is changed: the crash points are injected by the proxy and by the scenario's objective.
"""
import json
import os
import struct
import subprocess
import sys
import threading

from harness.core import ll, pl

PROP = "C11"
THEOREMS = {"Artap.Props.C11": [
    "C11_crash_legal_consistent", "C11_jobs_merge_legal", "C11_run_with_final_sync_all_legal",
    "C11_crash_prefix_consistent", "C11_jobs_retry_merge_legal", "C11_crash_prefix_consistent_retry",
    "C11_write_after_failed_attempt_illegal", "C11_good_row_readable", "C11_meta_survives"]}
RUN_MODULES = ["Run.C11Run"]
AXIOMS_OK = []
# second tie to the code (tools/py2coq.py + front-end tools/py2coq_eff.py + coq/theories/GenProofs): on every run the source of
# Job.evaluate (sync_individual after state := EVALUATED on the successful attempt only, nothing on a failed one) is translated and
# proved equal to Model/Job.v job_evaluate (five attempts included; NOT to the step lists of Model/Crash.v: no Coq statement links
# Model/Job.v to Crash.job / job_retry, that tie is the correspondence), and the source of SqliteDataStore.sync_individual / sync_all
# (execute, then commit, on the connection opened at entry; the retry on sqlite3.OperationalError) is translated and proved to have
# the shape of Crash.resync / Crash.sync_all_steps when every statement is accepted (GenProofs/StoreEquiv.v)
from harness.core import translated_specs
RERUN_TO_CONFIRM = True      # timed kills / lock holders / watchdogs: failures count only if the identical pass fails twice (core._run_confirmed)
TRANSLATED = translated_specs("SignedCostsGen", "JobGen", "StoreGen")
TRUSTED = [
    "Coq 8.16.1 kernel, vm_compute for model evaluation (no native_compute)",
    "hand-written model Model/Crash.v (on top of Model/Store.v, C10) tied to job.py / datastore.py by this correspondence run, "
    "including the failure path of Job.evaluate (scripted transient failures of the objective: `SFail`, no store statement)",
    "NOT MODELLED, assumed and exercised: one SQLite commit is atomic and durable against process death (rollback journal in the "
    "default DELETE mode - `PRAGMA journal_mode = ON` is not a valid mode and leaves the default; `synchronous = 0` is enough for "
    "process death, not for power loss), statements of a connection that dies before its commit are rolled back, and the file stays "
    "openable; the harness checks on every run that every writing connection is in an on-disk journalled mode (not OFF / MEMORY), "
    "and kills writers of rows larger than the page cache between execute and commit (the case where the journal is needed)",
    "the order of effects inside Job.evaluate / sync_individual / sync_all (`legal`) is proved for every interleaving of the job step "
    "lists and checked on every reported trace; the assignment state := EVALUATED is not observable from outside and is placed "
    "between calc_signed_costs and the store call as job.py 42-49 has it (its effect - the state in the row - is compared)",
    "the objective is a function of the vector (the scenario's is); signed costs are an oracle table observed at calc_signed_costs",
    "a write attempt refused by SQLite because another process holds a lock ('database is locked') is no step of the model: the "
    "synchronisation retries until the write goes through (datastore.py: sync_individual calls itself again on OperationalError), as "
    "Model/Parallel.v XRefused says for C07; exercised with a real second process holding SHARED / RESERVED / EXCLUSIVE locks for 1..25 "
    "busy timeouts (the connect proxy shortens artap's busy timeout of 5 s harness-side: to 1 s in every scenario, to 20 ms in the "
    "external-lock scenarios, which only scales the waiting), the lock is eventually released",
]
ASSUMPTIONS = [
    "crash = death of the writing process (os._exit / SIGKILL), not power loss or a torn write of the file system",
    "default thread-safe store (one connection per synchronisation); the single-connection mode (journal off) is outside the property",
    "a row is compared on vector, costs, signed costs and state; time stamps, population id and algorithm id are not predicted by the model "
    "(the full image round trip is C10)",
    "an individual recorded by NSGA-II as the copy() of an evaluated one has state 'empty' and carries the costs of its original: "
    "the model's complete image allows exactly that",
]

HEADER = ("From Artap Require Import Run.C11Run.\nFrom Coq Require Import List ZArith String.\nImport ListNotations.\n"
          "Open Scope Z_scope.\nOpen Scope string_scope.\nOpen Scope list_scope.\n"
          "Definition F (b : Z) := JNum (NFlt b).\n")


def fbits(h):
    return struct.unpack("<Q", struct.pack("<d", float.fromhex(h)))[0]


def zl(n):
    return "(%d)" % n if n < 0 else "%d" % n


def enc_val(v):
    """event / row value -> jv term: floats travel as {"f": hex}"""
    if v is None:
        return "JNull"
    if isinstance(v, bool):
        return "(JBool %s)" % ("true" if v else "false")
    if isinstance(v, int):
        return "(JNum (NInt %s))" % zl(v)
    if isinstance(v, str):
        return '(JStr "%s")' % v.replace('"', '""')
    if isinstance(v, list):
        return "(JArr %s)" % ll(v, enc_val)
    if isinstance(v, dict) and "f" in v:
        return "(F %d)" % fbits(v["f"])
    raise ValueError(v)


def enc_list(v):
    return ll(v, enc_val)


# ======================================================================================================
# the writer / reader server (runs in its own process; `python -c "from harness import c11; c11.server_main()"`)
# ======================================================================================================
def server_main():
    import sqlite3
    import tempfile
    import time
    import signal
    import random
    import logging

    CTL = {"fd": None, "armed": False, "k": 0, "crash_at": None, "obj_calls": 0, "obj_crash": None, "conns": 0,
           "lock": threading.Lock(), "jitter": 0.0, "journal_modes": set(), "fail_at": frozenset(), "payload": 0,
           "busy": None, "ext": None, "sync_no": 0, "dbs": [], "cur": None}
    UPSERT = "INSERT INTO individuals"
    import re
    POP = re.compile(r'"population_id": (-?\d+)')

    def field(x, n):
        """the deterministic `field solution` (n integers) that belongs to design vector x: stored in individual.custom"""
        import numpy as np
        a = int(round(x[0] * 1000)) % 9973
        b = int(round(x[1] * 1000)) % 9973
        i = np.arange(n, dtype=np.int64)
        return ((a * (i + 1) + b * (i % 7) + i) % 1000003).tolist()

    def tok(x):
        import numpy as np
        if x is None or isinstance(x, (bool, str)):
            return x
        if isinstance(x, (bool, np.bool_)):
            return bool(x)
        if isinstance(x, float):
            return {"f": float(x).hex()}
        if isinstance(x, int):
            return x
        if isinstance(x, (list, tuple, np.ndarray)):
            return [tok(y) for y in x]
        return {"unknown": repr(x)}

    def emit(ev):
        if CTL["fd"] is not None:
            os.write(CTL["fd"], (json.dumps(ev) + "\n").encode())

    def boundary(tag):
        if not CTL["armed"]:
            return
        with CTL["lock"]:
            k = CTL["k"]
            CTL["k"] += 1
            if CTL["crash_at"] == k:
                emit({"e": "crash", "k": k, "at": tag})
                os._exit(77)

    # ---- ANOTHER PROCESS holding a lock on the file while one individual is synchronised (red-team round 2) ----------
    LOCKER = (
        "import os, sys, sqlite3, select\n"
        "db, kind, hold, ctl_r, rdy_w = sys.argv[1], sys.argv[2], float(sys.argv[3]), int(sys.argv[4]), int(sys.argv[5])\n"
        "try:\n"
        "    con = sqlite3.connect(db, timeout=2.0, isolation_level=None)\n"
        "    if kind == 'read':\n"
        "        con.execute('BEGIN')\n"
        "        con.execute('SELECT count(*) FROM individuals').fetchall()\n"
        "    else:\n"
        "        con.execute('BEGIN ' + kind.upper())\n"
        "    os.write(rdy_w, b'1')\n"
        "    select.select([ctl_r], [], [], hold)\n"
        "    con.execute('COMMIT')\n"
        "    con.close()\n"
        "finally:\n"
        "    os._exit(0)\n")

    def start_locker(db):
        """starts ANOTHER PROCESS (a fresh interpreter, not a fork of this possibly multi-threaded one) that takes a lock on the
        database file (kind 'read': BEGIN + SELECT = SHARED lock, as a viewer or a backup does; 'immediate': BEGIN IMMEDIATE =
        RESERVED, another writer; 'exclusive': BEGIN EXCLUSIVE) and keeps it until it is told to let go, the writer dies (EOF on
        the control pipe) or `hold` seconds have passed.  It inherits the event pipe: the server reads EOF - and starts the
        reader - only after the locker has gone too."""
        ext = CTL["ext"]
        ctl_r, ctl_w = os.pipe()
        rdy_r, rdy_w = os.pipe()
        keep = [ctl_r, rdy_w] + ([CTL["fd"]] if CTL["fd"] is not None else [])
        proc = subprocess.Popen([sys.executable, "-S", "-c", LOCKER, db, ext["kind"], str(ext.get("hold", 6.0)), str(ctl_r), str(rdy_w)],
                                pass_fds=keep, stdin=subprocess.DEVNULL, stdout=subprocess.DEVNULL, stderr=subprocess.DEVNULL)
        os.close(ctl_r)
        os.close(rdy_w)
        got = os.read(rdy_r, 1)              # the lock is held from now on (b"" if the locker could not take it)
        ext.update(active=bool(got), ctl_w=ctl_w, done_r=rdy_r, proc=proc)
        emit({"e": "locked", "kind": ext["kind"], "held": bool(got)})

    def release_locker():
        ext = CTL["ext"]
        if ext and ext.get("active"):
            ext["active"] = False
            os.close(ext["ctl_w"])
            os.read(ext["done_r"], 1)        # EOF: the locker has committed and exited
            try:
                ext["proc"].wait(5)
            except Exception:
                pass
            emit({"e": "unlocked"})

    def note_refused(where, iid):
        """the real SQLite has refused a write attempt ('database is locked' after the busy timeout)"""
        ext = CTL["ext"]
        with CTL["lock"]:
            emit({"e": "refused", "at": where, "i": iid})
            if ext and ext.get("active"):
                ext["refused"] = ext.get("refused", 0) + 1
                if ext["refused"] >= ext["r"]:
                    release_locker()         # the lock is eventually released: the next attempt goes through

    class Cursor:
        def __init__(self, real, conn):
            self._real, self._conn = real, conn

        def execute(self, sql, params=()):
            if CTL["armed"] and sql.startswith(UPSERT):
                boundary("before execute")
                try:
                    if not self._conn._checked:
                        mode = self._conn._real.execute("PRAGMA journal_mode").fetchone()[0]      # (needs a SHARED lock itself)
                        self._conn._checked = True
                        emit({"e": "journal", "c": self._conn._cid, "mode": mode, "db": self._conn._db})
                    r = self._real.execute(sql, params)
                except sqlite3.OperationalError:
                    note_refused("execute", params[0])
                    raise
                self._conn._dirty = True
                self._conn._ids.append(params[0])
                pm = POP.search(params[1][:4000]) if isinstance(params[1], str) else None
                emit({"e": "exec", "c": self._conn._cid, "i": params[0], "p": int(pm.group(1)) if pm else None, "db": self._conn._db})
                boundary("after execute")
                return r
            if CTL["armed"] and not sql.lstrip().upper().startswith(("PRAGMA", "SELECT")):
                return self._other(sql[:80], lambda: self._real.execute(sql, params))
            return self._real.execute(sql, params)

        def _other(self, text, call):
            """any statement other than the upsert of an individual, once the store has been created (red-team round 3): the
            unchanged store issues none.  A crash point before and after it, reported as `stmt` (the model has no such step)"""
            boundary("before statement")
            r = call()
            self._conn._dirty = True
            emit({"e": "stmt", "c": self._conn._cid, "sql": text, "db": self._conn._db})
            boundary("after statement")
            return r

        def executescript(self, script):
            if CTL["armed"]:
                return self._other("executescript: " + script[:80], lambda: self._real.executescript(script))
            return self._real.executescript(script)

        def executemany(self, sql, rows):
            if CTL["armed"] and sql.startswith(UPSERT):
                rows = [list(r) for r in rows]
                boundary("before execute")
                r = self._real.executemany(sql, rows)
                self._conn._dirty = True
                for row in rows:
                    self._conn._ids.append(row[0])
                    pm = POP.search(row[1][:4000]) if isinstance(row[1], str) else None
                    emit({"e": "exec", "c": self._conn._cid, "i": row[0], "p": int(pm.group(1)) if pm else None, "many": True, "db": self._conn._db})
                emit({"e": "many", "c": self._conn._cid, "n": len(rows)})
                boundary("after execute")
                return r
            if CTL["armed"]:
                return self._other("executemany: " + sql[:80], lambda: self._real.executemany(sql, rows))
            return self._real.executemany(sql, rows)

        def __getattr__(self, name):
            return getattr(self._real, name)

    class Conn:
        def __init__(self, real, db=0):
            self._real = real
            self._db = db                   # which of the run's store files this connection writes (red-team round 6)
            self._dirty = False
            self._checked = False
            self._ids = []
            with CTL["lock"]:
                CTL["conns"] += 1
                self._cid = CTL["conns"]

        def cursor(self):
            return Cursor(self._real.cursor(), self)

        def execute(self, sql, *a):                 # the connection's shortcuts create a cursor of their own
            return self.cursor().execute(sql, *a)

        def executescript(self, script):
            return self.cursor().executescript(script)

        def executemany(self, sql, rows):
            return self.cursor().executemany(sql, rows)

        def commit(self):
            if CTL["armed"] and self._dirty:
                emit({"e": "commit_begin", "c": self._cid, "db": self._db})
                try:
                    r = self._real.commit()
                except sqlite3.OperationalError:
                    note_refused("commit", self._ids[-1] if self._ids else None)
                    raise
                self._dirty = False
                emit({"e": "commit", "c": self._cid, "db": self._db})
                boundary("after commit")
                return r
            return self._real.commit()

        def __getattr__(self, name):
            return getattr(self._real, name)

    real_connect = sqlite3.connect

    def connect(*a, **kw):
        # artap's default busy timeout is 5 s; nothing legitimately waits that long here (external-lock scenarios: shorter still)
        kw.setdefault("timeout", CTL["busy"] or 1.0)
        path = a[0] if a else kw.get("database")
        return Conn(real_connect(*a, **kw), CTL["dbs"].index(path) if path in CTL["dbs"] else 0)

    # artap prints (e.g. "database is locked") on stdout: keep the protocol on its own descriptor
    proto = os.fdopen(os.dup(1), "w")
    os.dup2(os.open(os.devnull, os.O_WRONLY), 1)

    sqlite3.connect = connect          # before artap is imported
    work = os.environ["C11_WORK"]
    tempfile.tempdir = os.path.join(work, "tmp")
    os.makedirs(tempfile.tempdir, exist_ok=True)

    import numpy as np
    from artap.problem import Problem, ProblemViewDataStore
    from artap.individual import Individual
    from artap.datastore import SqliteDataStore
    from artap.operators import CustomGenerator
    from artap.algorithm_sweep import SweepAlgorithm
    from artap.algorithm_NSGAII import NSGAII, IndividualNSGAII
    from artap.algorithm_genetic import EpsMOEA
    logging.disable(logging.CRITICAL)

    class P(Problem):
        m = 2

        def set(self, **kwargs):
            self.name = "crash_%d" % self.m
            self.description = "c11"
            self.parameters = [{'name': 'x_1', 'initial_value': 2.5, 'bounds': [-3, 3]},
                               {'name': 'x_2', 'initial_value': 1.5, 'bounds': [-3, 3]}]
            self.costs = [{'name': 'F_%d' % (j + 1), 'criteria': 'minimize'} for j in range(self.m)]

        def evaluate(self, individual):
            with CTL["lock"]:
                n = CTL["obj_calls"]
                CTL["obj_calls"] += 1
            emit({"e": "start", "i": individual.id, "v": tok(individual.vector)})
            if CTL["obj_crash"] == n:
                emit({"e": "crash", "k": n, "at": "objective"})
                os._exit(78)
            if n in CTL["fail_at"]:         # an ordinary failed evaluation: Job.evaluate draws a new vector and tries again
                emit({"e": "fail", "i": individual.id, "t": threading.get_ident()})
                raise (RuntimeError if n % 2 == 0 else TimeoutError)("scripted failure of objective call %d" % n)
            if CTL["payload"]:
                individual.custom["field"] = field(individual.vector, CTL["payload"])
            if CTL["jitter"]:
                time.sleep(CTL["jitter"] * ((individual.id * 7919) % 13) / 13.0)
            x = individual.vector
            out = [x[0] ** 2 + x[1] ** 2, (x[0] - 1) ** 2 + x[1] ** 2 + 0.1][:self.m]
            emit({"e": "costs", "i": individual.id, "c": tok(out)})
            return out

    class P1(P):
        m = 1

    # harness-side observation points inside the writer
    real_signed = Individual.calc_signed_costs

    def calc_signed_costs(self, p_signs):
        real_signed(self, p_signs)
        emit({"e": "signed", "i": self.id, "s": tok(self.costs_signed)})

    Individual.calc_signed_costs = calc_signed_costs
    real_copy = IndividualNSGAII.copy

    def copy(self):
        new = real_copy(self)
        emit({"e": "copy", "j": new.id, "i": self.id})
        return new

    IndividualNSGAII.copy = copy
    from artap.utils import VectorAndNumbers
    real_gen_vector = VectorAndNumbers.gen_vector          # bound class method

    def gen_vector(design_parameters):
        v = real_gen_vector(design_parameters)
        emit({"e": "genvec", "t": threading.get_ident(), "v": tok(v)})
        return v

    VectorAndNumbers.gen_vector = staticmethod(gen_vector)
    # red-team round 6: the property's anchor is Job.evaluate - "writes the individual to the store immediately after a successful
    # evaluation".  Reported from OUTSIDE the store object: Job.evaluate has returned for an individual it evaluated in this call
    # (`fresh`: it was not skipped as already evaluated) while store number `db` was the one attached to the problem.  The wrappers
    # around the store's own methods (`ret`) see nothing when Job talks to another store object than problem.data_store.
    from artap.job import Job
    real_job_evaluate = Job.evaluate

    def job_evaluate(self, individual):
        before = individual.state
        r = real_job_evaluate(self, individual)
        if CTL["armed"]:
            emit({"e": "jobret", "i": individual.id, "db": CTL["cur"], "fresh": before != individual.State.EVALUATED})
        return r

    Job.evaluate = job_evaluate

    def writer(req):
        sc = req["scenario"]
        random.seed(sc["seed"])
        np.random.seed(sc["seed"])
        problem = (P if sc["alg"] != "sweep1" else P1)()
        CTL["dbs"] = [req["db"], req["db"] + ".b"]
        points = lambda seed, n: (lambda rs: [[rs.choice([-2.0, -1.0, 0.0, 0.5, 1.0, 2.5]), rs.uniform(-3, 3)] for _ in range(n)])(random.Random(seed))
        built = {}

        def build():
            if sc["alg"].startswith("sweep"):
                gen = built["gen"] = CustomGenerator(problem.parameters)
                gen.init(points(sc["seed"], sc["n"]))
                alg = SweepAlgorithm(problem, generator=gen)
            else:
                alg = (NSGAII if sc["alg"] == "nsga2" else EpsMOEA)(problem)
                alg.options['max_population_number'] = sc["g"]
                alg.options['max_population_size'] = sc["n"]
            alg.options['max_processes'] = sc.get("procs", 1)
            return alg

        def attach(idx):
            """creates store number idx of this run (file CTL["dbs"][idx]; default: mode "write", thread_safe=True), makes it the
            problem's store and puts the reporting wrappers around its two methods.  Not armed while the file is being created:
            the property starts when the store has been created (`attached` is reported then)"""
            was, CTL["armed"] = CTL["armed"], False
            store = SqliteDataStore(problem, database_name=CTL["dbs"][idx])
            problem.data_store = store
            real_ind, real_all = store.sync_individual, store.sync_all

            # which object is handed to the store: one created by this process, or one rebuilt from a row at start-up
            def sync_individual(individual):
                ext = CTL["ext"]
                if ext is not None:
                    with CTL["lock"]:
                        n = CTL["sync_no"]
                        CTL["sync_no"] += 1
                    if n == ext["at"]:                   # (not under CTL["lock"]: another worker may need it to finish its commit)
                        start_locker(CTL["dbs"][idx])    # another process locks the file while THIS individual is synchronised
                emit({"e": "plan", "objs": [[individual.id, isinstance(individual.state, str)]], "db": idx})
                r = real_ind(individual)
                emit({"e": "ret", "i": individual.id, "db": idx})
                return r

            def sync_all():
                if sc.get("resync"):            # the caller has changed every recorded individual since Job.evaluate stored it (as an
                    for i in problem.individuals:       # algorithm that numbers its populations does): every statement is a real UPDATE
                        i.population_id = 0
                ids = [i.id for i in problem.individuals]
                emit({"e": "plan", "objs": [[i.id, isinstance(i.state, str)] for i in problem.individuals], "db": idx})
                r = real_all()
                for i in ids:
                    emit({"e": "ret", "i": i, "db": idx})
                return r

            store.sync_individual, store.sync_all = sync_individual, sync_all
            CTL["cur"] = idx
            CTL["armed"] = was
            emit({"e": "attached", "db": idx})
            return store

        # red-team round 6 (lessons rule 9: configuration changed between construction and use).  `order`: the algorithm object - and
        # with it its Evaluator and the Evaluator's Job - is built BEFORE the store is attached to the problem ("alg_first", what every
        # scenario of this check has always done) or after it ("store_first", what artap's tests and examples do);
        # `swap` = "before_run": a store_first run whose store is exchanged for another file before the run starts (the first file
        # stays as created: no individuals);  `swap` = {"n": k, "seed": s}: after the run has finished the store is exchanged for
        # another file and the SAME algorithm object runs a second batch.  The store the property speaks of is the one attached to
        # the problem when the evaluation finishes.
        if sc.get("order", "alg_first") == "store_first":
            store = attach(0)
            alg = build()
            if sc.get("swap") == "before_run":
                store = attach(1)
        else:
            alg = build()
            store = attach(0)
        # the problem description changes AFTER the store has been created (red-team round 3): what the constructors of
        # GradientEvaluator / WorstCaseEvaluator do (an algorithm built with evaluator_type GRADIENT / WORST_CASE after the
        # store was attached), or the user edits parameters / costs / name in place.  The unchanged store writes main /
        # parameters / costs once, at creation: the file keeps the description it was created with.
        d = sc.get("describe")
        if d == "gradient":
            from artap.operators import GradientEvaluator
            GradientEvaluator(alg)                  # appends {'name': 'sensitivity', ...} to problem.costs
        elif d == "worst_case":
            from artap.operators import WorstCaseEvaluator
            WorstCaseEvaluator(alg)
        elif d == "param_key":
            problem.parameters[0]["note"] = "edited after the store was created"
            problem.parameters.append({'name': 'x_3', 'initial_value': 0.0, 'bounds': [0, 1]})
        elif d == "cost_edit":
            problem.costs[0]["unit"] = "mm"
        elif d == "rename":
            problem.name = "renamed"
            problem.description = "edited"
        if d:
            emit({"e": "described", "how": d, "costs": [c.get("name") for c in problem.costs], "parameters": [q.get("name") for q in problem.parameters]})
        if sc.get("reset_counter"):
            Individual.counter = 0          # a new interpreter that numbers its individuals from 0 again: ids collide with the rows
        crash = req["crash"]
        CTL["crash_at"] = crash["k"] if crash["kind"] == "boundary" else None
        CTL["obj_crash"] = crash["k"] if crash["kind"] == "objective" else None
        CTL["jitter"] = sc.get("jitter", 0.0)
        CTL["fail_at"] = frozenset(sc.get("fail", ()))
        CTL["payload"] = sc.get("payload", 0)
        CTL["ext"] = dict(sc["lock"]) if sc.get("lock") else None
        CTL["busy"] = sc["lock"].get("busy", 0.02) if sc.get("lock") else None
        CTL["armed"] = True                 # the store has been created: crash points start here
        emit({"e": "armed"})
        alg.run()
        if isinstance(sc.get("swap"), dict):        # second batch of the same algorithm object, into another file
            store = attach(1)
            if "gen" in built:
                built["gen"].init(points(sc["swap"]["seed"], sc["swap"]["n"]))
            alg.run()
        if sc.get("resync"):                # what every population algorithm does next: set population_id, synchronise again (UPDATE)
            for individual in list(problem.individuals):
                individual.population_id = 12       # (another number of digits: the image moves inside its pages)
                store.sync_individual(individual)
        emit({"e": "finished"})
        os._exit(0)

    def reader(req):
        out = {}
        try:
            view = ProblemViewDataStore(database_name=req["db"])
            out["name"] = view.name
            out["parameters"] = [p.get("name") for p in view.parameters]
            out["costs"] = [c.get("name") for c in view.costs]
            out["rows"] = [[i.id, tok(i.vector), tok(i.costs), tok(i.costs_signed), i.state, sorted(i.features.keys()), i.population_id]
                           for i in view.individuals]
            npay = req["scenario"].get("payload", 0)
            if npay:                        # the stored field must be the complete field of the stored vector
                out["field_bad"] = [i.id for i in view.individuals if i.custom.get("field") != field(i.vector, npay)]
            con = real_connect(req["db"])
            raw = con.execute("SELECT id, individual FROM individuals").fetchall()
            con.close()
            out["raw_ids"] = [r[0] for r in raw]
            out["raw_keys_ok"] = all(set(json.loads(r[1]).keys()) >= {"id", "vector", "costs", "costs_signed", "state", "population_id",
                                                                      "algorithm_id", "custom", "features", "parents", "children"} for r in raw)
            out["journal_left"] = os.path.exists(req["db"] + "-journal")
        except BaseException as e:
            out["error"] = "%s: %s" % (type(e).__name__, e)
        return out

    def in_child(fn, req, crash=None):
        """runs fn(req) in a forked child; returns the events it reported, its wait status and how long it lived after `armed`.
        crash kind sigkill: SIGKILL `delay` seconds after the store has been created; kind sigkill_commit: SIGKILL as soon as
        the k-th `commit_begin` report arrives (the kill lands in or just after that commit)"""
        r, w = os.pipe()
        pid = os.fork()
        if pid == 0:
            os.close(r)
            CTL["fd"] = w
            try:
                res = fn(req)
                if res is not None:
                    emit(res)
            except BaseException as e:
                emit({"e": "exception", "what": "%s: %s" % (type(e).__name__, e)})
            finally:
                os._exit(3)
        os.close(w)
        kind = (crash or {}).get("kind")
        gone = {"v": False}
        guard = threading.Lock()
        armed = threading.Event()

        def kill():
            with guard:             # the pid cannot be recycled before it has been waited for, which happens after `gone` is set
                if not gone["v"]:
                    try:
                        os.kill(pid, signal.SIGKILL)
                    except ProcessLookupError:
                        pass

        def watchdog():
            time.sleep(req["scenario"].get("watchdog", 8.0) * max(1.0, os.getloadavg()[0] / 16.0))                 # a writer that hangs (e.g. retrying for ever on a locked file) is stopped
            kill()
        threading.Thread(target=watchdog, daemon=True).start()
        if kind == "sigkill":
            def killer():
                armed.wait()            # the property starts when the store has been created
                time.sleep(crash["delay"])
                kill()
            threading.Thread(target=killer, daemon=True).start()
        chunks = []
        seen = 0
        t_armed = None
        import select
        dead_since, status = None, None
        while True:
            if not select.select([r], [], [], 0.5)[0]:
                # nothing reported for a while: if the writer itself is dead, someone else (a locker) still holds the event pipe;
                # it lets go within its `hold` time - never wait longer than that
                if dead_since is None:
                    with guard:
                        if not gone["v"]:
                            wp, st = os.waitpid(pid, os.WNOHANG)
                            if wp == pid:
                                gone["v"], status, dead_since = True, st, time.time()
                elif time.time() - dead_since > 10.0:
                    chunks.append(b'{"e": "exception", "what": "the event pipe was still held 10 s after the death of the writer"}\n')
                    break
                continue
            b = os.read(r, 65536)
            if not b:
                break
            chunks.append(b)
            if not armed.is_set() and b'"armed"' in b"".join(chunks[-2:]):
                t_armed = time.time()
                armed.set()
            if kind == "sigkill_commit":
                seen += b.count(b'"commit_begin"')
                if seen > crash["k"]:
                    kill()
        t_end = time.time()
        armed.set()
        os.close(r)
        with guard:
            if not gone["v"]:
                gone["v"] = True
                _, status = os.waitpid(pid, 0)
        lines = b"".join(chunks).decode().split("\n")
        evs = []
        for ln in lines:
            if ln.strip():
                try:
                    evs.append(json.loads(ln))
                except ValueError:
                    pass            # a line cut by the kill
        return evs, status, (t_end - t_armed) if t_armed else 0.0

    for line in sys.stdin:
        req = json.loads(line)
        if req.get("cmd") == "quit":
            break
        for suffix in ("", "-journal", ".b", ".b-journal"):
            try:
                os.remove(req["db"] + suffix)
            except OSError:
                pass
        def earlier(sc):
            """the earlier sessions of other processes on the same file, oldest first: completed, or KILLED at their own crash point
            (sc["pre"]["crash"]); each is followed by `reopen`"""
            if not sc.get("pre"):
                return []
            pre = sc["pre"]
            cr = pre.get("crash", {"kind": "none"})
            out = earlier(pre)
            e1, _, _ = in_child(writer, dict(req, scenario=pre, crash=cr), cr)
            return out + e1 + [{"e": "reopen"}]
        pre_evs = earlier(req["scenario"])
        evs, status, lived = in_child(writer, req, req["crash"])
        evs = pre_evs + evs
        try:
            jbytes = os.path.getsize(req["db"] + "-journal")
        except OSError:
            jbytes = None
        rd, _, _ = in_child(reader, req)
        rd_b = None                     # the second store file of the run, if the writer got as far as creating it
        if any(e.get("e") == "attached" and e.get("db") == 1 for e in evs):
            rd_b, _, _ = in_child(reader, dict(req, db=req["db"] + ".b"))
            rd_b = rd_b[0] if rd_b else {"error": "reader died"}
        proto.write(json.dumps({"events": evs, "status": status, "read": rd[0] if rd else {"error": "reader died"}, "read_b": rd_b,
                                "writer_s": lived, "journal_bytes_at_death": jbytes}) + "\n")
        proto.flush()


# ======================================================================================================
class Server:
    def __init__(self, work):
        env = dict(os.environ, C11_WORK=work)
        self.p = subprocess.Popen([sys.executable, "-c", "from harness import c11; c11.server_main()"], stdin=subprocess.PIPE,
                                  stdout=subprocess.PIPE, stderr=subprocess.DEVNULL, text=True, env=env, cwd=work)
        self.lock = threading.Lock()

    def ask(self, req):
        with self.lock:
            self.p.stdin.write(json.dumps(req) + "\n")
            self.p.stdin.flush()
            line = self.p.stdout.readline()
        if not line:
            raise RuntimeError("writer server died")
        return json.loads(line)

    def close(self):
        try:
            self.p.stdin.write(json.dumps({"cmd": "quit"}) + "\n")
            self.p.stdin.flush()
            self.p.wait(timeout=10)
        except Exception:
            self.p.kill()


def objective(v, m):
    x = [float.fromhex(t["f"]) if isinstance(t, dict) else t for t in v]
    return [x[0] ** 2 + x[1] ** 2, (x[0] - 1) ** 2 + x[1] ** 2 + 0.1][:m]


def run(ctx):
    import numpy as np
    from concurrent.futures import ThreadPoolExecutor

    rng = ctx.rng
    nserv = min(8, max(2, (os.cpu_count() or 4) // 2))
    servers = [Server(ctx.work) for _ in range(nserv)]
    pool = ThreadPoolExecutor(nserv)
    jobs = []          # (scenario, crash, future)

    def submit(k, sc, crash):
        srv = servers[k % nserv]
        req = {"scenario": sc, "crash": crash, "db": os.path.join(ctx.work, "w%d.sqlite" % (k % nserv))}
        return pool.submit(srv.ask, req)

    hist = {"scenarios": [], "crash_points": {"objective": 0, "before execute": 0, "after execute": 0, "after commit": 0, "sigkill": 0,
                                              "sigkill_commit": 0, "none": 0}, "exact": 0, "interval": 0, "rows_read": 0, "returned_ids": 0,
            "rows_in_flight_observed": 0, "hot_journal_left": 0, "journal_modes": {}, "writer_died_by": {}, "failed_attempts": 0,
            "job_returns": 0, "store_exchanged": {"runs": 0, "killed_after_the_exchange": 0, "rows_in_second_file": 0},
            "crash_with_failed_attempt_before": 0, "crash_inside_retry_or_between_failure_and_success": 0, "big_row_kills": 0,
            "hot_journal_bytes_max": 0,
            "external_lock": {"runs": 0, "lock_taken": 0, "refused_attempts": 0, "longest_refusal_streak": 0, "by_kind": {},
                              "crashes_after_the_refused_sync_returned": 0}}
    cases, expected, meta = [], [], []

    def fail(what, sc, crash, clause, **kw):
        if len(ctx.oracle_failures) < 40:
            ctx.oracle_failures.append({"what": what, "input": dict({"scenario": sc, "crash": crash}, **kw),
                                        "match": {"kind": "crash", "alg": sc["alg"], "clause": clause}})

    STORE_EVENTS = ("plan", "exec", "commit_begin", "commit", "ret", "journal", "stmt")

    def to_case(sc, crash, res, exact, dbi=0):
        """events -> model case, expected observation; applies the direct oracle.  dbi: which of the run's store files is looked at
        (red-team round 6: a run may have two, the second attached to the problem later); the statements, commits and returns of the
        other file are no steps of this file's table"""
        evs = [e for e in res["events"] if not (e.get("e") in STORE_EVENTS and e.get("db", 0) != dbi)]
        job_done = {}                           # id -> vector: Job.evaluate has returned for it while THIS file's store was attached
        m = 1 if sc["alg"] == "sweep1" else 2
        designs, obj, sg, trace, started = [], [], [], [], {}
        begun, returned, plan = [], [], {}
        failing, retried = {}, set()            # thread -> id whose objective call has just raised; ids that go round the loop again
        pend_pop, comm_pop, seen_pop = {}, {}, {}   # population_id in the statements: per connection pending / last committed / all, per id
        # red-team round 3: sessions.  ack: (session, id) -> vector of the individual CREATED BY THAT SESSION whose synchronisation has
        # returned; committed: ids with a committed statement so far; rows_at_open / new_ids: per continued session, the number of rows
        # it found and the ids of the individuals it created (the unchanged code: Individual.from_dict draws - and keeps consumed - one
        # id of the global counter per row it rebuilds, so a fresh process that found N rows numbers its own individuals N, N + 1, ...)
        session, ack, committed, mine = 0, {}, set(), set()
        rows_at_open, new_ids, forced = {}, {}, False
        chain, t = [], sc
        while t is not None:
            chain.append(t)
            t = t.get("pre")
        forced = any(x.get("reset_counter") for x in chain)
        for e in evs:
            k = e.get("e")
            if k == "start":
                if e["i"] not in mine:
                    mine.add(e["i"])
                    new_ids.setdefault(session, []).append(e["i"])
                started[e["i"]] = e["v"]
                if e["i"] in retried:           # the retry of a failed attempt: the SAME object, with the vector SFail gave it
                    retried.discard(e["i"])
                else:
                    trace.append("SNew %s %s" % (zl(e["i"]), enc_list(e["v"])))
                trace.append("SStart %s" % zl(e["i"]))
            elif k == "fail":
                failing[e["t"]] = e["i"]
                hist["failed_attempts"] += 1
            elif k == "genvec":
                if e["t"] in failing:           # Job.evaluate's except branch: the replacement vector (other callers: generators)
                    i = failing.pop(e["t"])
                    retried.add(i)
                    trace.append("SFail %s %s" % (zl(i), enc_list(e["v"])))
            elif k == "reopen":
                trace.append("SReopen")
                begun = []
                pend_pop.clear()
                retried.clear()
                session += 1
                mine = set()
                started = {}
                rows_at_open[session] = len(committed)
            elif k == "stmt":
                if sum(1 for mm in ctx.mismatches if mm.get("correspondence") == "meta rows") < 10:
                    ctx.mismatches.append({"what": "the writer issued %r after the store had been created: in the model main / parameters / costs are "
                                                   "written once, at creation, and never again (C11_meta_survives), and the individuals table is "
                                                   "written by the upsert only" % e.get("sql"),
                                           "correspondence": "meta rows", "case": {"scenario": sc, "crash": crash}})
            elif k == "costs":
                obj.append((started[e["i"]], e["c"]))
                trace.append("SCosts %s" % zl(e["i"]))
            elif k == "signed":
                sg.append((started[e["i"]], e["s"]))
                trace.append("SSigned %s" % zl(e["i"]))
                trace.append("SDone %s" % zl(e["i"]))          # see TRUSTED: placed where job.py has it
            elif k == "copy":
                trace.append("SCopy %s %s" % (zl(e["j"]), zl(e["i"])))
            elif k == "plan":
                for i, old in e["objs"]:
                    plan.setdefault(i, []).append(old)
            elif k == "exec":
                old = plan.get(e["i"], [False]).pop(0) if plan.get(e["i"]) else False
                trace.append("%s %d %s" % ("SExecOld" if old else "SExec", e["c"], zl(e["i"])))
                pend_pop.setdefault(e["c"], []).append((e["i"], e.get("p")))
                seen_pop.setdefault(e["i"], set()).add(e.get("p"))
            elif k == "commit_begin":
                begun.append(e["c"])
            elif k == "commit":
                if e["c"] in begun:
                    begun.remove(e["c"])
                trace.append("SCommit %d" % e["c"])
                for i, pp in pend_pop.pop(e["c"], []):
                    comm_pop[i] = pp
                    committed.add(i)
            elif k == "ret":
                returned.append(e["i"])
                trace.append("SReturn %s" % zl(e["i"]))
                if e["i"] in mine and e["i"] in started:
                    ack[(session, e["i"])] = started[e["i"]]
            elif k == "jobret":
                # Job.evaluate has returned for an individual it evaluated: its synchronisation into the store attached to the
                # problem has returned (job.py 44-50) - model: SReturn, legal only after a committed statement for this id
                if e.get("fresh") and e.get("db") == dbi:
                    trace.append("SReturn %s" % zl(e["i"]))
                    job_done[e["i"]] = started.get(e["i"])
                    hist["job_returns"] += 1
            elif k == "journal":
                hist["journal_modes"][e["mode"]] = hist["journal_modes"].get(e["mode"], 0) + 1
                if e["mode"].lower() in ("off", "memory"):
                    ctx.mismatches.append({"what": "a writing connection is not journalled (journal_mode = %s): the atomic-commit assumption "
                                                   "of the C11 theorems is not met" % e["mode"], "correspondence": "journal mode", "case": sc})
            elif k == "exception":
                ctx.mismatches.append({"what": "writer raised %s" % e["what"], "correspondence": "writer", "case": {"scenario": sc, "crash": crash}})
        conns = sorted(set(begun))
        rd = res["read"] if dbi == 0 else res["read_b"]
        c = ("{| q_designs := %s; q_objective := %s; q_signed := %s; q_trace := %s; q_conns := %s |}" % (
            ll(designs, lambda d: pl(zl(d[0]), enc_list(d[1]))), ll(obj, lambda d: pl(enc_list(d[0]), enc_list(d[1]))),
            ll(sg, lambda d: pl(enc_list(d[0]), enc_val(d[1]))), ll(trace), ll(conns, str)))
        if "error" in rd:
            rows_term = '[(0, None)]'
        else:
            rows_term = ll(rd["rows"], lambda r: pl(zl(r[0]), "(Some %s)" % ll([enc_val(r[1]), enc_val(r[2]), enc_val(r[3]), enc_val(r[4])])))
        e = "(%s, %s, [])" % ("true" if exact else "false", rows_term)
        # ---- direct oracle
        if "error" in rd:
            fail("after the crash the file cannot be opened by a read-mode view: %s" % rd["error"], sc, crash, "view raises")
        else:
            if rd["name"] != "crash_%d" % m or rd["parameters"] != ["x_1", "x_2"] or rd["costs"] != ["F_%d" % (j + 1) for j in range(m)]:
                fail("problem rows damaged: name %r parameters %r costs %r" % (rd["name"], rd["parameters"], rd["costs"]), sc, crash, "meta rows")
            ids = [r[0] for r in rd["rows"]]
            if len(set(rd["raw_ids"])) != len(rd["raw_ids"]) or sorted(rd["raw_ids"]) != sorted(ids):
                fail("raw table ids %r, view ids %r" % (rd["raw_ids"], ids), sc, crash, "one row per id")
            if not rd["raw_keys_ok"]:
                fail("a stored image lacks one of the eleven keys", sc, crash, "partial row")
            for i in sorted(set(returned)):
                if i not in ids:
                    fail("synchronisation of individual %d had returned before the crash, but the store has no row for it" % i, sc, crash,
                         "returned id missing", id=i, rows=ids)
            # the property's own wording, observed outside the store object: an individual that Job.evaluate has finished (evaluated
            # and handed to the store) is in the file of the store that was attached to the problem at that moment
            for i in sorted(set(job_done) - set(returned)):
                if i not in ids:
                    fail("Job.evaluate had evaluated individual %d (vector %r) and returned before the crash while the store on file %d of "
                         "the run was attached to the problem, but that file has no row for it (the store object that was told about it, "
                         "if any, is not the problem's)" % (i, job_done[i] and [float.fromhex(t["f"]) if isinstance(t, dict) else t for t in job_done[i]],
                                                            dbi), sc, crash, "evaluated individual missing", id=i, rows=ids, store_file=dbi)
            # every individual acknowledged in ANY session is still there with ITS OWN data: a later session re-synchronises the
            # individuals it rebuilt from the rows (same data) and writes NEW ids for the individuals it creates itself
            by_id = {r[0]: r for r in rd["rows"]}
            if not forced:
                for (s_no, i), v in sorted(ack.items()):
                    r = by_id.get(i)
                    if r is not None and json.dumps(r[1]) != json.dumps(v):
                        fail("individual %d (vector %r) was synchronised in session %d of %d and acknowledged; the row of its id now holds "
                             "vector %r: an individual created by a later session was given the id of a stored one and replaced it"
                             % (i, [float.fromhex(t["f"]) if isinstance(t, dict) else t for t in v], s_no + 1, session + 1,
                                [float.fromhex(t["f"]) if isinstance(t, dict) else t for t in r[1]]), sc, crash, "acknowledged individual replaced",
                             id=i, session=s_no + 1)
                for s_no, n_rows in sorted(rows_at_open.items()):
                    ids_new = new_ids.get(s_no, [])
                    exact_pre = all(x.get("crash", {"kind": "none"})["kind"] in ("none", "boundary", "objective") and x.get("procs", 1) == 1 for x in chain[1:])
                    if ids_new and exact_pre and min(ids_new) != n_rows and sum(1 for mm in ctx.mismatches if mm.get("correspondence") == "id allocation") < 10:
                        ctx.mismatches.append({"what": "session %d found %d rows when it opened the file and numbered its own individuals from %d: in the "
                                                       "unchanged code every row rebuilt by Individual.from_dict consumes one id of the process's counter, "
                                                       "so the new individuals are numbered from the number of rows" % (s_no + 1, n_rows, min(ids_new)),
                                               "correspondence": "id allocation", "case": {"scenario": sc, "crash": crash}})
            for r in rd["rows"]:
                iid, vec, costs, signed, state = r[0], r[1], r[2], r[3], r[4]
                try:
                    want = objective(vec, m)
                    got = [float.fromhex(t["f"]) if isinstance(t, dict) else t for t in costs]
                    ok_costs = len(got) == m and all(a.hex() == float(b).hex() for a, b in zip(want, got))
                    ws = [float(np.float64(1) * np.round(cst, decimals=7)) for cst in want] + [True]
                    gs = [float.fromhex(t["f"]) if isinstance(t, dict) else t for t in signed]
                    ok_signed = len(gs) == m + 1 and gs[-1] is True and all(float(a).hex() == float(b).hex() for a, b in zip(ws[:-1], gs[:-1]))
                except Exception:
                    ok_costs = ok_signed = False
                if not ok_costs:
                    fail("row %d: costs %r do not belong to its vector %r" % (iid, costs, vec), sc, crash, "costs match vector", id=iid)
                if not ok_signed or state not in (("evaluated", "empty", None) if sc.get("pre") else ("evaluated", "empty")):
                    fail("row %d holds a partially written individual: state %r, signed costs %r, costs %r" % (iid, state, signed, costs),
                         sc, crash, "partial row", id=iid)
            if rd.get("field_bad"):
                fail("rows %r hold a partially written individual: the stored field (individual.custom) is not the field of the stored "
                     "vector" % rd["field_bad"], sc, crash, "partial row", ids=rd["field_bad"])
            # the image a row shows is the one of the last COMMITTED statement for its id (monitor of the assumption on SQLite:
            # uncommitted statements vanish, committed ones stay), seen on a field the 4-field projection does not cover
            for r in rd["rows"]:
                if len(r) > 6 and r[0] in seen_pop and None not in seen_pop[r[0]]:
                    okp = (r[6] == comm_pop.get(r[0])) if exact else (r[6] in seen_pop[r[0]])
                    if not okp:
                        ctx.mismatches.append({"what": "row %d shows population_id %r; the last committed statement for it had %r (executed so "
                                                       "far: %r)" % (r[0], r[6], comm_pop.get(r[0]), sorted(seen_pop[r[0]])),
                                               "correspondence": "committed image", "case": {"scenario": sc, "crash": crash}})
            hist["rows_read"] += len(ids)
            hist["hot_journal_left"] += bool(rd.get("journal_left"))
        hist["returned_ids"] += len(set(returned))
        return c, e, {"scenario": sc, "crash": crash, "store_file": dbi, "events": len(evs), "rows": None if "error" in rd else [r[0] for r in rd["rows"]],
                      "returned": sorted(set(returned)), "in_flight_connections": conns}

    def shape_check(sc, evs):
        """serial reference run: every evaluated design goes start, costs, signed, execute, commit, returned - the `job` list
        of the model (Job.evaluate followed at once by sync_individual on a connection of its own)"""
        per = {}
        conn_of = {}
        for e in evs:
            k = e.get("e")
            if k in ("start", "costs", "signed", "ret", "fail"):
                per.setdefault(e["i"], []).append(k)
            elif k == "exec":
                per.setdefault(e["i"], []).append("exec")
                conn_of.setdefault(e["c"], []).append(e["i"])
            elif k == "commit":
                for i in conn_of.get(e["c"], [])[-1:]:
                    if len(conn_of[e["c"]]) == 1:
                        per.setdefault(i, []).append("commit")
        for i, seq0 in per.items():
            seq = seq0
            nf = 0
            while seq[:2] == ["start", "fail"] and nf < 4:      # failed attempts: nothing but the objective call, at most four
                seq = seq[2:]
                nf += 1
            if "start" in seq and seq[:6] != ["start", "costs", "signed", "exec", "commit", "ret"]:
                ctx.mismatches.append({"what": "the steps of design %d are %r: not the job list of Model/Crash.v ((objective call that raises)* evaluate, "
                                               "then synchronise and commit at once on a connection of its own)" % (i, seq0[:12]),
                                       "correspondence": "job shape", "case": sc})
                return

    def count_points(evs):
        # (a write attempt that SQLite refuses at its execute has passed "before execute" and nothing else)
        nb = sum(2 if (e["e"] == "exec" and not e.get("many")) or e["e"] in ("stmt", "many") else
                 1 if e["e"] == "commit" or (e["e"] == "refused" and e["at"] == "execute") else 0 for e in evs)
        no = sum(1 for e in evs if e["e"] == "start")
        return nb, no

    def directed_points(sc, evs):
        """large rows: kills between an execute and its commit (INSERT of Job.evaluate, UPDATEs of sync_all in one transaction,
        UPDATE of the re-synchronisation), and SIGKILLs into the commits; quick: a handful, thorough: all of them"""
        n = sc["n"]
        after, k, ncommit = [], 0, 0
        for e in evs:
            if e["e"] == "exec":
                after.append(k + 1)
                k += 2
            elif e["e"] == "commit":
                k += 1
                ncommit += 1
        if ctx.thorough or len(after) != 3 * n:
            pts = [{"kind": "boundary", "k": j} for j in after]
            pts += [{"kind": "sigkill_commit", "k": j} for j in range(ncommit)]
            return pts if len(pts) <= 24 else rng.sample(pts, 24)
        js = sorted({0, n + (n - 1) // 2, 2 * n - 1, 2 * n, 3 * n - 1})      # exec number: first INSERT, middle / last of sync_all, first / last re-sync
        return [{"kind": "boundary", "k": after[j]} for j in js] + [{"kind": "sigkill_commit", "k": j} for j in sorted({n, n + 1})]

    few = (ctx.pick(2, 6), ctx.pick(2, 6))
    scenarios = [({"alg": "sweep", "n": 6, "seed": 11, "procs": 1}, "all"),
                 ({"alg": "sweep1", "n": 3, "seed": 12, "procs": 1}, "all"),
                 ({"alg": "nsga2", "n": 4, "g": 2, "seed": 13, "procs": 1}, ctx.pick(40, "all")),
                 ({"alg": "epsmoea", "n": 3, "g": 1, "seed": 14, "procs": 1}, ctx.pick(30, "all")),
                 ({"alg": "sweep", "n": 3, "seed": 17, "procs": 1, "reset_counter": True,
                   "pre": {"alg": "sweep", "n": 3, "seed": 18, "procs": 1}}, "all"),
                 ({"alg": "nsga2", "n": 3, "g": 2, "seed": 19, "procs": 1,
                   "pre": {"alg": "sweep", "n": 4, "seed": 20, "procs": 1}}, ctx.pick(20, "all")),
                 ({"alg": "sweep", "n": 8, "seed": 15, "procs": 2, "jitter": 0.002}, ctx.pick(20, 60)),
                 ({"alg": "nsga2", "n": 4, "g": 2, "seed": 16, "procs": 2, "jitter": 0.002}, ctx.pick(8, 40)),
                 # transient failures of the objective (scripted per global call number): Job.evaluate draws a replacement vector
                 # and tries again, at most four times; the failure path writes NOTHING to the store.  Crash points: every
                 # objective call (the retries included) and every boundary.  1 / 2 / 4 / 3+1 failures in a row, on the
                 # first / middle / last design of three
                 ({"alg": "sweep", "n": 3, "seed": 31, "procs": 1, "fail": [0]}, "all", few),
                 ({"alg": "sweep", "n": 3, "seed": 32, "procs": 1, "fail": [1, 2]}, "all", few),
                 ({"alg": "sweep1", "n": 3, "seed": 33, "procs": 1, "fail": [2, 3, 4, 5]}, "all", few),
                 ({"alg": "sweep", "n": 3, "seed": 34, "procs": 1, "fail": [0, 1, 2, 4]}, "all", few),
                 ({"alg": "nsga2", "n": 3, "g": 2, "seed": 35, "procs": 1, "fail": [1, 4, 5]}, ctx.pick(16, "all"), few),
                 ({"alg": "sweep", "n": 6, "seed": 36, "procs": 2, "jitter": 0.002, "fail": [0, 3, 4, 8]}, ctx.pick(14, 60), few),
                 # large rows (individual.custom holds a field of `payload` integers: about 1, 3 and 8 MB of JSON, more than SQLite's
                 # page cache, so pages reach the database file BEFORE the commit), synchronised a second time (UPDATE) and killed
                 # between execute and commit; many medium rows in ONE sync_all transaction killed before its commit.
                 # A fresh process must open the file and find the last committed images.
                 ({"alg": "sweep", "n": 2, "seed": 41, "procs": 1, "payload": 130000, "resync": True, "watchdog": 60.0}, "directed", (0, 0)),
                 ({"alg": "sweep", "n": 2, "seed": 42, "procs": 1, "payload": 400000, "resync": True, "watchdog": 60.0}, "directed", (0, 0)),
                 ({"alg": "sweep1", "n": 1, "seed": 43, "procs": 1, "payload": 1000000, "resync": True, "watchdog": 60.0}, "directed", (0, 0)),
                 ({"alg": "sweep", "n": 30, "seed": 44, "procs": 1, "payload": 20000, "resync": True, "watchdog": 60.0}, "directed", (0, 0)),
                 # ANOTHER PROCESS holds a lock on the file while the `at`-th individual is synchronised, for as long as it takes to
                 # refuse the writer r times in a row (busy timeout shortened to 20 ms by the connect proxy: only scales the waiting);
                 # then it lets go, the run continues, and the writer is killed at every later (and earlier) point: a synchronisation
                 # that has RETURNED has written its row (retry until success, as C07's XRefused model says)
                 ({"alg": "sweep", "n": 4, "seed": 61, "procs": 1, "lock": {"kind": "read", "at": 1, "r": 7}}, "all", few),
                 ({"alg": "sweep1", "n": 3, "seed": 62, "procs": 1, "lock": {"kind": "immediate", "at": 0, "r": 6}}, "all", few),
                 ({"alg": "sweep", "n": 3, "seed": 63, "procs": 1, "lock": {"kind": "exclusive", "at": 1, "r": 12}}, ctx.pick(20, "all"), few),
                 ({"alg": "nsga2", "n": 3, "g": 2, "seed": 64, "procs": 1, "lock": {"kind": "read", "at": 4, "r": 5}}, ctx.pick(16, "all"), few),
                 ({"alg": "sweep", "n": 3, "seed": 65, "procs": 1, "lock": {"kind": "read", "at": 1, "r": 1}}, ctx.pick(10, "all"), (1, 1)),
                 ({"alg": "sweep", "n": 6, "seed": 66, "procs": 2, "jitter": 0.002, "lock": {"kind": "read", "at": 2, "r": 7}}, ctx.pick(10, 40), few)]
    # red-team round 3.  (a) runs CONTINUED into an existing store: the earlier sessions were KILLED (at their own crash point) or
    # completed, the new process opens the file in write mode (rows rebuilt by Individual.from_dict), creates its own individuals
    # - numbered, in the unchanged code, from the number of rows it found - and is killed at every point: every individual
    # acknowledged in ANY session is still present with its own vector.  (`reset_counter` above is the harness forcing colliding ids,
    # which the model allows; it is excluded from that clause)
    scenarios += [
        ({"alg": "sweep", "n": 3, "seed": 101, "procs": 1,
          "pre": {"alg": "sweep", "n": 4, "seed": 102, "procs": 1, "crash": {"kind": "objective", "k": 3}}}, "all", few),
        ({"alg": "sweep", "n": 3, "seed": 17, "procs": 1, "pre": {"alg": "sweep", "n": 3, "seed": 18, "procs": 1}}, ctx.pick(12, "all"), few),
        ({"alg": "sweep", "n": 2, "seed": 103, "procs": 1,
          "pre": {"alg": "sweep", "n": 3, "seed": 104, "procs": 1, "crash": {"kind": "boundary", "k": 4},
                  "pre": {"alg": "sweep", "n": 3, "seed": 105, "procs": 1, "crash": {"kind": "boundary", "k": 5}}}}, "all", few),
        ({"alg": "nsga2", "n": 3, "g": 2, "seed": 106, "procs": 1,
          "pre": {"alg": "sweep", "n": 4, "seed": 107, "procs": 1, "crash": {"kind": "boundary", "k": 7}}}, ctx.pick(14, "all"), few),
        # (b) the problem description changes AFTER the store was created (GradientEvaluator / WorstCaseEvaluator constructors append a
        # 'sensitivity' cost; parameters / costs / name edited in place): the unchanged store writes main / parameters / costs once;
        # kill points at every statement and commit of the run, the final sync_all included; the file keeps its first description
        ({"alg": "sweep", "n": 3, "seed": 111, "procs": 1, "describe": "gradient"}, "all", few),
        ({"alg": "sweep1", "n": 2, "seed": 112, "procs": 1, "describe": "worst_case"}, "all", few),
        ({"alg": "nsga2", "n": 3, "g": 1, "seed": 113, "procs": 1, "describe": "param_key"}, ctx.pick(12, "all"), few),
        ({"alg": "sweep", "n": 2, "seed": 114, "procs": 1, "describe": "rename"}, "all", few),
        ({"alg": "sweep", "n": 2, "seed": 115, "procs": 1, "describe": "cost_edit",
          "pre": {"alg": "sweep", "n": 2, "seed": 116, "procs": 1, "describe": "gradient"}}, "all", few)]
    # red-team round 6 (lessons rule 9: configuration changed between construction and use).  Which store object is problem.data_store
    # changes between the construction of the algorithm object (its Evaluator builds the Job there) and the evaluations: every
    # scenario above builds the algorithm first and attaches the store afterwards; here also the usual order (store first), a store
    # exchanged for another file before the run starts, and a store exchanged between two batches of ONE algorithm object.  Killed
    # at every objective call / boundary of both batches: every individual that Job.evaluate has finished is in the file of the store
    # that was attached to the problem at that moment (both files are read by a fresh process; each is a model case of its own)
    one = (1, 1)
    scenarios += [
        ({"alg": "sweep", "n": 3, "seed": 131, "procs": 1, "swap": {"n": 3, "seed": 132}}, "all", few),
        ({"alg": "sweep1", "n": 2, "seed": 133, "procs": 1, "order": "store_first", "swap": "before_run"}, "all", one),
        ({"alg": "nsga2", "n": 3, "g": 2, "seed": 134, "procs": 1, "order": "store_first", "swap": {"n": 3, "seed": 0}}, ctx.pick(12, "all"), one),
        ({"alg": "sweep", "n": 4, "seed": 135, "procs": 2, "jitter": 0.002, "order": "store_first", "swap": {"n": 4, "seed": 136}}, ctx.pick(6, 40), one),
        ({"alg": "sweep", "n": 3, "seed": 137, "procs": 1, "order": "store_first"}, ctx.pick(6, "all"), one)]
    if ctx.thorough:
        scenarios += [({"alg": "epsmoea", "n": 3, "g": 1, "seed": 138, "procs": 1, "swap": {"n": 3, "seed": 0}}, "all", few),
                      ({"alg": "nsga2", "n": 3, "g": 2, "seed": 139, "procs": 1, "swap": {"n": 3, "seed": 0}}, "all", few),
                      ({"alg": "epsmoea", "n": 3, "g": 1, "seed": 140, "procs": 1, "order": "store_first", "swap": "before_run"}, "all", few),
                      ({"alg": "sweep", "n": 3, "seed": 141, "procs": 1, "order": "store_first", "fail": [1, 4],
                        "swap": {"n": 2, "seed": 142}}, "all", few),
                      ({"alg": "nsga2", "n": 4, "g": 2, "seed": 143, "procs": 2, "jitter": 0.002, "swap": {"n": 4, "seed": 0}}, 40, few)]
    if ctx.thorough:
        scenarios += [({"alg": "epsmoea", "n": 3, "g": 1, "seed": 121, "procs": 1, "describe": "gradient",
                        "pre": {"alg": "sweep", "n": 5, "seed": 122, "procs": 1, "crash": {"kind": "objective", "k": 2}}}, "all", few),
                      ({"alg": "sweep", "n": 4, "seed": 123, "procs": 2, "jitter": 0.002, "describe": "worst_case",
                        "pre": {"alg": "sweep", "n": 6, "seed": 124, "procs": 1, "crash": {"kind": "boundary", "k": 10}}}, 40, few)]
        scenarios += [({"alg": "sweep", "n": 30, "seed": 21, "procs": 1}, "all"),
                      ({"alg": "sweep", "n": 30, "seed": 22, "procs": 4, "jitter": 0.002}, 120),
                      ({"alg": "nsga2", "n": 6, "g": 4, "seed": 23, "procs": 1}, 250),
                      ({"alg": "nsga2", "n": 8, "g": 3, "seed": 24, "procs": 4, "jitter": 0.002}, 80),
                      ({"alg": "epsmoea", "n": 6, "g": 3, "seed": 25, "procs": 1}, 200),
                      ({"alg": "epsmoea", "n": 6, "g": 2, "seed": 26, "procs": 2, "jitter": 0.002}, 60)]
        # the whole grid: 1..4 failures in a row on the first / middle / last design, serial (all points) and two workers
        for kf in (1, 2, 3, 4):
            for pos in (0, 1, 2):
                scenarios.append(({"alg": "sweep", "n": 3, "seed": 50 + 4 * pos + kf, "procs": 1, "fail": list(range(pos, pos + kf))}, "all", few))
                scenarios.append(({"alg": "sweep", "n": 4, "seed": 70 + 4 * pos + kf, "procs": 2, "jitter": 0.002,
                                   "fail": list(range(pos, pos + kf))}, 12, few))
        scenarios += [({"alg": "nsga2", "n": 4, "g": 2, "seed": 90, "procs": 1, "fail": [0, 1, 2, 3, 6, 9, 10]}, 80, few),
                      ({"alg": "epsmoea", "n": 4, "g": 2, "seed": 91, "procs": 1, "fail": [2, 3, 7, 11]}, 80, few),
                      ({"alg": "nsga2", "n": 4, "g": 2, "seed": 92, "procs": 2, "jitter": 0.002, "fail": [1, 2, 5, 9]}, 40, few),
                      ({"alg": "sweep", "n": 3, "seed": 45, "procs": 1, "payload": 400000, "resync": True, "watchdog": 90.0}, "directed", (0, 0)),
                      ({"alg": "sweep", "n": 4, "seed": 67, "procs": 1, "lock": {"kind": "exclusive", "at": 0, "r": 25}}, "all", few),
                      ({"alg": "sweep", "n": 4, "seed": 68, "procs": 1, "lock": {"kind": "immediate", "at": 3, "r": 11}}, "all", few),
                      ({"alg": "epsmoea", "n": 3, "g": 1, "seed": 69, "procs": 1, "lock": {"kind": "read", "at": 2, "r": 8}}, "all", few),
                      ({"alg": "nsga2", "n": 4, "g": 2, "seed": 70, "procs": 2, "jitter": 0.002, "lock": {"kind": "exclusive", "at": 3, "r": 6}}, 40, few),
                      ({"alg": "sweep", "n": 48, "seed": 46, "procs": 1, "payload": 16000, "resync": True, "watchdog": 90.0}, "directed", (0, 0))]
    scenarios = [t if len(t) == 3 else (t[0], t[1], (ctx.pick(4, 30), ctx.pick(5, 30))) for t in scenarios]
    try:
        # reference runs (no crash): number of crash points, shape of the job lists
        refs = [submit(k, sc, {"kind": "none"}) for k, (sc, _, _) in enumerate(scenarios)]
        k = len(scenarios)
        for (sc, how, nkill), fut in zip(scenarios, refs):
            res = fut.result()
            evs = res["events"]
            if not any(e.get("e") == "finished" for e in evs):
                ctx.mismatches.append({"what": "reference run (no crash) did not finish", "correspondence": "writer", "case": sc, "events": evs[-5:]})
            if "pre" in sc:
                evs = evs[max(j for j, e in enumerate(evs) if e.get("e") == "reopen") + 1:]      # crash points of the second session
            elif sc["procs"] == 1:
                shape_check(sc, evs)
            nb, no = count_points(evs)
            points = [{"kind": "boundary", "k": j} for j in range(nb)] + [{"kind": "objective", "k": j} for j in range(no)]
            if how == "directed":
                points = directed_points(sc, evs)
                hist["big_row_kills"] += len(points)
            elif how != "all" and how < len(points):
                points = rng.sample(points, how)
            if sc.get("fail") and sorted(e["e"] == "fail" for e in evs).count(True) != len(sc["fail"]):
                ctx.mismatches.append({"what": "reference run: %d of the %d scripted failures happened" % (
                    sum(e["e"] == "fail" for e in evs), len(sc["fail"])), "correspondence": "writer", "case": sc})
            hist["scenarios"].append(dict(sc, boundaries=nb, objective_calls=no, crash_points_run=len(points), duration_s=round(res["writer_s"], 3)))
            jobs.append((sc, {"kind": "none"}, fut))
            for cp in points:
                jobs.append((sc, cp, submit(k, sc, cp)))
                k += 1
            ncommit = sum(1 for e in evs if e["e"] == "commit")
            kills = [{"kind": "sigkill", "delay": rng.random() * res["writer_s"]} for _ in range(nkill[0])]
            kills += [{"kind": "sigkill_commit", "k": j} for j in rng.sample(range(ncommit), min(ncommit, nkill[1]))]
            for cp in kills:
                jobs.append((sc, cp, submit(k, sc, cp)))
                k += 1
        for sc, crash, fut in jobs:
            res = fut.result()
            evs = res["events"]
            at = next((e["at"] for e in evs if e.get("e") == "crash"), None)
            exact = sc["procs"] == 1 and crash["kind"] in ("none", "boundary", "objective")
            if crash["kind"] in ("boundary", "objective") and at is None and sc["procs"] == 1:
                ctx.mismatches.append({"what": "serial run did not reach crash point %r (not deterministic?)" % (crash,), "correspondence": "writer", "case": sc})
            tag = at if at else crash["kind"]
            hist["crash_points"][tag] = hist["crash_points"].get(tag, 0) + 1
            hist["exact" if exact else "interval"] += 1
            st = res["status"]
            how = "signal %d" % (st & 0x7f) if st & 0x7f else "exit %d" % (st >> 8)
            hist["writer_died_by"][how] = hist["writer_died_by"].get(how, 0) + 1
            open_failed = set()
            for ev in evs:
                if ev.get("e") == "fail":
                    open_failed.add(ev["i"])
                elif ev.get("e") == "ret":
                    open_failed.discard(ev["i"])
            if crash["kind"] != "none" and any(ev.get("e") == "fail" for ev in evs):
                hist["crash_with_failed_attempt_before"] += 1
                hist["crash_inside_retry_or_between_failure_and_success"] += bool(open_failed)
            if res.get("journal_bytes_at_death"):
                hist["hot_journal_bytes_max"] = max(hist["hot_journal_bytes_max"], res["journal_bytes_at_death"])
            if sc.get("lock"):
                xl = hist["external_lock"]
                nref = sum(1 for ev in evs if ev.get("e") == "refused")
                xl["runs"] += 1
                xl["lock_taken"] += any(ev.get("e") == "locked" and ev.get("held") for ev in evs)
                xl["refused_attempts"] += nref
                xl["longest_refusal_streak"] = max(xl["longest_refusal_streak"], nref)
                xl["by_kind"][sc["lock"]["kind"]] = xl["by_kind"].get(sc["lock"]["kind"], 0) + 1
                victim = next((ev["i"] for ev in evs if ev.get("e") == "refused"), None)
                xl["crashes_after_the_refused_sync_returned"] += crash["kind"] != "none" and any(
                    ev.get("e") == "ret" and ev["i"] == victim for ev in evs)
            c, e, mt = to_case(sc, crash, res, exact)
            cases.append(c)
            expected.append(e)
            meta.append(mt)
            if sc.get("swap"):
                hist["store_exchanged"]["runs"] += 1
                if res.get("read_b") is not None:           # the second store of the run had been created when the writer died
                    hist["store_exchanged"]["killed_after_the_exchange"] += crash["kind"] != "none"
                    c2, e2, mt2 = to_case(sc, crash, res, exact, 1)
                    cases.append(c2)
                    expected.append(e2)
                    meta.append(mt2)
                    hist["store_exchanged"]["rows_in_second_file"] += len(mt2["rows"] or ())
            if not exact and mt["rows"] is not None and len(mt["in_flight_connections"]) > 0:
                hist["rows_in_flight_observed"] += 1
            ctx.count((sc["alg"], sc["n"], sc.get("g"), sc["procs"], "pre" in sc, tuple(sc.get("fail", ())), sc.get("payload", 0), json.dumps(sc.get("lock")),
                       sc.get("order"), json.dumps(sc.get("swap")),
                       crash["kind"], crash.get("k"), len(evs), tuple(mt["rows"] or ())),
                      nontrivial=crash["kind"] != "none")
            if sc["alg"] == "sweep1" and crash["kind"] == "boundary" and crash["k"] in (1, 2):
                ctx.sample({"case": mt, "events": evs})
    finally:
        pool.shutdown(wait=True)
        for s in servers:
            s.close()

    ctx.coq_compare("c11", HEADER, "c11_case", "c11_obs", "c11_run", "c11_eqb", cases, expected, meta, shard=ctx.pick(25, 60))
    ctx.extra.update({"crash_points": sum(v for kk, v in hist["crash_points"].items() if kk != "none"), "distribution": hist})
    ctx.rule = ("one run of the writer per crash point: every objective call and every statement / commit boundary of the serial scenarios "
                "(sampled for the larger ones), sampled boundaries and random-instant SIGKILLs of the parallel ones; the same with scripted transient failures of the "
                "objective (1-4 in a row; crash points inside the retries); directed kills between execute and commit (and SIGKILL inside the "
                "commit) of rows / transactions larger than the page cache; runs in which ANOTHER PROCESS holds a read / write / exclusive "
                "lock on the file during the synchronisation of a chosen individual until the writer has been refused 1..12 times in a row, "
                "killed at every point before / inside / after that synchronisation; chains of killed / completed sessions continued into one "
                "file and runs whose problem description changes after the store was created, killed at every point; runs whose store is "
                "attached before / after the algorithm object is built, exchanged for another file before the run or between two batches "
                "of one algorithm object, killed at every point of both batches, both files read back; a case is non-trivial "
                "when the writer was killed; distinct = distinct (scenario, crash point, number of reported events, row ids found)")


LEVEL_TEXT = ("Machine-checked Coq theorems over a step model of Job.evaluate / sync_individual / sync_all on top of the C10 store model "
              "(durable state = last committed table; a synchronisation = [execute upsert; commit] on its own connection; a failed attempt = "
              "[objective entered; it raises, replacement vector, state EMPTY] with no store statement; crash point = any prefix of the step "
              "sequence): for every trace that obeys the order of the code, cut anywhere, the recovered table has one row per id, a row for "
              "every id whose synchronisation had returned, and only complete images whose costs and signed costs are the objective's for the "
              "stored vector (readable by the view); every interleaving of the per-design job step lists - serial or parallel evaluation, any "
              "number of failed attempts per design - followed by the final sync_all is such a trace, and a trace with a store statement "
              "between a failed attempt and its retry is not; the problem rows are untouched. Tied to the code on every run by killing a real "
              "writer process (os._exit inside every objective call - the retries of scripted transient failures included - and before / "
              "between / after every execute and commit, SIGKILL at random instants and inside commits, serial and 2-4 worker threads; sweep, "
              "NSGA-II, eps-MOEA; second sessions on the same file; rows of 1-8 MB and 4.5 MB transactions, larger than SQLite's page cache, "
              "re-synchronised and killed between execute and commit) and comparing what a fresh process reads from the file with the model's "
              "prediction for the reported prefix.")
LEVEL_NOTE = ("proof, PARTIAL: the theorems are about the artap-level protocol (what is executed and committed when). SQLite's rollback journal, "
              "the file system and the OS - i.e. that one commit is atomic and durable against process death and that uncommitted statements "
              "vanish - are exercised by the kill runs (also with transactions that spill to the database file before the commit), NOT "
              "modelled or proved; power loss is outside (synchronous = 0). The order `legal` is proved for interleavings of job lists with "
              "failed attempts + final sync_all and checked (not proved) on the reported traces of NSGA-II / eps-MOEA, whose later "
              "re-synchronisations and copies the general theorem covers. The code's limit of five attempts is not in the crash model "
              "(Model/Crash.v allows any number of failed attempts); it is in Model/Job.v job_evaluate, to which the translated Job.evaluate is "
              "proved equal. PARTIAL means: the runtime (SQLite journal / file system / OS) is not modelled; all 9 theorems are full over the "
              "model (there is no `_partial` theorem and no C11_full_statement). Correspondence is sampled.")
