"""C05 - exactly-once evaluation, cost/vector pairing, signed costs, sweep order, scalar bridge:
correspondence with Model/Job.v (driver Run/C05Run.v) and direct oracle.

This module also holds the machinery shared with C06 (harness/c06.py): the scripted Problem,
the `Session` that runs a script of operations on artap through its public entry points
(Algorithm.evaluate, Evaluator.evaluate_scalar, SweepAlgorithm.run), records the tapes the model
needs (objective outcomes per global call number, constraint table, gen_vector tape) and applies
the direct oracles of both properties (tagged "C05" / "C06"; each check reports its own).
"""
import contextlib
import copy
import io
import math
import struct
import threading
import time

from harness.core import fl, nl, bl, ll, pl, optl

PROP = "C05"
THEOREMS = {"Artap.Props.C05": [
    "C05_evaluate_once", "C05_evaluate_once_history", "C05_evaluate_once_all_histories", "C05_evaluated_design_untouched",
    "C05_repeated_evaluate_adds_no_call", "C05_costs_belong_to_vector", "C05_signed_costs_spec", "C05_stored_precision_kept",
    "C05_marker_ranks_feasible_first", "C05_sweep_order", "C05_scalar_bridge", "C05_scalar_bridge_general",
    "C05_roundp_q_precision", "C05_round7_q_precision", "C05_roundp_q_fixpoint"]}
AXIOMS_OK = []
# second tie to the code (tools/py2coq.py + coq/theories/GenProofs): the source of Individual.calc_signed_costs is
# translated on every run and proved equal to Model/Job.v signed_costs; so is the whole of Job.evaluate (front-end
# tools/py2coq_eff.py: try/except as a match on the objective's outcome, raise as a result), = Model/Job.v job_evaluate
from harness.core import translated_specs
# ... and Evaluator.evaluate_serial / evaluate_scalar (which designs reach Job.evaluate, the scalar bridge), the submission
# filter of evaluate_parallel and SweepAlgorithm.run, = Model/Job.v evaluate_serial / evaluate_scalar / sweep
TRANSLATED = translated_specs("SignedCostsGen", "JobGen", "EvalPathGen", "SweepGen", "IndividualInitGen")
TRUSTED = [
    "Coq 8.16.1 kernel, vm_compute for model evaluation (no native_compute)",
    "hand-written model Model/Job.v tied to job.py / operators.py / individual.py / algorithm_sweep.py by this correspondence run",
    "the objective, the constraint function and VectorAndNumbers.gen_vector are oracles: observed on the implementation and given to the model "
    "as tapes; the theorems hold for every oracle",
    "np.round(y, decimals=p) of a float = rint(y*10^p)/10^p (rint(y) for p = 0) with rint by the 2^52 trick and sign * value as a float "
    "product; of an integer object (the objective returned Python ints) = that integer (numpy's integer path, decimals >= 0) and sign * "
    "value the exact integer product (no negative zero): the driver's numbers carry an integer-object tag (Run/C05Run.v `num`, `nroundp`, "
    "`nsmul`; the tag is taken from the type of the object the implementation holds and is not itself compared); "
    "executed bit-exactly in the binary64 driver (Run/C05Run.v) for the design's stored precision p = features['precision'] and compared "
    "bit for bit; the theorems are stated for an abstract roundp / smul (the rational instance is proved to be within half a unit of "
    "the p-th decimal of its argument)",
    "SciPy / NLopt themselves are not modelled: the real optimiser runs of the thorough tier are checked by the direct oracle only",
]
ASSUMPTIONS = [
    "the objective returns a fresh list of floats (or of Python ints of magnitude < 2^53: exactly representable), does not modify the individual it is given, and the constraint function and "
    "data_store.sync_individual do not raise",
    "design objects are distinguished by identity (two designs with equal vectors are two designs); ids are heap positions in the model",
    "the ranking clause of the marker is stated for problems that declare at least one inequality constraint (without constraints every "
    "design carries the same marker `not 0.0` = True)",
    "|cost| * 10^precision < 1.7e308: beyond it the scaling inside np.round overflows and numpy returns +-inf (modelled bit-exactly, "
    "outside the oracle); stored precision is a non-negative int <= 22 (10^p exact in binary64)",
    "serial evaluation (max_processes <= 1); the parallel branch is the subject of C07",
]

HEADER = ("From Artap Require Import Run.C05Run.\nFrom Coq Require Import List ZArith Floats.\nImport ListNotations.\n"
          "Open Scope float_scope.\n")

VGRID = [-2.0, -1.0, -0.5, 0.0, 0.5, 1.0, 1.5, 2.0, 3.0, 0.1, 0.30000000000000004, -0.0, 1e-9, 2.5, 0.7,
         0.5 + 1e-11, 1.0 - 1e-11]      # hash(-1.0) == hash(-2.0); x and x + 1e-11 are "equal" for Individual.__eq__
TRANSIENT = {"T": TimeoutError, "R": RuntimeError, "N": NotImplementedError, "C": RecursionError}
FATAL = {"V": (ValueError, 2), "Z": (ZeroDivisionError, 3), "K": (KeyError, 4), "B": (None, 5), "A": (ArithmeticError, 6),
         "O": (OSError, 7)}
STATES = {"EMPTY": "Empty", "IN_PROGRESS": "InProgress", "EVALUATED": "Evaluated", "FAILED": "Failed"}
MODES = ["plain", "plain", "plain", "tiny", "half", "int", "huge", "special"]


def bits(x):
    return struct.pack("<d", float(x))


def vkey(v):
    return b"".join(bits(x) for x in v)


def same_float(a, b):
    try:
        a, b = float(a), float(b)
    except (TypeError, ValueError):
        return False
    return (math.isnan(a) and math.isnan(b)) or bits(a) == bits(b)


def same_vec(a, b):
    return len(a) == len(b) and all(same_float(x, y) for x, y in zip(a, b))


def is_num(x):
    return isinstance(x, (int, float)) and not isinstance(x, bool) or type(x).__name__ in ("float64", "float32", "int64", "int32")


def is_int_object(x):
    """a number the implementation holds as an integer object: numpy's round / multiply take the integer path for it"""
    return (isinstance(x, int) and not isinstance(x, bool)) or type(x).__name__ in ("int64", "int32", "int16", "int8", "uint64", "uint32")


def enc_num(x):
    """Run/C05Run.v `num`: F = float object, I = integer object (np.round is the identity on it)"""
    if not is_num(x):
        return "(F nan)"
    return "(%s %s)" % ("I" if is_int_object(x) else "F", fl(float(x)))


def enc_vec(v):
    try:
        return ll(list(v), enc_num)
    except TypeError:
        return "[F nan; F nan; F nan; F nan; F nan; F nan; F nan; F nan; F nan]"


def enc_snap(s):
    vec, costs, signed, state, feas, prec = s
    if len(signed) == 0:
        sg = "None"
    else:
        sg = "(Some %s)" % pl(enc_vec(signed[:-1]), bl(bool(signed[-1])))
    return "(mk %s %s %s %s %s %s)" % (enc_vec(vec), enc_vec(costs), sg, STATES.get(state, "Failed"), bl(feas), nl(prec))


def enc_result(r):
    if r == "Done":
        return "Done"
    if r == "Raised5":
        return "Raised5"
    return "(RaisedFatal %s)" % nl(r[1])


def make_F(mode, m, coef):
    """The user's objective as a pure function of the vector (so that the direct oracle can recompute
    it): m costs with more than 7 decimals; `mode` moves them to tiny / huge / half-way / special values."""
    def F(v):
        v = [float(x) for x in v]
        out = []
        for j in range(m):
            s = coef[j][0]
            for i, x in enumerate(v):
                s += coef[j][1 + i % 3] * x + (x * x) / (3.0 + j)
            if mode == "tiny":
                s = s * 1e-9
            elif mode == "huge":
                s = s * 1e300
            elif mode == "half":
                s = round(s, 6) + 0.5e-7
            elif mode == "int":
                s = float(round(s))
            elif mode == "special":
                k = int(abs(s) * 7) % 9
                s = [math.inf, -math.inf, -0.0, 0.0, math.nan, 1e305, -1e305, 5e-324, s][k]
            out.append(s)
        return out
    return F


def make_G(k, thr, special):
    def G(v):
        v = [float(x) for x in v]
        if not v:
            return [0.0] * k
        out = []
        for l in range(k):
            g = v[l % len(v)] - thr[l]
            if special and (g == 1.0 or (l >= 1 and int(abs(v[0]) * 16) % 5 == 0)):
                g = math.nan       # also: NaN in a later position next to finite values (a reduction with max/min skips it)
            out.append(g)
        return out
    return G


def rounded_ok(cost, s, prec=7):
    """`s` is `cost` rounded to `prec` decimals, as a statement about real numbers with float slack (R3).
    None = outside the domain (overflow regime of the scaling), not checked."""
    cost, s = float(cost), float(s)
    if math.isnan(cost):
        return math.isnan(s)
    if math.isinf(cost):
        return s == cost
    if prec > 22 or abs(cost) * 10.0 ** prec > 1e290:
        return None
    unit = 10.0 ** -prec
    if abs(s - cost) > 0.5 * unit * (1 + 1e-9) + 4 * math.ulp(cost):
        return False
    t = s * 10.0 ** prec
    return abs(t - round(t)) <= 4 * math.ulp(t) if abs(t) < 2.0 ** 53 else True


class Lab:
    """Everything that needs artap; built once per run."""

    def __init__(self, ctx):
        import logging
        import random as pyrandom
        from artap.problem import Problem
        from artap.individual import Individual
        from artap.algorithm import DummyAlgorithm
        from artap.algorithm_sweep import SweepAlgorithm
        from artap.utils import VectorAndNumbers
        import artap.operators as ops
        self.ctx = ctx
        self.Individual, self.DummyAlgorithm, self.SweepAlgorithm = Individual, DummyAlgorithm, SweepAlgorithm

        class SubIndividual(Individual):
            def add_features(self):
                self.features["extra"] = 1.0
        self.SubIndividual = SubIndividual
        self.VectorAndNumbers, self.ops, self.logging = VectorAndNumbers, ops, logging
        pyrandom.seed(ctx.rng.getrandbits(64))
        try:
            import numpy as np
            np.random.seed(ctx.rng.getrandbits(32))
            np.seterr(all="ignore")
        except Exception:
            pass

        class BaseExc(BaseException):
            pass
        self.BaseExc = BaseExc

        lab = self

        class ScriptedProblem(Problem):
            def set(self, **kwargs):
                self.name = "c05"
                self.parameters = kwargs["parameters"]
                self.costs = kwargs["costs"]
                self.session = None

            def evaluate(self, individual):
                return self.session.objective(individual)

            def evaluate_inequality_constraints(self, x):
                return self.session.constraints(x, super().evaluate_inequality_constraints(x))
        self.ScriptedProblem = ScriptedProblem
        self.cache = {}
        self.pristine = {}
        self.real_gen_vector = VectorAndNumbers.__dict__["gen_vector"]

    def discard(self, problem):
        """a private Problem is finished: remove its working directory now (artap names it by the microsecond part of
        the creation time only, so two long-lived Problems can share one and the atexit hook of the second would fail)"""
        import atexit
        try:
            atexit.unregister(problem.cleanup)
            problem.cleanup()
        except Exception:
            pass
        for k in [k for k, v in self.cache.items() if v[0] is problem]:
            del self.cache[k]
        self.pristine.pop(id(problem), None)

    def problem_for(self, dim, crit, pstyle, private=False):
        key = (dim, tuple(crit), pstyle)
        if private:                     # a Problem of its own (parallel runs: late worker threads must not meet a later session)
            self.private = getattr(self, "private", 0) + 1
            key = key + (self.private,)
        if key not in self.cache:
            params = []
            for i in range(dim):
                p = {"name": "x%d" % i, "bounds": [-2.0, 3.0]}
                if pstyle == 1 and i % 2 == 0:
                    p["precision"] = 0.5
                if pstyle == 2 and i == 0:
                    p = {"name": "x0", "initial_value": 2.0}
                params.append(p)
            costs = []
            for j, c in enumerate(crit):
                d = {"name": "F%d" % j}
                if c is not None:
                    d["criteria"] = c
                costs.append(d)
            with contextlib.redirect_stderr(io.StringIO()):
                p = self.ScriptedProblem(parameters=params, costs=costs)
            p.logger.setLevel(self.logging.CRITICAL)
            alg = self.DummyAlgorithm(p)
            self.cache[key] = (p, alg)
            self.pristine[id(p)] = copy.deepcopy(params)      # the problem definition as the user wrote it
        return self.cache[key]


class Recorder:
    """Stands in for problem.data_store: records every sync_individual call."""

    def __init__(self, session):
        self.session = session

    def sync_individual(self, individual):
        self.session.store.append((individual, self.session.snap(individual)))

    def sync_all(self):
        pass

    def destroy(self):
        pass


class Session:
    """One Problem, one history of operations.  cfg keys: dim, crit (list of 'minimize'/'maximize'/None),
    ncons, mode, coef, thr, extra (objective returns len(crit)+extra costs), pstyle, schedule (list of codes
    by global call number, 'ok' beyond its end), processes."""

    def __init__(self, lab, cfg):
        self.lab, self.cfg = lab, cfg
        self.problem, self.alg = lab.problem_for(cfg["dim"], cfg["crit"], cfg.get("pstyle", 0),
                                                 cfg.get("processes", 1) > 1 or cfg.get("private", False))
        p = self.problem
        p.session = self
        p.individuals = []
        p.failed = []
        p.data_store = Recorder(self)
        self.alg.options["max_processes"] = cfg.get("processes", 1)
        self.signs = [c == "maximize" for c in cfg["crit"]]
        self.F = make_F(cfg["mode"], max(0, len(cfg["crit"]) + cfg.get("extra", 0)), cfg["coef"])
        self.G = make_G(cfg["ncons"], cfg["thr"], cfg["mode"] == "special") if cfg["ncons"] > 0 else None
        self.schedule = list(cfg.get("schedule", []))
        self.objs, self.ids = [], {}
        self.calls = []          # (object, vector, code, raised exception or None)
        self.outs = []
        self.cons = {}
        self.tape = []
        self.tape_at = []        # number of objective calls made when gen_vector was called
        self.store = []
        self.ops, self.results = [], []
        self.failures = []       # direct-oracle failures: (group, what, detail)
        self.evaluated_by_run = []
        self.lock = threading.Lock()
        self.in_generate = False
        self.shared = []
        self.bounds = lab.pristine[id(self.problem)]

    # ---- scripted collaborators ------------------------------------------------------------
    def objective(self, individual):
        n = len(self.calls)
        code = self.schedule[n] if n < len(self.schedule) else "ok"
        vec = [float(x) for x in individual.vector]
        if code in TRANSIENT:
            e = TRANSIENT[code]("scripted transient failure at call %d" % n)
            self.calls.append((individual, vec, code, e))
            self.outs.append("Transient")
            raise e
        if code in FATAL:
            cls, kind = FATAL[code]
            e = (cls or self.lab.BaseExc)("scripted failure at call %d" % n)
            self.calls.append((individual, vec, code, e))
            self.outs.append("(Fatal %s)" % nl(kind))
            raise e
        costs = self.represent(self.F(vec))
        self.calls.append((individual, vec, "ok", None))
        self.outs.append("(Ok %s)" % enc_vec(costs))
        return costs

    def represent(self, costs):
        """the same values as a list of floats / numpy scalars / an ndarray / a tuple / ints where integral"""
        style = self.cfg.get("ret", "list")
        if style == "np":
            import numpy as np
            return [np.float64(c) for c in costs]
        if style == "arr":
            import numpy as np
            return np.array(costs, dtype=float)
        if style == "tuple":
            return tuple(costs)
        if style == "int":
            return [int(c) if (math.isfinite(c) and c == int(c) and (c != 0 or math.copysign(1.0, c) > 0) and abs(c) < 2 ** 50) else c for c in costs]
        return list(costs)

    def constraints(self, x, base):
        vec = [float(v) for v in x]
        g = self.G(vec) if self.G is not None else list(base)
        self.cons[vkey(vec)] = (vec, list(g))
        return list(g)

    def gen_vector_wrapper(self):
        session = self
        real = self.lab.real_gen_vector.__func__

        def gen_vector(cls, design_parameters):
            v = real(cls, design_parameters)
            if session.in_generate:             # a generator sampling its designs, not the retry of Job.evaluate
                return v
            session.tape.append([float(x) for x in v])
            session.tape_at.append(len(session.calls))
            return v
        return classmethod(gen_vector)

    @contextlib.contextmanager
    def patched(self):
        V = self.lab.VectorAndNumbers
        saved = V.__dict__["gen_vector"]
        V.gen_vector = self.gen_vector_wrapper()
        out = io.StringIO()
        try:
            with contextlib.redirect_stdout(out), contextlib.redirect_stderr(out):
                yield
        finally:
            V.gen_vector = saved

    # ---- observation -------------------------------------------------------------------------
    def snap(self, ind):
        try:
            vec = [float(x) for x in ind.vector]
        except (TypeError, ValueError):
            vec = [math.nan] * 9
        prec = ind.features.get("precision", 7)
        prec = prec if isinstance(prec, int) and 0 <= prec < 1000 else 999
        return (vec, list(ind.costs), list(ind.costs_signed), ind.state.name, bool(ind.features.get("feasible")), prec)

    def register(self, ind):
        self.ids[id(ind)] = len(self.objs)
        self.objs.append(ind)

    def id_of(self, ind):
        return self.ids.get(id(ind), 9999)

    @staticmethod
    def classify(exc):
        if exc is None:
            return "Done"
        if type(exc) is RuntimeError:
            return "Raised5"
        for code, (cls, kind) in FATAL.items():
            if cls is not None and type(exc) is cls:
                return ("Fatal", kind)
        if type(exc).__name__ == "BaseExc":
            return ("Fatal", 5)
        return ("Fatal", 98)

    def fail(self, group, what, **detail):
        if len(self.failures) < 20:
            self.failures.append((group, what, detail))

    # ---- operations ---------------------------------------------------------------------------
    def mk(self, vec, preset=None):
        """a design object made by the caller; preset: state, costs, signed, feasible, precision, id (colliding ids),
        sub (an Individual subclass), vrep (vector as list of floats / ints where integral / numpy scalars / ndarray)"""
        preset = preset or {}
        vrep = preset.get("vrep", "list")
        v = [float(x) for x in vec]
        if vrep == "int":
            v = [int(x) if (x == int(x) and not (x == 0 and math.copysign(1, x) < 0)) else x for x in v]
        elif vrep == "np":
            import numpy as np
            v = [np.float64(x) for x in v]
        elif vrep == "arr":
            import numpy as np
            v = np.array(v, dtype=float)
        cls = self.lab.SubIndividual if preset.get("sub") else self.lab.Individual
        ind = cls(v)
        if "state" in preset:
            ind.state = getattr(ind.State, preset["state"])
        if "costs" in preset:
            ind.costs = list(preset["costs"])
        if "signed" in preset:
            ind.costs_signed = list(preset["signed"])
        if "feasible" in preset:
            ind.features["feasible"] = preset["feasible"]
        if "precision" in preset:
            ind.features["precision"] = preset["precision"]
        if "id" in preset:
            ind.id = preset["id"]
        self.register(ind)
        self.ops.append("(OpMk %s)" % enc_snap(self.snap(ind)))
        self.results.append("RUnit")
        return len(self.objs) - 1

    def run_guarded(self, fn):
        exc = None
        with self.patched():
            try:
                ret = fn()
            except BaseException as e:          # noqa: the caller's view of what propagates
                ret, exc = None, e
        return ret, exc

    def evaluate(self, ids):
        if self.cfg.get("share_list"):
            batch = self.shared            # one list object for the whole history, refilled in place
            batch[:] = [self.objs[i] for i in ids]
        else:
            batch = [self.objs[i] for i in ids]
        before = {i: self.snap(self.objs[i]) for i in set(ids)}
        n0, f0, t0 = len(self.calls), len(self.problem.failed), len(self.tape)
        _, exc = self.run_guarded(lambda: self.alg.evaluate(batch))
        res = self.classify(exc)
        self.ops.append("(OpEval %s%%nat)" % ll([str(i) for i in ids]))
        self.results.append("(RRes %s)" % enc_result(res))
        self.oracle_jobs("evaluate", set(ids), before, n0, f0, t0, exc)
        return res

    def scalar(self, x, as_array=False):
        n0, f0, t0, k0 = len(self.calls), len(self.problem.failed), len(self.tape), len(self.problem.individuals)
        arg = list(x)
        if as_array:
            import numpy as np
            arg = np.array(arg, dtype=float)
        ret, exc = self.run_guarded(lambda: self.alg.evaluator.evaluate_scalar(arg))
        new = self.problem.individuals[k0:]
        for ind in new:
            if id(ind) not in self.ids:
                self.register(ind)
        self.ops.append("(OpScalar %s)" % enc_vec(x))
        if exc is None:
            if isinstance(ret, bool) or type(ret).__name__ == "bool_":
                self.results.append("(RScal (SMark %s))" % bl(bool(ret)))
            else:
                self.results.append("(RScal (SVal %s))" % enc_num(ret))
        elif isinstance(exc, IndexError):
            self.results.append("(RScal SNone)")
        else:
            self.results.append("(RScal (SRaise %s))" % enc_result(self.classify(exc)))
        # direct oracle: the queried point is recorded with its true cost, the optimiser gets the signed cost
        tag = "scalar bridge"
        if len(new) != 1:
            self.fail("C05", "%s: %d designs recorded for one queried point" % (tag, len(new)), x=list(x))
        else:
            ind = new[0]
            ids = {self.id_of(ind)}
            self.oracle_jobs("evaluate_scalar", ids, {self.id_of(ind): (list(map(float, x)), [], [], "EMPTY", False, 7)}, n0, f0, t0, exc)
            clean = all(c[2] == "ok" for c in self.calls[n0:])
            if exc is None and clean:
                want = self.F(list(map(float, x)))
                if not same_vec(self.snap(ind)[0], list(map(float, x))):
                    self.fail("C05", "%s: recorded vector differs from the queried point" % tag, x=list(x), recorded=self.snap(ind)[0])
                elif not (len(ind.costs) == len(want) and same_vec(ind.costs, want)):
                    self.fail("C05", "%s: recorded cost is not the true cost of the queried point" % tag, x=list(x),
                              recorded=list(ind.costs), true=want)
                elif self.signs and want and len(want) == len(self.signs):
                    sgn = -1.0 if self.signs[0] else 1.0
                    ok = is_num(ret) and not isinstance(ret, bool) and rounded_ok(want[0], sgn * float(ret))
                    if ok is False:
                        self.fail("C05", "%s: the optimiser received %r for true cost %r of a %s objective" % (
                            tag, ret, want[0], "maximised" if self.signs[0] else "minimised"), x=list(x))
        return ret, exc

    def sweep(self, gen, options=None):
        """options: algorithm options set on the SweepAlgorithm before run() (the sweep inherits the options of
        GeneticAlgorithm, e.g. max_population_size: whatever they are, a sweep evaluates ALL the generator's designs)"""
        k0 = len(self.problem.individuals)
        n0, f0, t0 = len(self.calls), len(self.problem.failed), len(self.tape)
        produced = []
        real_generate = gen.generate

        def generate():
            self.in_generate = True
            try:
                vs = real_generate()
            finally:
                self.in_generate = False
            produced.append([[float(x) for x in v] for v in vs])
            return vs
        gen.generate = generate
        alg = self.lab.SweepAlgorithm(self.problem, gen)
        for name, value in (options or {}).items():
            try:
                alg.options[name] = value
            except Exception:
                pass                         # an option this version does not declare
        _, exc = self.run_guarded(alg.run)
        if not produced and exc is not None and len(self.calls) == n0:
            return None                      # the generator itself raised: not our subject, nothing happened
        if len(produced) != 1:
            self.fail("C05", "sweep: generator.generate() called %d times" % len(produced))
        vectors = produced[0] if produced else []
        new = self.problem.individuals[k0:]
        for ind in new:
            if id(ind) not in self.ids:
                self.register(ind)
        res = self.classify(exc)
        self.ops.append("(OpSweep %s)" % ll(vectors, enc_vec))
        self.results.append("(RRes %s)" % enc_result(res))
        # direct oracle: exactly the generator's designs, in order
        if len(new) != len(vectors) or any(not same_vec(self.snap(i)[0], v) for i, v in zip(new, vectors)
                                           if not any(c[0] is i and c[2] in TRANSIENT for c in self.calls[n0:])):
            self.fail("C05", "sweep: recorded designs are not the generator's designs in order", generated=vectors,
                      recorded=[self.snap(i)[0] for i in new])
        firsts, seen = [], set()
        for c in self.calls[n0:]:
            if id(c[0]) not in seen:
                seen.add(id(c[0]))
                firsts.append(c[1])
        if exc is None and not (len(firsts) == len(vectors) and all(same_vec(a, b) for a, b in zip(firsts, vectors))):
            self.fail("C05", "sweep: the objective was not invoked for exactly the generator's designs in order (%d designs generated, "
                      "%d evaluated)" % (len(vectors), len(firsts)), algorithm_options=dict(options or {}), number_of_designs=len(vectors),
                      never_evaluated=[[k, v] for k, v in enumerate(vectors) if not any(same_vec(v, a) for a in firsts)][:5],
                      generated=vectors, evaluated=firsts)
        before = {self.id_of(i): (v, [], [], "EMPTY", False, 7) for i, v in zip(new, vectors)}
        self.oracle_jobs("sweep", set(before), before, n0, f0, t0, exc)
        return res

    # ---- direct oracles ------------------------------------------------------------------------
    def check_pair(self, ind, group):
        """stored costs belong to the stored vector; signed costs = sign * rounded cost + marker"""
        vec, costs, signed, state, feas, prec = self.snap(ind)
        want = self.F(vec)
        inp = {"vector": vec, "costs": costs, "costs_signed": signed, "criteria": self.cfg["crit"]}
        if not (len(costs) == len(want) and same_vec(costs, want)):
            self.fail(group, "stored costs are not what the objective returns for the stored vector", objective_value=want, **inp)
            return
        if group != "C05":
            return
        if len(signed) == 0:
            self.fail("C05", "evaluated design has no signed costs", **inp)
            return
        if len(costs) == len(self.signs):
            if len(signed) != len(costs) + 1:
                self.fail("C05", "signed costs have %d entries for %d costs (+ marker)" % (len(signed), len(costs)), **inp)
                return
            for j, (mx, c, s) in enumerate(zip(self.signs, costs, signed)):
                if not is_num(s):
                    self.fail("C05", "signed cost %d is not a number" % j, **inp)
                    return
                ok = rounded_ok(c, -float(s) if mx else float(s), prec)
                if ok is False:
                    self.fail("C05", "signed cost %d = %r is not %scost %r rounded to %d decimals" % (
                        j, s, "minus " if mx else "", c, prec), objective=j, precision=prec, **inp)
                    return
        if self.G is not None:
            g = self.G(vec)
            sat = all(v < 0 for v in g)
            if len(g) > 0 and bool(signed[-1]) != (not sat):
                self.fail("C05", "feasibility marker %r for constraint values %r" % (signed[-1], g), constraints=g, **inp)

    def oracle_jobs(self, entry, ids, before, n0, f0, t0, exc):
        new_calls = self.calls[n0:]
        by = {}
        for c in new_calls:
            by.setdefault(self.id_of(c[0]), []).append(c)
        inp = {"entry": entry, "batch": sorted(ids), "criteria": self.cfg["crit"],
               "schedule": [c[2] for c in new_calls], "states_before": {str(i): before[i][3] for i in before}}
        # ---- C05: exactly once
        for i, cs in by.items():
            if i not in ids:
                self.fail("C05", "objective invoked for a design that is not in the batch", design=i, **inp)
        for i in ids:
            st0 = before[i][3]
            cs = by.get(i, [])
            nok = sum(1 for c in cs if c[2] == "ok")
            ind = self.objs[i]
            if st0 == "EVALUATED":
                if cs:
                    self.fail("C05", "objective invoked %d time(s) for an already evaluated design" % len(cs), design=i,
                              vector=before[i][0], **inp)
                elif self.snap(ind) != before[i] and not any(isinstance(x, float) and math.isnan(x) for x in before[i][1] + before[i][2][:-1]):
                    self.fail("C05", "an already evaluated design was modified", design=i, **inp)
            if st0 == "EMPTY":
                if nok > 1 or (exc is None and nok != 1):
                    self.fail("C05", "objective succeeded %d time(s) for a not yet evaluated design" % nok, design=i,
                              vector=before[i][0], **inp)
                elif exc is None and not same_vec([c for c in cs if c[2] == "ok"][0][1], self.snap(ind)[0]):
                    self.fail("C05", "the successful objective call was not made for the stored vector", design=i, **inp)
            if exc is None and st0 in ("EMPTY", "EVALUATED") and ind.state.name != "EVALUATED":
                self.fail("C05", "design is %s after the batch was evaluated" % ind.state.name, design=i, **inp)
            if nok >= 1 and ind.state.name == "EVALUATED" and st0 != "EVALUATED":
                self.check_pair(ind, "C05")
                self.check_pair(ind, "C06")
                self.evaluated_by_run.append(ind)
        # ---- C06: retry protocol, job by job (serial: the calls of one job are contiguous)
        jobs, jobs_at = [], []
        for k, c in enumerate(new_calls):
            if jobs and jobs[-1][0][0] is c[0] and jobs[-1][-1][2] in TRANSIENT:
                jobs[-1].append(c)
                jobs_at[-1].append(n0 + k)
            else:
                jobs.append([c])
                jobs_at.append([n0 + k])
        trans = [c for c in new_calls if c[2] in TRANSIENT]
        new_failed = self.problem.failed[f0:]
        if len(new_failed) != len(trans) or any(not same_vec(self.snap(f)[0], c[1]) for f, c in zip(new_failed, trans)):
            self.fail("C06", "problem.failed did not grow by exactly the vectors of the failed attempts, in order",
                      failed_vectors=[self.snap(f)[0] for f in new_failed], failed_attempts=[c[1] for c in trans], **inp)
        elif any(f.state.name != "FAILED" for f in new_failed):
            self.fail("C06", "a failed copy is not marked FAILED", **inp)
        new_tape = self.tape[t0:]
        if len(new_tape) != len(trans):
            self.fail("C06", "%d replacement designs sampled for %d transient failures" % (len(new_tape), len(trans)), **inp)
        for v in new_tape:
            for x, p in zip(v, self.bounds):
                if "bounds" in p and "precision" not in p and not (p["bounds"][0] <= x <= p["bounds"][1]):
                    self.fail("C06", "replacement design outside the bounds", replacement=v, **inp)
        for jn, job in enumerate(jobs):
            last = jn == len(jobs) - 1
            if len(job) > 5:
                self.fail("C06", "%d attempts for one design" % len(job), design=self.id_of(job[0][0]), **inp)
            for pos, a, b in zip(jobs_at[jn], job, job[1:]):
                k = sum(1 for c in self.calls[:pos + 1] if c[2] in TRANSIENT) - 1
                if k < len(self.tape) and not same_vec(b[1], self.tape[k]):
                    self.fail("C06", "the retry was not made with the freshly sampled design", design=self.id_of(a[0]),
                              retried=b[1], sampled=self.tape[k], **inp)
            ntr = sum(1 for c in job if c[2] in TRANSIENT)
            code = job[-1][2]
            ind = job[-1][0]
            if code in TRANSIENT:
                # the job ended on a transient failure
                if len(job) == 5:
                    if not (last and type(exc) is RuntimeError):
                        self.fail("C06", "five consecutive failures did not raise RuntimeError (caller saw %r)" % (exc,),
                                  design=self.id_of(ind), **inp)
                    elif ind.state.name == "EVALUATED":
                        self.fail("C06", "design marked evaluated after five failures", design=self.id_of(ind), **inp)
                elif len(job) < 5:
                    self.fail("C06", "design given up after %d failed attempt(s)" % len(job), design=self.id_of(ind), caller_saw=repr(exc), **inp)
            elif code in FATAL:
                raised = job[-1][3]
                if not (last and exc is raised):
                    self.fail("C06", "a non-transient %s did not propagate to the caller at once (caller saw %r)" % (
                        type(raised).__name__, exc), design=self.id_of(ind), **inp)
                elif ind.state.name == "EVALUATED":
                    self.fail("C06", "design marked evaluated although its evaluation raised %s" % type(raised).__name__,
                              design=self.id_of(ind), **inp)
            else:
                if last and exc is not None and (type(exc) is RuntimeError or any(exc is c[3] for c in new_calls)):
                    self.fail("C06", "caller saw %r although the last attempt succeeded after %d failure(s)" % (exc, ntr),
                              design=self.id_of(ind), **inp)
        if type(exc) is RuntimeError and not (jobs and len(jobs[-1]) >= 5 and all(c[2] in TRANSIENT for c in jobs[-1])):
            self.fail("C06", "RuntimeError reached the caller without five consecutive failures of one design", **inp)

    def oracle_ranking(self, rng, limit=6):
        """marker ranks designs satisfying all constraints ahead of violating ones (C01's comparator)"""
        if self.G is None or len(self.evaluated_by_run) < 2:
            return
        cmp = self.lab.ops.ParetoDominance()
        sat, vio = [], []
        for ind in self.evaluated_by_run:
            g = self.G(self.snap(ind)[0])
            (sat if all(v < 0 for v in g) else vio).append(ind)
        for _ in range(limit):
            if not sat or not vio:
                return
            a, b = rng.choice(sat), rng.choice(vio)
            if len(a.costs_signed) != len(b.costs_signed) or len(a.costs_signed) < 1:
                continue
            try:
                v = cmp.compare(a.costs_signed, b.costs_signed)
            except Exception as e:
                v = repr(e)
            if v != 1:
                self.fail("C05", "a design satisfying all constraints is not ranked ahead of a violating one (comparator verdict %r)" % (v,),
                          feasible={"vector": self.snap(a)[0], "costs_signed": list(a.costs_signed)},
                          violating={"vector": self.snap(b)[0], "costs_signed": list(b.costs_signed)})

    # ---- encoding --------------------------------------------------------------------------------
    def encode(self):
        if getattr(self, "frozen", None) is None:
            self.frozen = self._encode()
        return self.frozen

    def freeze(self):
        """the Problem object is shared between sessions: fix the observation now"""
        self.encode()
        self.frozen_meta = self._meta()
        return self

    def _encode(self):
        case = "{| k_signs := %s; k_outs := %s; k_cons := %s; k_tape := %s; k_ops := %s |}" % (
            ll(self.signs, bl), ll(self.outs),
            ll(list(self.cons.values()), lambda p: pl(enc_vec(p[0]), enc_vec(p[1]))),
            ll(self.tape, enc_vec), ll(self.ops))
        nid = lambda i: nl(i)
        expected = pl(
            ll(self.results),
            ll([enc_snap(self.snap(o)) for o in self.objs]),
            ll([nid(self.id_of(o)) for o in self.problem.individuals]),
            ll([enc_snap(self.snap(o)) for o in self.problem.failed]),
            ll([pl(nid(self.id_of(o)), enc_snap(s)) for o, s in self.store]),
            ll([pl(nid(self.id_of(c[0])), enc_vec(c[1])) for c in self.calls]),
            "true")
        return case, expected

    def meta(self):
        return getattr(self, "frozen_meta", None) or self._meta()

    def _meta(self):
        return {"config": {k: self.cfg[k] for k in ("dim", "crit", "ncons", "mode", "extra", "pstyle") if k in self.cfg},
                "schedule": [c[2] for c in self.calls], "ops": self.ops[:12],
                "calls": [(self.id_of(c[0]), c[1]) for c in self.calls][:20],
                "final": [self.snap(o) for o in self.objs][:10]}


class ParSession(Session):
    """Interleaved evaluation: outcomes are scripted per (design, attempt), everything is recorded per design.
    processes = 2: joblib threads.  processes = 1 with `nest`: the objective of design d starts, on its first
    attempt, a complete Job.evaluate of another design on the same long-lived Job object before it answers
    (what a thread switch inside the objective does): re-entrancy of Job / Evaluator."""

    def __init__(self, lab, cfg, patterns, processes=2, nest=None):
        super().__init__(lab, dict(cfg, processes=processes))      # processes > 1: a Problem of its own
        self.nest = nest if nest is not None else {}      # shared with the caller, who fills it after creating the designs
        self.patterns = patterns           # design id -> list of codes by attempt
        self.dcalls = {}                   # design id -> [(vec, code, exc)]
        self.drolls = {}                   # design id -> [vec]
        self.dresult = {}                  # design id -> exception or None
        self.dstore = {}
        self.local = threading.local()
        self.active = 0

    def objective(self, individual):
        with self.lock:
            did = self.id_of(individual)
            att = len(self.dcalls.setdefault(did, []))
            pat = self.patterns.get(did, [])
            code = pat[att] if att < len(pat) else "ok"
            vec = [float(x) for x in individual.vector]
            exc = None
            if code in TRANSIENT:
                exc = TRANSIENT[code]("scripted transient failure of design %d attempt %d" % (did, att))
            elif code in FATAL:
                cls, kind = FATAL[code]
                exc = (cls or self.lab.BaseExc)("scripted failure of design %d attempt %d" % (did, att))
            self.dcalls[did].append((vec, code, exc))
            self.calls.append((individual, vec, code, exc))
            self.local.did = did
            self.local.session = self
            inner = self.nest.pop(did, None) if att == 0 else None
        if inner is not None:
            try:
                self.alg.evaluator.job.evaluate(self.objs[inner])       # recorded by the wrapper of run_parallel
            except BaseException:                                          # noqa: the nested caller catches everything
                pass
            self.local.did = did
        if exc is not None:
            raise exc
        return self.represent(self.F(vec))

    def constraints(self, x, base_value):
        with self.lock:
            return super().constraints(x, base_value)

    def gen_vector_wrapper(self):
        session = self
        real = self.lab.real_gen_vector.__func__

        def gen_vector(cls, design_parameters):
            v = real(cls, design_parameters)
            if getattr(session.local, "session", None) is not session:
                return v                       # a thread that is not working for this session
            with session.lock:
                session.drolls.setdefault(getattr(session.local, "did", -1), []).append([float(x) for x in v])
                session.tape.append([float(x) for x in v])
            return v
        return classmethod(gen_vector)

    def run_parallel(self, ids):
        batch = [self.objs[i] for i in ids]
        before = {i: self.snap(self.objs[i]) for i in ids}
        job = self.alg.evaluator.job
        real_evaluate = job.evaluate

        def evaluate(individual):
            with self.lock:
                self.active += 1
            try:
                real_evaluate(individual)
                with self.lock:
                    self.dresult[self.id_of(individual)] = None
            except BaseException as e:
                with self.lock:
                    self.dresult[self.id_of(individual)] = e
                raise
            finally:
                with self.lock:
                    self.active -= 1
        job.evaluate = evaluate
        exc = None
        try:
            with self.patched():
                try:
                    self.alg.evaluate(batch)
                except BaseException as e:      # noqa: the caller's view of what propagates
                    exc = e
                # worker threads may still be inside a job when the exception reaches the caller: let them finish
                t0, quiet = time.time(), 0
                while quiet < 4 and time.time() - t0 < 5:
                    time.sleep(0.005)
                    quiet = quiet + 1 if self.active == 0 else 0
        finally:
            del job.evaluate
        return before, exc


def design_patterns():
    """every way one job can go: ('ok', j) success after j transient failures, ('fatal', j), ('five',)"""
    return [("ok", j) for j in range(5)] + [("fatal", j) for j in range(5)] + [("five",)]


def pattern_codes(rng, pat):
    tr, fa = list(TRANSIENT), list(FATAL)
    if pat[0] == "five":
        return [rng.choice(tr) for _ in range(5)]
    codes = [rng.choice(tr) for _ in range(pat[1])]
    codes.append("ok" if pat[0] == "ok" else rng.choice(fa))
    return codes


def interleaved_case(lab, rng, ctx, out, hist, group, nested=False, faults=True):
    """one Algorithm.evaluate on distinct new designs (plus designs that must be skipped): with max_processes = 2,
    or serial with nested evaluations of further designs started from inside the objective"""
    n = rng.choice([2, 3, 4, 6])
    if faults:
        pats = [rng.choice(design_patterns()) if rng.random() < (0.25 if nested else 0.5) else ("ok", rng.choice([0, 0, 1, 2])) for _ in range(2 * n)]
    else:
        pats = [("ok", 0)] * (2 * n)
    cfg = rand_cfg(rng, pstyle=0, extra=0)
    patterns, nest = {}, {}
    s = ParSession(lab, cfg, patterns, processes=1 if nested else 2, nest=nest)
    ids = []
    pool = [rand_vec(rng, cfg["dim"]) for _ in range(2)]
    for p in pats[:n]:
        i = s.mk(rand_vec(rng, cfg["dim"], pool), {"precision": rng.choice([7, 7, 3, 10])} if rng.random() < 0.3 else None)
        patterns[i] = pattern_codes(rng, p)
        ids.append(i)
    inner = []
    if nested:
        for p, outer in zip(pats[n:], ids):
            if rng.random() < 0.7:
                i = s.mk(rand_vec(rng, cfg["dim"], pool))
                patterns[i] = pattern_codes(rng, p)
                nest[outer] = i
                inner.append(i)
    skipped = []
    for st in rng.sample(["EVALUATED", "IN_PROGRESS", "FAILED"], rng.choice([0, 1, 2])):
        i = s.mk(rand_vec(rng, cfg["dim"]), junk_preset(rng, st, len(cfg["crit"])))
        skipped.append(i)
    batch = ids + skipped
    rng.shuffle(batch)
    nest_plan = dict(nest)
    before, exc = s.run_parallel(batch)
    for i in inner:
        before[i] = (s.dcalls[i][0][0] if s.dcalls.get(i) else [], [], [], "EMPTY", False, 7)
    ids = ids + inner
    label = "nested" if nested else "parallel"
    hist[label + "_runs"] = hist.get(label + "_runs", 0) + 1
    inp = {"batch": batch, "patterns": {str(k): v for k, v in patterns.items()}, "processes": 1 if nested else 2,
           "nested_evaluations": {str(k): v for k, v in nest_plan.items()},
           "states_before": {str(i): before[i][3] for i in before}}

    def fail(what, **kw):
        if len(ctx.oracle_failures) < 40:
            ctx.oracle_failures.append({"what": label + ": " + what, "input": dict(inp, **kw),
                                        "match": {"kind": "job_" + label, "clause": what[:50]}})
    # ---- direct oracle
    raised = {d: e for d, e in s.dresult.items() if e is not None and d not in inner}
    if raised and exc is None:
        fail("a job raised %s but Algorithm.evaluate returned normally" % ", ".join(type(e).__name__ for e in raised.values()))
    if exc is not None and not any(type(exc) is type(e) for e in raised.values()):
        fail("the caller saw %r, which no job raised" % (exc,))
    for i in skipped:
        if s.dcalls.get(i):
            fail("objective invoked for a design that is %s" % before[i][3], design=i)
    trans = sorted(vkey(c[0]) for cs in s.dcalls.values() for c in cs if c[1] in TRANSIENT)
    failed = sorted(vkey(s.snap(f)[0]) for f in s.problem.failed)
    if trans != failed:
        fail("problem.failed is not the multiset of the vectors of the failed attempts",
             failed=[s.snap(f)[0] for f in s.problem.failed])
    if any(f.state.name != "FAILED" for f in s.problem.failed):
        fail("a failed copy is not marked FAILED")
    for d, cs in s.dcalls.items():
        if d not in ids:
            continue
        ind = s.objs[d]
        hist[label + "_designs"] = hist.get(label + "_designs", 0) + 1
        codes = [c[1] for c in cs]
        res = s.dresult.get(d, "unfinished")
        if len(cs) > 5:
            fail("%d attempts for one design" % len(cs), design=d)
        if any(c not in TRANSIENT for c in codes[:-1]):
            fail("the job went on after an attempt that did not fail transiently", design=d, outcomes=codes)
        rolls = s.drolls.get(d, [])
        if len(rolls) != sum(1 for c in codes if c in TRANSIENT):
            fail("%d replacement designs for %d transient failures" % (len(rolls), sum(1 for c in codes if c in TRANSIENT)), design=d)
        for k in range(1, len(cs)):
            if k - 1 < len(rolls) and not same_vec(cs[k][0], rolls[k - 1]):
                fail("the retry was not made with the freshly sampled design", design=d)
        for v in rolls:
            if any(not (p["bounds"][0] <= x <= p["bounds"][1]) for x, p in zip(v, s.bounds)):
                fail("replacement design outside the bounds", replacement=v)
        last = codes[-1]
        if last == "ok":
            if res is not None:
                fail("job raised %r although its last attempt succeeded" % (res,), design=d)
            elif ind.state.name != "EVALUATED":
                fail("design is %s after a successful attempt" % ind.state.name, design=d)
            else:
                s.check_pair(ind, group)
        elif last in FATAL:
            if res is not cs[-1][2]:
                fail("a non-transient %s did not propagate out of the job at once (job result %r)" % (type(cs[-1][2]).__name__, res), design=d)
            elif ind.state.name == "EVALUATED":
                fail("design marked evaluated although its evaluation raised", design=d)
        else:
            if len(cs) == 5 and type(res) is not RuntimeError:
                fail("five consecutive failures did not raise RuntimeError (job result %r)" % (res,), design=d)
            elif len(cs) < 5:
                fail("design given up after %d failed attempt(s)" % len(cs), design=d, job_result=repr(res))
    for g, what, detail in s.failures:
        if g == group:
            fail(what, **detail)
    # ---- one model case per design that was started
    table = ll(list(s.cons.values()), lambda p: pl(enc_vec(p[0]), enc_vec(p[1])))
    store_by = {}
    for o, snap in s.store:
        store_by.setdefault(s.id_of(o), []).append(snap)
    for d in ids:
        cs = s.dcalls.get(d)
        if not cs or d not in s.dresult:
            hist[label + "_not_started"] = hist.get(label + "_not_started", 0) + 1
            continue
        outs = []
        for vec, code, e in cs:
            outs.append("Transient" if code in TRANSIENT else "(Fatal %s)" % nl(FATAL[code][1]) if code in FATAL
                        else "(Ok %s)" % enc_vec(s.represent(s.F(vec))))
        case = "par_design_case %s %s %s %s %s %s" % (ll(s.signs, bl), enc_vec(before[d][0]), nl(before[d][5]), ll(outs), table,
                                                     ll(s.drolls.get(d, []), enc_vec))
        res = Session.classify(s.dresult[d])
        expected = pl(ll(["RUnit", "(RRes %s)" % enc_result(res)]),
                      ll([enc_snap(s.snap(s.objs[d]))]), "[]",
                      ll([enc_snap((c[0], [], [], "FAILED", False, 7)) for c in cs if c[1] in TRANSIENT]),
                      ll([pl(nl(0), enc_snap(x)) for x in store_by.get(d, [])]),
                      ll([pl(nl(0), enc_vec(c[0])) for c in cs]), "true")
        out.append((case, expected, {label: True, "design": d, "outcomes": [c[1] for c in cs],
                                     "vectors": [c[0] for c in cs], "result": str(res), "final": s.snap(s.objs[d])}))
        ctx.count((label, tuple(c[1] for c in cs), str(res), d in inner), nontrivial=nested or len(cs) > 1)
    if not nested:
        lab.discard(s.problem)


def rand_cfg(rng, **force):
    m = rng.choice([1, 1, 2, 2, 3])
    dim = rng.choice([1, 2, 2, 3])
    cfg = {"dim": dim, "crit": [rng.choice(["minimize", "maximize", "maximize", None]) for _ in range(m)],
           "ncons": rng.choice([0, 0, 1, 2]), "mode": rng.choice(MODES),
           "coef": [[rng.choice([0.123456789, -1.0 / 3.0, 2.5, 0.0, 1e-3])] + [rng.choice([1.0, -0.7, 1.0 / 7.0, 3.3]) for _ in range(3)]
                    for _ in range(5)],
           "thr": [rng.choice(VGRID) for _ in range(2)], "extra": rng.choice([0] * 30 + [1, -1]),
           "pstyle": rng.choice([0, 0, 0, 1, 2]), "schedule": [],
           "ret": rng.choice(["list", "list", "np", "arr", "tuple", "int"]), "share_list": rng.random() < 0.5}
    cfg.update(force)
    return cfg


def rand_vec(rng, dim, pool=None):
    if pool and rng.random() < 0.4:
        return list(rng.choice(pool))
    return [rng.choice(VGRID) for _ in range(dim)]


def junk_preset(rng, state, m):
    """a design whose fields were left by someone else: the model must treat them as data"""
    costs = [rng.choice([1.0, 2.5, -3.0, 0.1234567891]) for _ in range(m)]
    p = {"state": state, "costs": costs if (state == "EVALUATED" and rng.random() < 0.8) or rng.random() < 0.4 else []}
    if p["costs"] or rng.random() < 0.3:
        p["signed"] = [c * rng.choice([1, -1]) for c in p["costs"]] + [rng.choice([True, False])]
        p["feasible"] = rng.choice([True, False, 0.0])
    return p


def rand_preset(rng, m):
    """every field the model treats as data varies: state (EMPTY with left-over costs too), precision, colliding ids,
    subclass, representation of the vector"""
    q = rng.random()
    pre = {}
    if q < 0.15:
        pre = junk_preset(rng, "EVALUATED", m)
    elif q < 0.22:
        pre = junk_preset(rng, "IN_PROGRESS", m)
    elif q < 0.27:
        pre = junk_preset(rng, "FAILED", m)
    elif q < 0.35:
        pre = junk_preset(rng, "EMPTY", m)
    if rng.random() < 0.25:
        pre["precision"] = rng.choice([0, 1, 3, 6, 10, 12, 15])
    if rng.random() < 0.2:
        pre["id"] = rng.choice([0, 3, 3, 7])
    if rng.random() < 0.15:
        pre["sub"] = True
    if rng.random() < 0.3:
        pre["vrep"] = rng.choice(["int", "np", "arr"])
    return pre or None


def make_generator(lab, rng, problem, dim):
    """One of artap's generators, configured for the problem's parameters."""
    ops = lab.ops
    params = problem.parameters
    kinds = ["custom", "custom", "uniform", "random", "fullfact", "fullfact_levels", "pb", "lhs", "halton", "gsd"]
    if dim >= 3:
        kinds.append("bb")
    if any("bounds" not in p for p in params):
        kinds = ["custom", "random", "gsd", "fullfact_levels"]
    kind = rng.choice(kinds)
    if kind == "custom":
        g = ops.CustomGenerator(params)
        n = rng.choice([0, 1, 2, 3, 5])
        pool = [rand_vec(rng, dim) for _ in range(3)]
        g.init([rand_vec(rng, dim, pool) for _ in range(n)])
    elif kind == "uniform":
        g = ops.UniformGenerator(params)
        g.init(rng.choice([2, 3]))
    elif kind == "random":
        g = ops.RandomGenerator(params)
        g.init(rng.choice([1, 3, 4]))
    elif kind == "fullfact":
        g = ops.FullFactorGenerator(params)
        g.init(rng.random() < 0.5)
    elif kind == "fullfact_levels":
        g = ops.FullFactorLevelsGenerator(params)
        g.init([[rng.choice(VGRID) for _ in range(rng.choice([1, 2, 3]))] for _ in range(dim)])
    elif kind == "pb":
        g = ops.PlackettBurmanGenerator(params)
    elif kind == "bb":
        g = ops.BoxBehnkenGenerator(params)
    elif kind == "lhs":
        g = ops.LHSGenerator(params)
        g.init(rng.choice([2, 4, 5]))
    elif kind == "halton":
        g = ops.HaltonGenerator(params)
        g.init(rng.choice([2, 4, 5]))
    else:
        g = ops.GSDGenerator(params)
        g.init([[rng.choice(VGRID) for _ in range(rng.choice([2, 3]))] for _ in range(dim)], rng.choice([1, 2]))
    return kind, g


def random_history(lab, rng, fault_rate=0.0, fatal_rate=0.0, force=None):
    """A history mixing new / evaluated / in-progress designs, aliasing, repeated evaluate calls,
    scalar queries and sweeps."""
    cfg = rand_cfg(rng, **(force or {}))
    n_sched = 60
    sched = []
    for _ in range(n_sched):
        r = rng.random()
        sched.append(rng.choice(list(TRANSIENT)) if r < fault_rate else
                     rng.choice(list(FATAL)) if r < fault_rate + fatal_rate else "ok")
    cfg["schedule"] = sched
    s = Session(lab, cfg)
    dim, m = cfg["dim"], len(cfg["crit"])
    pool = [rand_vec(rng, dim) for _ in range(3)]
    kinds = {"sweep": None}
    n_ops = rng.choice([2, 3, 4, 6, 8])
    last_batch = None
    for _ in range(n_ops):
        r = rng.random()
        if len(s.calls) > 45:
            break
        if r < 0.25 or not s.objs:
            for _ in range(rng.choice([1, 2, 3, 5])):
                s.mk(rand_vec(rng, dim, pool), rand_preset(rng, m))
        elif r < 0.6:
            k = rng.choice([1, 2, 3, 4, 6])
            ids = [rng.randrange(len(s.objs)) for _ in range(k)]
            if rng.random() < 0.5:
                ids = sorted(set(ids))
            last_batch = ids
            s.evaluate(ids)
        elif r < 0.7 and last_batch is not None:
            s.evaluate(last_batch)                         # repeated call on the same batch
        elif r < 0.85:
            for _ in range(rng.choice([1, 2, 4])):
                s.scalar(rand_vec(rng, dim, pool), as_array=rng.random() < 0.5)
        else:
            try:
                kind, g = make_generator(lab, rng, s.problem, dim)
            except Exception as e:                      # a generator that cannot be configured here is not our subject
                kind, g = "unavailable:%s" % type(e).__name__, None
            if g is not None and s.sweep(g) is None:
                kind = "unavailable:" + kind
            kinds["sweep"] = kind
    s.oracle_ranking(rng)
    return s.freeze(), kinds


def collect(ctx, s, group, cases, expected, meta, hist):
    case, exp = s.encode()
    cases.append(case)
    expected.append(exp)
    meta.append(s.meta())
    for g, what, detail in s.failures:
        if g == group and len(ctx.oracle_failures) < 40:
            ctx.oracle_failures.append({"what": what, "input": detail,
                                        "match": {"kind": "job", "clause": what.split(":")[0][:60]}})
    hist["histories"] += 1
    hist["objective_calls"] += len(s.calls)
    hist["transient"] += sum(1 for c in s.calls if c[2] in TRANSIENT)
    hist["fatal"] += sum(1 for c in s.calls if c[2] in FATAL)
    hist["designs"] += len(s.objs)
    hist["ops"] += len(s.ops)
    hist["mode"][s.cfg["mode"]] = hist["mode"].get(s.cfg["mode"], 0) + 1
    crit = ",".join(str(c)[:3] for c in s.cfg["crit"])
    hist["criteria"][crit] = hist["criteria"].get(crit, 0) + 1
    hist["constraints"][str(s.cfg["ncons"])] = hist["constraints"].get(str(s.cfg["ncons"]), 0) + 1
    for r in s.results:
        k = ("raised5" if "Raised5" in r else "raised_other" if "RaisedFatal" in r else "evaluate_done" if "RRes" in r
             else "scalar_value" if "RScal" in r else "create")
        hist["results"][k] = hist["results"].get(k, 0) + 1


def new_hist():
    return {"histories": 0, "objective_calls": 0, "transient": 0, "fatal": 0, "designs": 0, "ops": 0, "mode": {}, "criteria": {},
            "constraints": {}, "results": {}, "sweep_generators": {}}


def integer_cost_sessions(lab, make=None):
    """The objective returns Python ints: np.round takes numpy's INTEGER path (identity for decimals >= 0, result numpy.int64) and
    sign * value is the exact integer product (no negative zero) - not rint(y * 10^p) / 10^p, which loses the last digits as soon
    as |y| * 10^p >= 2^53 (found by a seed sweep: cost 250000000001000, precision 7).  Costs up to 6.3e14 with stored precision
    0 / 3 / 7 / 10 / 12 / 15, integer 0 under minimise / maximise / no criterion, negative integers."""
    make = make or (lambda cfg: Session(lab, cfg))
    base = dict(dim=3, ncons=0, mode="int", coef=[[0.0, 1.0, -0.7, 1.0 / 7.0]] * 5, thr=[1.0, 0.5], extra=0, pstyle=0, schedule=[], ret="int")
    out = []
    for crit in (["minimize", "maximize"], ["maximize", None, "minimize"], ["maximize"]):
        s = make(dict(base, crit=crit))
        for v, prec in (([3e7, 0.0, -1.5e7], None), ([2.7e7, 1.0, 2.0], 10), ([0.0, 0.0, 0.0], None), ([1e6, -2e6, 3e6], 15), ([-3e7, 2.9e7, 12345678.0], 0),
                        ([1.75, 0.0, 2.7e7], 3), ([0.0, 0.0, 0.0], 12), ([94906267.0, 0.0, 0.0], None), ([1.0, 2.0, 3.0], None)):
            s.mk(v, {"precision": prec} if prec is not None else None)
        s.evaluate(list(range(9)))
        s.scalar([3e7, 1.0, 0.0])
        s.scalar([0.0, 0.0, 0.0])
        out.append(s.freeze())
    return out


def corpus(lab):
    """Boundary cases read off the code."""
    out = integer_cost_sessions(lab)
    base = dict(dim=2, crit=["minimize", "maximize"], ncons=1, mode="plain", coef=[[0.123456789, 1.0, -0.7, 1.0 / 7.0]] * 5,
                thr=[1.0, 0.5], extra=0, pstyle=0, schedule=[])
    # new / evaluated / new, evaluated twice; aliasing; equal vectors in two designs
    s = Session(lab, dict(base))
    a = s.mk([0.5, 1.0])
    b = s.mk([0.5, 1.0], {"state": "EVALUATED", "costs": [9.0, 9.0], "signed": [9.0, -9.0, True], "feasible": False})
    c = s.mk([0.5, 1.0])
    d = s.mk([2.0, 0.1], {"state": "IN_PROGRESS"})
    f = s.mk([2.0, 0.1], {"state": "FAILED"})
    s.evaluate([a, b, c, d, f, a, c])
    s.evaluate([a, b, c, d, f, a, c])
    s.evaluate([c, c])
    out.append(s.freeze())
    # constraint boundary: g = 0.0, -0.0, tiny negative; NaN constraint
    s = Session(lab, dict(base, ncons=2, thr=[1.0, -0.0]))
    for v in ([1.0, 0.0], [1.0 - 2 ** -53, 1.0], [0.5, -0.0], [0.5, 0.0], [0.5, -5e-324], [3.0, 3.0]):
        s.mk(v)
    s.evaluate(list(range(6)))
    s.oracle_ranking(lab.ctx.rng, limit=12)
    out.append(s.freeze())
    # rounding boundaries, overflow of the scaling, signed zeros, all sign assignments
    for crit in (["minimize"], ["maximize"], [None, "maximize", "minimize"], ["maximize", "maximize"]):
        for mode in ("half", "huge", "special", "tiny", "int"):
            s = Session(lab, dict(base, crit=crit, mode=mode, ncons=0))
            for v in ([0.0, 0.0], [1.0, 2.0], [-0.5, 0.30000000000000004], [3.0, -2.0], [0.1, 0.7]):
                s.mk(v)
            s.evaluate([0, 1, 2, 3, 4])
            s.scalar([0.5, 0.5])
            s.scalar([-1.0, 2.5], as_array=True)
            out.append(s.freeze())
    # more / fewer costs than declared criteria (map truncates)
    for extra in (1, -1):
        s = Session(lab, dict(base, extra=extra))
        s.mk([1.0, 1.0])
        s.evaluate([0])
        s.scalar([0.0, 2.0])
        out.append(s.freeze())
    # vectors with equal hashes (hash(-1.0) == hash(-2.0)) and vectors that Individual.__eq__ calls equal (1e-11 apart):
    # distinct designs, each evaluated once with its own costs; the same batch list object refilled in place
    s = Session(lab, dict(base, dim=1, crit=["maximize"], ncons=0, share_list=True, ret="np"))
    for v in ([-1.0], [-2.0], [0.5], [0.5 + 1e-11], [0.5], [1.0], [1.0 - 1e-11]):
        s.mk(v)
    s.evaluate([0, 1, 2])
    s.evaluate([3, 4, 5, 6, 0])
    s.evaluate([6, 5, 4, 3, 2, 1, 0])
    out.append(s.freeze())
    # stored precision other than 7, left-over costs on an EMPTY design, colliding ids, subclass, array vector
    s = Session(lab, dict(base, ret="arr"))
    s.mk([0.1, 0.7], {"precision": 3, "id": 5})
    s.mk([0.1, 0.7], {"precision": 0, "id": 5, "sub": True})
    s.mk([1.0, 2.0], {"precision": 12, "vrep": "arr", "state": "EMPTY", "costs": [4.0, 4.0], "signed": [4.0, -4.0, False], "feasible": True})
    s.mk([1.0, 2.0], {"state": "EVALUATED", "costs": [], "vrep": "int"})
    s.mk([3.0, -2.0], {"precision": 15, "vrep": "np"})
    s.evaluate([0, 1, 2, 3, 4])
    s.evaluate([4, 3, 2, 1, 0])
    out.append(s.freeze())
    # no objective at all: costs_signed[0] is the marker
    s = Session(lab, dict(base, crit=[], ncons=1))
    s.scalar([0.0, 0.0])
    s.scalar([3.0, 0.0])
    out.append(s.freeze())
    # sweeps: duplicates, empty list, transient failure in the middle
    for sched in ([], ["ok", "T", "ok", "R", "N"]):
        s = Session(lab, dict(base, schedule=sched))
        g = lab.ops.CustomGenerator(s.problem.parameters)
        g.init([[1.0, 1.0], [0.0, 0.5], [1.0, 1.0], [1.0, 1.0], [2.0, -1.0]])
        s.sweep(g)
        g = lab.ops.CustomGenerator(s.problem.parameters)
        g.init([])
        s.sweep(g)
        out.append(s.freeze())
    return out


def boundary_sweeps(lab, rng, thorough):
    """Red-team round 4 (rule 7): sweep sizes straddling the multiples of the inherited option max_population_size (set small:
    3, 5, 1, 2; left at its default 100: 99..102 and 199..202 designs, 299..302 in the thorough tier) and of other plausible
    block sizes (powers of two), clean and with transient failures; designs with repeats.  The model's sweep does not know
    the option: every design of the generator is evaluated, in order."""
    out = []
    base = dict(dim=2, crit=["minimize", "maximize"], ncons=0, mode="plain", coef=[[0.123456789, 1.0, -0.7, 1.0 / 7.0]] * 5,
                thr=[1.0, 0.5], extra=0, pstyle=0, schedule=[], private=True)
    plans = []
    for mps in (1, 2, 3, 5):
        for k in (1, 2, 3):
            for d in (-1, 0, 1, 2):
                n = k * mps + d
                if n >= 1:
                    plans.append((mps, n))
    for n in (99, 100, 101, 102, 199, 200, 201, 202) + ((299, 300, 301, 302, 63, 64, 65, 127, 128, 129) if thorough else (33, 65)):
        plans.append((None, n))
    for n in (7, 8, 9, 16, 17):
        plans.append((8, n))
    seen = set()
    for mps, n in plans:
        if (mps, n) in seen:
            continue
        seen.add((mps, n))
        faulty = mps is not None and rng.random() < 0.25
        sched = [rng.choice(["ok", "ok", "ok", "T", "R"]) for _ in range(n)] if faulty else []
        crit = rng.choice([["minimize"], ["minimize", "maximize"], ["maximize"]])
        s = Session(lab, dict(base, crit=crit, schedule=sched, private=False))
        pool = [rand_vec(rng, 2) for _ in range(3)]
        vectors = [rand_vec(rng, 2, pool) for _ in range(n)]
        g = lab.ops.CustomGenerator(s.problem.parameters)
        g.init(vectors)
        s.sweep(g, options=None if mps is None else {"max_population_size": mps})
        s.boundary_plan = {"max_population_size": mps if mps is not None else "default", "designs": n, "transient_failures": faulty}
        out.append(s.freeze())
    return out


def run(ctx):
    lab = Lab(ctx)
    rng = ctx.rng
    cases, expected, meta = [], [], []
    hist = new_hist()
    for s in corpus(lab):
        collect(ctx, s, "C05", cases, expected, meta, hist)
        ctx.count(("corpus", len(cases)))
    hist["sweep_sizes_by_max_population_size"] = {}
    for s in boundary_sweeps(lab, rng, ctx.thorough):
        collect(ctx, s, "C05", cases, expected, meta, hist)
        bp = s.boundary_plan
        hist["sweep_sizes_by_max_population_size"].setdefault(str(bp["max_population_size"]), []).append(bp["designs"])
        ctx.count(("sweep_boundary", str(bp["max_population_size"]), bp["designs"], tuple(c[2] for c in s.calls)), nontrivial=bp["designs"] > 1)
    n = ctx.pick(1500, 20000)
    for k in range(n):
        fr = 0.0 if k % 4 else 0.12                       # C05 is mostly about clean runs; C06 owns the fault patterns
        s, kinds = random_history(lab, rng, fault_rate=fr, fatal_rate=0.0 if k % 8 else 0.03)
        collect(ctx, s, "C05", cases, expected, meta, hist)
        if kinds["sweep"]:
            hist["sweep_generators"][kinds["sweep"]] = hist["sweep_generators"].get(kinds["sweep"], 0) + 1
        ctx.count((tuple(s.cfg["crit"]), s.cfg["mode"], s.cfg["ncons"], tuple(o.split()[0] for o in s.ops), tuple(c[2] for c in s.calls),
                   tuple(s.id_of(c[0]) for c in s.calls)), nontrivial=len(s.calls) > 1)
        if len(s.calls) > 2 and len(s.ops) <= 8:
            ctx.sample(s.meta())
    # the long-lived Job / Evaluator re-entered from inside the objective (a nested evaluation of another design)
    inter = []
    for k in range(ctx.pick(80, 1500)):
        interleaved_case(lab, rng, ctx, inter, hist, "C05", nested=True, faults=k % 3 == 0)
    for c, e, m in inter:
        cases.append(c)
        expected.append(e)
        meta.append(m)
    if ctx.thorough:
        real_optimisers(ctx, lab, hist)
    ctx.coq_compare("c05", HEADER, "job_case", "job_obs", "job_run", "job_obs_eqb", cases, expected, meta, shard=ctx.pick(80, 400))
    ctx.rule = ("histories of 2..8 operations on one scripted Problem with long-lived Algorithm / Evaluator / Job objects (create designs incl. "
                "pre-set EVALUATED / IN_PROGRESS / FAILED / EMPTY-with-left-over-costs ones, stored precision 0..15, colliding ids, subclass, "
                "vector as floats / ints / numpy scalars / ndarray, objective returning list / numpy scalars / ndarray / tuple / ints, the "
                "same batch list object refilled in place, equal / hash-colliding / 1e-11-apart vectors; plus nested evaluations started "
                "from inside the objective, compared design by design; "
                "Algorithm.evaluate on batches with repeats and aliasing, repeated evaluate of the same batch, Evaluator.evaluate_scalar, "
                "SweepAlgorithm over artap's generators, and sweeps of a CustomGenerator whose sizes straddle the multiples of the inherited "
                "option max_population_size: set to 1, 2, 3, 5, 8 or left at 100 with 99..102 and 199..202 designs), 1..3 objectives over minimise/maximise/undeclared, 0..2 constraints, cost modes %r, "
                "vectors from a 17-value grid; a history is non-trivial when the objective was invoked more than once; distinct = distinct "
                "(criteria, mode, constraints, operation kinds, outcome sequence, design sequence of the call log)") % (sorted(set(MODES)),)
    ctx.extra.update({"distribution": hist})


def real_optimisers(ctx, lab, hist):
    """One real ScipyOpt (Nelder-Mead) and one NLopt run on a maximised objective: direct oracle only."""
    done = {}
    for name in ("scipy", "nlopt"):
        try:
            if name == "scipy":
                from artap.algorithm_scipy import ScipyOpt as Alg
            else:
                from artap.algorithm_nlopt import NLopt as Alg
        except Exception as e:
            done[name] = "unavailable: %r" % (e,)
            continue
        cfg = rand_cfg(ctx.rng, dim=2, crit=["maximize"], ncons=0, mode="plain", extra=0, pstyle=0, schedule=[])
        s = Session(lab, cfg)
        alg = Alg(s.problem)
        alg.options["n_iterations"] = 25
        seen = []
        real = alg.evaluator.evaluate_scalar

        def spy(x):
            r = real(x)
            seen.append(([float(v) for v in x], r))
            return r
        alg.evaluator.evaluate_scalar = spy
        _, exc = s.run_guarded(alg.run)
        inds = s.problem.individuals
        if exc is not None or len(seen) < 3:
            ctx.oracle_failures.append({"what": "real %s run did not evaluate (%r, %d queries)" % (name, exc, len(seen)),
                                        "input": {"optimiser": name}, "match": {"kind": "optimiser", "name": name}})
            continue
        bad = None
        if len(inds) != len(seen) or len(s.calls) != len(seen):
            bad = "%d queries, %d recorded designs, %d objective calls" % (len(seen), len(inds), len(s.calls))
        else:
            for (x, r), ind in zip(seen, inds):
                want = s.F(x)
                if not same_vec(ind.vector, x) or not same_vec(ind.costs, want):
                    bad = "query %r recorded as vector %r with cost %r (true cost %r)" % (x, list(ind.vector), list(ind.costs), want)
                    break
                if rounded_ok(want[0], -float(r)) is False:
                    bad = "optimiser received %r for true cost %r of a maximised objective" % (r, want[0])
                    break
        if bad:
            ctx.oracle_failures.append({"what": "scalar bridge (%s): %s" % (name, bad), "input": {"optimiser": name, "config": cfg["coef"][0]},
                                        "match": {"kind": "optimiser", "name": name}})
        done[name] = "%d queries checked" % len(seen)
        ctx.count(("optimiser", name, len(seen)))
    hist["real_optimisers"] = done


LEVEL_TEXT = ("Machine-checked Coq theorems over a state-machine model of Job.evaluate / Evaluator.evaluate_serial / evaluate_scalar / "
              "SweepAlgorithm.run / Individual.calc_signed_costs (shared with C06), for every batch (any mix of new, evaluated, in-progress "
              "designs, repeats, aliasing), every number of repeated evaluate calls, every objective / constraint function / fault schedule "
              "and every minimise/maximise assignment: exactly one successful objective call per not-yet-evaluated design and none for an "
              "evaluated one, stored costs = objective value of the stored vector, signed costs = sign * round(cost, stored precision) followed by the marker, "
              "marker precedence composed with C01, sweep order, scalar bridge. The model is tied to the code on every run by evaluating it "
              "in Coq on generated histories and comparing call log, every design's (vector, costs, costs_signed, state, feasible, stored precision), problem.individuals, "
              "problem.failed and the sync log bit for bit.")
LEVEL_NOTE = ("Trusted: Coq kernel + vm_compute; the hand-written model and the Python harness; the translator (tools/py2coq.py, tools/py2coq_eff.py) for the second tie; objective, constraints and gen_vector are "
              "oracles; np.round is modelled bit-exactly in the binary64 driver while the theorems treat roundp abstractly (rational instance "
              "proved within half a unit of the last kept decimal). SciPy/NLopt are not modelled (thorough tier: direct oracle on one real run each). Serial evaluation only "
              "(parallel = C07). Correspondence is sampled, the theorems are unbounded.")
