"""C03 - crowding distance, environmental selection (nondominated_truncate) and binary tournament:
correspondence with Model/Selection.v (binary64 instance, bit for bit) and the direct oracle."""
import math
from fractions import Fraction

from harness.core import fl, zl, nl, ll, pl, optl, FLOAT_AXIOMS

PROP = "C03"
THEOREMS = {"Artap.Props.C03": [
    "C03_crowding_small", "C03_crowding_permutes", "C03_crowding_extremes", "C03_crowding_interior",
    "C03_crowding_interior_formula", "C03_crowding_bounds", "C03_crowding_bounds_Q",
    "C03_dedupe_exact", "C03_truncate_spec", "C03_truncate_total", "C03_truncate_all_distinct",
    "C03_truncate_discarded_design", "C03_truncate_no_dominated_survivor",
    "C03_tournament_spec", "C03_tournament_total", "C03_float_order"]}
AXIOMS_OK = FLOAT_AXIOMS
# second tie to the code (tools/py2coq.py + coq/theories/GenProofs): the de-duplication of nondominated_truncate
# rests on Individual.__hash__ / __eq__, whose source is translated on every run and proved equal to Model/IndividualEq.v
from harness.core import translated_specs
# and (guard mode) the test `max_distance > 0.0` of crowding_distance is translated and proved equal to the model's
# and (heap front-end tools/py2coq_heap.py, phase 5) crowding_distance is translated WHOLE (object store for
# features['crowding_distance'], list.sort permuting references) and proved equal to Selection.crowding
TRANSLATED = translated_specs("IndividualEqGen", "CrowdingGuardGen", "SelectionGen", "CrowdingGen")
TRUSTED = [
    "Coq 8.16.1 kernel; vm_compute for model evaluation (no native_compute)",
    "hand-written model Model/Selection.v tied to operators.py by this correspondence run (crowding values per id bit for bit, the sorted set of surviving ids, the winner id)",
    "FloatAxioms.ltb_spec / eqb_spec and the primitive float operations (standard library) for the float order instance C03_float_order",
    "list(set(population)) iteration order, random.sample and random.choice results are oracle inputs of the model; the theorems quantify over all of them",
    "Python's list.sort / sorted are stable sorts that only ask `<` of the keys; any stable sort gives the same result for a strict weak order (modelled by insertion sort)",
    "`-p.cd < -q.cd` is modelled as `q.cd < p.cd` (exact for non-NaN floats); math.inf is modelled as the constructor Inf (inf + finite = inf)",
    "C03_crowding_bounds rests on the named arithmetic premises (term_bounds, add_bounds, bound_start); they are proved for exact rationals "
    "(C03_crowding_bounds_Q) and assumed, not proved, for binary64 (monotone rounding); the direct oracle checks the bounds on every generated front",
    "C03_truncate_spec's design clause has the premise that set()'s element equality is symmetric on the population; it holds for equal-length vectors when |a-b| = |b-a| (binary64: assumed)",
    "design equality in the run instance: same hash(tuple(vector)) of the individual's CURRENT vector (computed by the harness at the moment of the call; "
    "that Individual.__hash__ is this function of the vector is C20's subject) and (same object or Individual.__eq__), i.e. what set() applies; an "
    "implementation hash that does not follow the vector (cached, keyed on the object) shows up as a different set of survivors",
    "compared per case: crowding distance of every member (by id, bit for bit), the set of surviving ids, the winner id; the order in which crowding_distance "
    "leaves the list and the order of the returned survivors are not part of the property and are not compared",
]
ASSUMPTIONS = [
    "cost values are finite non-NaN binary64 floats of ANY magnitude (subnormal gaps, ranges below sys.float_info.epsilon, 1e300 are generated) whose "
    "differences do not overflow (populations in which max-min of an objective overflows are generated, skipped and counted); all members of a front "
    "have the same number of objectives",
    "populations are ranked: features['front_number'] and ['crowding_distance'] are set (the harness runs the real fast_nondominated_sorting first)",
    "individual ids are distinct; a population list does not contain the same object twice",
]
LEVEL_TEXT = ("Machine-checked Coq theorems over an executable model of crowding_distance, nondominated_truncate/nondominated_cmp and "
              "TournamentSelector.select, for all front/population sizes, objective counts and values of any strictly-weakly-ordered cost type: "
              "infinite distance for fronts of <= 2 and for a holder of each objective's minimum and maximum; on tie-free fronts the exact operands "
              "of the interior formula (true for any add/sub/div, hence for binary64 bit for bit); 0 <= finite distance <= m under named arithmetic "
              "premises (proved for Q); truncation returns min(k, #distinct) individuals, each design once, rank-elitist, crowding-ordered in the cut "
              "front, for every set-iteration order, and never keeps an individual dominated by a discarded one when front numbers satisfy the rank "
              "equation; the tournament returns one of the two sampled members, never the worse-ranked nor (equal rank) the dominated one, for every "
              "sample and coin. The binary64 instance of the model is run in Coq on every generated case and compared with the real code exactly: populations "
              "with objective values on scales across the whole binary64 range (ranges on either side of 0, 5e-324, 2.2e-308, epsilon, 1e-12 ... 1e300; "
              "costs_signed set directly and produced by calc_signed_costs with raised precision), and multi-generation histories on long-lived "
              "individuals whose vectors, costs and ranks change between the calls (in place, by assignment, sync, clamping onto the bounds).")
LEVEL_NOTE = ("Trusted: Coq kernel + vm_compute; the hand-written model and the Python harness; stable-sort uniqueness; the arithmetic premises of "
              "C03_crowding_bounds are proved for Q and only assumed for binary64; symmetry of Individual equality is a premise of the each-design-once clause. "
              "Front numbers are inputs (their correctness is C02); correspondence is sampled, theorems are unbounded. The model fixes the tie-break among "
              "individuals with equal (front, crowding) keys at the cut (set order + stable sort): a change of that tie-break alone is reported as a "
              "correspondence break without a failing input. Individual.__hash__ is taken to be hash(tuple(vector)) of the current vector (C20); "
              "populations in which a difference of two objective values overflows are outside the assumptions (skipped and counted).")

HEADER = ("From Artap Require Import Run.C03Run.\nFrom Coq Require Import List ZArith Floats.\nImport ListNotations.\n"
          "Open Scope float_scope.\n")

SMALL = [0.0, 1.0, 2.0, 3.0]
GRID = [0.0, 1.0, 2.0, 3.0, 0.5, 1.5, 2.5, -1.0, 0.1, 0.2, 0.3, 0.30000000000000004, 0.7, -0.0, 1e-7, 1234.5678, -7.25]
VGRID = [0.0, 0.5, 1.0, -1.0, 2.5, 0.1]

# value scales across the whole binary64 range: every numeric threshold a guard on the range of an objective could be
# confused with (0.0, the smallest subnormal, the smallest normal, sys.float_info.epsilon, the usual tolerances, the
# default rounding precision 1e-7 of calc_signed_costs, ...) gets ranges exactly on it and just on either side of it
EPS = 2.220446049250313e-16            # sys.float_info.epsilon (operators.EPSILON)
TINY = 2.2250738585072014e-308         # smallest normal
FMAX = 1.7976931348623157e308
THRESH = [0.0, 5e-324, 1e-320, TINY, 1e-300, 1e-200, 1e-100, 1e-30, 1e-20, 1e-17, 1e-16, EPS, 1e-15, 1e-14, 1e-12, 1e-10,
          1e-9, 1e-8, 1e-7, 1e-6, 1e-5, 1e-4, 1e-3, 1e-2, 1.0, 1e3, 1e12, 1e100, 1e300]
RANGE_BUCKETS = [(0.0, "0"), (TINY, "subnormal"), (1e-100, "[2.2e-308,1e-100)"), (EPS, "[1e-100,eps)"), (1e-9, "[eps,1e-9)"),
                 (1e-3, "[1e-9,1e-3)"), (1e3, "[1e-3,1e3)"), (1e100, "[1e3,1e100)"), (math.inf, "[1e100,inf)")]


def range_bucket(r):
    if r == 0.0:
        return "0"
    for hi, name in RANGE_BUCKETS[1:]:
        if r < hi:
            return name
    return "inf (difference overflows)"


# boundary populations (cost vectors, indices of members whose design is duplicated at the end)
CORPUS = [
    ([[3.0, 1.0], [0.0, 8.0], [1.0, 4.0], [4.0, 0.0], [2.0, 2.0]], []),                 # tie-free front, the Props example
    ([[1.0, 5.0], [1.0, 5.0], [2.0, 5.0], [2.0, 5.0], [3.0, 5.0]], []),                 # ties + zero-range objective
    ([[2.0, 2.0], [2.0, 2.0], [2.0, 2.0]], [0]),                                         # all equal, one duplicate design
    ([[0.0, 1.0], [-0.0, 1.0], [0.0, 1.0], [1.0, 0.0]], []),                             # signed zeros tie; range 0.0 - -0.0
    ([[0.1, 0.3], [0.2, 0.2], [0.30000000000000004, 0.1], [0.3, 0.15]], [1, 1]),         # adjacent floats, a design three times
    ([[0.0], [1.0], [2.0], [3.0], [4.0]], [4, 0]),                                       # one objective: a chain, five fronts
    ([[0.0, 4.0], [1.0, 3.0], [2.0, 2.0], [3.0, 1.0], [4.0, 0.0], [1.0, 4.0], [2.0, 3.0], [3.0, 2.0], [5.0, 5.0]], [2]),  # three fronts, cut inside
    ([[1e-7, 3.0], [2e-7, 2.0], [3e-7, 1.0], [1.5e-7, 2.5]], []),                        # tiny range
    ([[1.0, 2.0]], []), ([[1.0, 2.0], [2.0, 1.0]], [0, 1]),                              # fronts of one and two
    # one objective in a small unit (red-team change 1: `max_distance > EPSILON`): tie-free, range 1e-16 / exactly epsilon /
    # one ulp above epsilon / subnormal / 4 ulps of 1.0 / of 1e300
    ([[0.0, 10.0], [1e-17, 9.0], [2e-17, 8.9], [9e-17, 8.8], [1e-16, 0.0]], []),
    ([[0.0, 10.0], [2.0 ** -54, 9.0], [2.0 ** -53, 8.9], [3 * 2.0 ** -54, 8.8], [2.0 ** -52, 0.0]], []),
    ([[0.0, 10.0], [2.0 ** -54, 9.0], [2.0 ** -53, 8.9], [3 * 2.0 ** -54, 8.8], [2.0 ** -52 + 2.0 ** -104, 0.0]], []),
    ([[0.0, 4.0], [5e-324, 3.0], [1e-323, 2.5], [2e-323, 0.0]], []),
    ([[1.0, 4.0], [1.0000000000000002, 3.0], [1.0000000000000004, 2.5], [1.0000000000000009, 0.0]], []),
    ([[1e300, 4.0], [1.0000000000000002e300, 3.0], [1.0000000000000005e300, 2.5], [1.0000000000000007e300, 0.0], [-7e307, 5.0]], []),
    ([[1e-300, 4.0, 0.0], [2e-300, 3.0, 5e-17], [3e-300, 2.5, 1e-16], [5e-300, 0.0, 2.5e-16], [4e-300, 1.0, 2e-16]], [1]),
]


# ---------------------------------------------------------------- textbook definitions (independent of the code)
def dominates(p, q):
    """p, q = costs_signed (objectives + [marker]); constrained Pareto dominance, textbook form."""
    pm, qm = abs(p[-1]), abs(q[-1])
    if pm != qm:
        return pm < qm
    a, b = p[:-1], q[:-1]
    return all(x <= y for x, y in zip(a, b)) and any(x < y for x, y in zip(a, b))


def design(x):
    return tuple(x.vector)


def ext(v):
    if isinstance(v, float) and math.isinf(v) and v > 0:
        return "Inf"
    return "(Fin %s)" % fl(v)


# ---------------------------------------------------------------- generators
def scale_column(rng, n):
    """the values of ONE objective for n members, on a scale anywhere in binary64."""
    kind = rng.choice(["threshold", "threshold", "threshold", "adjacent", "multiples", "multiples", "offset", "huge", "ordinary", "ordinary"])
    if kind == "threshold":         # the range max-min is a threshold value T or a neighbour of it; members at fractions of it
        T = rng.choice(THRESH)
        R = rng.choice([T, T, math.nextafter(T, 0.0), math.nextafter(T, math.inf), T / 2, T * 2, T * 1.5])
        fr = sorted(rng.sample(range(1, 64), n - 2)) if 0 < n - 2 <= 63 else [rng.randrange(1, 64) for _ in range(max(n - 2, 0))]
        vals = ([0.0] + [R * k / 64.0 for k in fr] + [R])[:max(n, 1)] if n >= 2 else [R]
        anchor = rng.choice(["min0", "min0", "max0", "mid"])
        if anchor == "max0":        # max = 0, min = -R : the computed range is still exactly R
            vals = [v - R for v in vals]
        elif anchor == "mid":
            vals = [v - R / 2 for v in vals]
    elif kind == "adjacent":        # neighbouring floats: gaps of 1..5 ulps, range of a few ulps
        base = rng.choice([0.0, 1.0, -1.0, 0.1, 1e300, -1e300, 1e-300, TINY, 1e-17, EPS, 1234.5678, FMAX, -0.0, 1e-7])
        to = -math.inf if base >= 1e308 else math.inf
        v = base
        vals = [v]
        for _ in range(n - 1):
            for _s in range(rng.choice([1, 1, 1, 2, 5])):
                v = math.nextafter(v, to)
            vals.append(v)
    elif kind == "multiples":       # k * unit for a small physical unit (or a very large one)
        u = rng.choice([1e-17, 1e-17, 1e-16, 3e-16, 1e-20, 1e-30, 1e-300, 1e-308, 5e-324, 1e-320, 1e-7, 1e-8, 1e150, 1e300])
        ks = rng.sample(range(-2 * n, 4 * n + 4), n) if rng.random() < 0.8 else [rng.randrange(0, 3) for _ in range(n)]
        vals = [k * u for k in ks]
    elif kind == "offset":          # a large offset with a spread of a few ulps of it
        b = rng.choice([1.0, 1e6, -1e6, 1e15, 1e300, 1e-300, 0.3])
        u = math.ulp(b)
        vals = [b + k * u for k in rng.sample(range(0, 8 * n + 8), n)]
    elif kind == "huge":            # close to the largest float: differences may overflow (outside the stated assumptions)
        u = rng.choice([1e300, 1e307, 8e307, FMAX])
        vals = [rng.uniform(-1, 1) * u if rng.random() < 0.7 else rng.choice([u, -u, u / 2]) for _ in range(n)]
    else:
        vals = [rng.uniform(0, 5) for _ in range(n)]
    return kind, vals


def gen_costs(rng, n, m):
    """n cost vectors with m objectives, from templates rich in ties / zero ranges / tie-free fronts."""
    t = rng.choice(["grid", "grid", "small", "uniform", "antichain", "antichain", "antichain_u", "antichain_u",
                    "chain", "allequal", "zerorange", "zerorange_u", "scaled", "scales", "scales", "scales", "scales", "scales"])
    if t == "scales":               # every objective on its own scale; the first two form an anti-chain (one front) in 70 %
        cols = [scale_column(rng, n)[1] for _ in range(m)]
        if rng.random() < 0.7:
            cols[0].sort()
            if m >= 2:
                cols[1].sort(reverse=True)
            for c in cols[2:]:
                rng.shuffle(c)
        else:
            for c in cols:
                rng.shuffle(c)
        cs = [[cols[d][i] for d in range(m)] for i in range(n)]
        rng.shuffle(cs)
        return t, cs
    if t == "grid":
        cs = [[rng.choice(GRID) for _ in range(m)] for _ in range(n)]
    elif t == "small":
        cs = [[rng.choice(SMALL) for _ in range(m)] for _ in range(n)]
    elif t == "uniform":
        cs = [[rng.uniform(-10, 10) for _ in range(m)] for _ in range(n)]
    elif t == "antichain":      # grid anti-chain: x ascending, y descending, ties in the further objectives
        xs = sorted(rng.sample(range(0, 4 * n + 4), n))
        cs = [[x / 2.0, (4 * n + 4 - x) / 4.0] + [rng.choice(SMALL) for _ in range(m - 2)] for x in xs]
        cs = [c[:m] for c in cs]
    elif t == "antichain_u":    # tie-free anti-chain with rounding-rich values
        xs = sorted(rng.uniform(0, 5) for _ in range(n))
        ys = sorted((rng.uniform(0, 5) for _ in range(n)), reverse=True)
        cs = [[xs[i], ys[i]] + [rng.uniform(0, 1) for _ in range(m - 2)] for i in range(n)]
        cs = [c[:m] for c in cs]
    elif t == "chain":
        cs = [[float(i) + (0.5 if rng.random() < 0.2 else 0.0)] * m for i in range(n)]
    elif t == "allequal":
        v = [rng.choice(GRID) for _ in range(m)]
        cs = [list(v) for _ in range(n)]
    elif t == "zerorange":
        cs = [[rng.choice(SMALL) for _ in range(m)] for _ in range(n)]
        j = rng.randrange(m)
        for c in cs:
            c[j] = 1.5
    elif t == "zerorange_u":    # anti-chain in the first two objectives, a constant further objective
        xs = sorted(rng.uniform(0, 5) for _ in range(n))
        ys = sorted((rng.uniform(0, 5) for _ in range(n)), reverse=True)
        cs = [[xs[i], ys[i]] + [0.25] * (m - 2) for i in range(n)]
        cs = [c[:m] for c in cs]
    else:                       # scaled magnitudes
        s = rng.choice([1e6, 1e-6, 1e12, 3.0])
        cs = [[rng.choice(GRID) * s + rng.choice([0.0, s / 3.0]) for _ in range(m)] for _ in range(n)]
    rng.shuffle(cs)
    return t, cs


def gen_population(rng, Individual, nmax, SubInd=None):
    """A population with the variations the model must be insensitive to (or follow exactly):
    duplicated designs (identical vector: same or DIFFERENT costs), 0.0/-0.0, other number representations
    of the same vector (int / numpy.float64: equal and hash-equal in Python), near-equal vectors (1e-11
    apart: `==` but not hash-equal, so set() keeps both), distinct vectors with colliding tuple hashes
    (hash(-1.0) == hash(-2.0)), subclasses, states, extra features, costs as float / numpy.float64 / int."""
    import numpy as np
    n = rng.choice([1, 2, 3, 3, 4, 4, 5, 5, 6, 6, 7, 8, 9, 10, 12] + ([16, 20, 25, 30] if nmax > 12 else []))
    n = min(n, nmax)
    m = rng.choice([1, 2, 2, 2, 3, 3, 4])
    template, cs = gen_costs(rng, n, m)
    nv = rng.choice([1, 2, 3])
    p_dup = rng.choice([0.0, 0.0, 0.25, 0.5])
    mixed = rng.random() < 0.2
    cost_repr = rng.choice(["float", "float", "float", "numpy", "int"])
    if cost_repr == "int" and not all(float(v).is_integer() and abs(v) < 2 ** 50 for c in cs for v in c):
        cost_repr = "float"
    collide = rng.random() < 0.2            # first coordinates -1.0, -2.0, ...: hash((-1.0,)+r) == hash((-2.0,)+r)
    kinds = {"dup": 0, "dup_other_costs": 0, "near_equal": 0, "other_repr": 0, "hash_collision": int(collide and n >= 2),
             "pipeline": 0, "pipeline_nonfinite": 0, "outside_assumptions": 0}
    # costs_signed produced by Individual.calc_signed_costs from costs, signs and features['precision'] (raised by the user
    # for objectives in small units; with the default 7 decimals tiny values collapse to ties / zero ranges)
    pipeline = rng.random() < (0.5 if template == "scales" else 0.2)
    precision = rng.choice([7, 12, 17, 20, 30, 30, 100, 300] if template == "scales" else [7, 7, 12, 30])
    signs = [rng.choice([1, 1, -1]) for _ in range(m)]
    # outside the stated assumptions (skip-and-count): a difference of two values of one objective overflows
    for d in range(m):
        col = [c[d] for c in cs]
        if not all(math.isfinite(v) for v in col) or not math.isfinite(max(col) - min(col)):
            kinds["outside_assumptions"] = 1

    def conv(v):
        return np.float64(v) if cost_repr == "numpy" else (int(v) if cost_repr == "int" else v)

    pop = []
    for i in range(n):
        cls = SubInd if (SubInd is not None and rng.random() < 0.2) else Individual
        own_costs = [conv(v) for v in cs[i]] + [rng.choice([True, 1]) if (mixed and rng.random() < 0.4) else rng.choice([False, False, 0])]
        if pop and rng.random() < p_dup:
            src = rng.choice(pop)
            vec = list(src.vector)
            r = rng.random()
            if r < 0.2:                                  # 0.0 / -0.0 : equal and hash-equal in Python
                vec = [(-v if v == 0.0 else v) for v in vec]
            elif r < 0.4:                                # another representation of the same numbers
                vec = [(int(v) if float(v).is_integer() and rng.random() < 0.5 else np.float64(v)) for v in vec]
                kinds["other_repr"] += 1
            elif r < 0.55:                               # near-equal: == within 1e-10, but a different hash
                j = rng.randrange(len(vec))
                vec[j] = float(vec[j]) + rng.choice([1e-11, -1e-11, 5e-11])
                kinds["near_equal"] += 1
            ind = cls(vec)
            if rng.random() < 0.3:                       # the same design evaluated to different costs
                ind.costs_signed = own_costs
                kinds["dup_other_costs"] += 1
            else:
                ind.costs_signed = list(src.costs_signed)
            kinds["dup"] += 1
        else:
            first = -float(i + 1) if collide else float(i)
            ind = cls([first] + [rng.choice(VGRID) for _ in range(nv - 1)])
            ind.costs_signed = own_costs
            if pipeline:
                ind.costs = own_costs[:-1]
                ind.features["precision"] = precision
                ind.features["feasible"] = not own_costs[-1]      # as Job.evaluate sets it; the marker becomes `not feasible`
                ind.calc_signed_costs(signs)
                if all(math.isfinite(v) for v in ind.costs_signed[:-1]):
                    kinds["pipeline"] += 1
                else:                                    # np.round overflowed (value * 10**precision): not a C03 matter
                    ind.costs_signed = own_costs
                    kinds["pipeline_nonfinite"] += 1
        ind.costs = list(ind.costs_signed[:-1])
        ind.features["feasible"] = not ind.costs_signed[-1]
        ind.state = rng.choice(list(Individual.State))
        if rng.random() < 0.2:
            ind.features["note"] = rng.random()
        pop.append(ind)
    return template, m, pop, kinds


# ---------------------------------------------------------------- the direct oracle (property clauses on the implementation's output)
def oracle_crowding(ctx, before, after, m):
    """before: [(cid, costs)] as passed in; after: [(cid, costs, cd)] as left by crowding_distance."""
    inp = {"front": [{"id": i, "costs": c} for i, c in before],
           "after": [{"id": i, "crowding_distance": d} for i, _, d in after]}

    def fail(what, kind):
        ctx.oracle_failures.append({"what": what, "input": inp, "match": {"kind": kind}})

    n = len(before)
    if sorted(i for i, _ in before) != sorted(i for i, _, _ in after):
        fail("crowding_distance changed the membership of the front", "crowding_members")
        return
    if n <= 2:
        if not all(d == math.inf for _, _, d in after):
            fail("front of %d member(s) does not get infinite crowding distance" % n, "crowding_small")
        return
    tie_free = all(len(set(c[d] for _, c in before)) == n for d in range(m))
    for d in range(m):
        lo = min(c[d] for _, c in before)
        hi = max(c[d] for _, c in before)
        if not any(c[d] == lo and cd == math.inf for _, c, cd in after):
            fail("no holder of the minimum of objective %d has infinite crowding distance" % d, "crowding_extreme_min")
        if not any(c[d] == hi and cd == math.inf for _, c, cd in after):
            fail("no holder of the maximum of objective %d has infinite crowding distance" % d, "crowding_extreme_max")
    for i, c, cd in after:
        if cd != cd:
            fail("crowding distance of %d is NaN" % i, "crowding_nan")
            continue
        if cd != math.inf and not (0.0 <= cd <= m * (1 + 1e-12)):
            fail("finite crowding distance %r of individual %d outside [0, %d]" % (cd, i, m), "crowding_bounds")
    if tie_free:
        for i, c, cd in after:
            extreme = False
            total = Fraction(0)             # the formula in exact rationals: no guard, no rounding, any scale
            for d in range(m):
                vals = sorted(x[d] for _, x in before)
                if c[d] == vals[0] or c[d] == vals[-1]:
                    extreme = True
                    break
                pos = vals.index(c[d])
                total += (Fraction(vals[pos + 1]) - Fraction(vals[pos - 1])) / (Fraction(vals[-1]) - Fraction(vals[0]))
            total = float(total)
            if extreme:
                if cd != math.inf:
                    fail("extreme solution %d of a tie-free front has finite crowding distance %r" % (i, cd), "crowding_extreme_tiefree")
            elif cd == math.inf or not math.isclose(cd, total, rel_tol=1e-9, abs_tol=1e-12):
                fail("interior solution %d: crowding distance %r, sum of normalised neighbour gaps %r" % (i, cd, total), "crowding_interior")
    return tie_free


def oracle_truncate(ctx, pop, cid, k, res):
    inp = {"population": [{"id": cid[id(x)], "vector": x.vector, "costs_signed": [float(v) for v in x.costs_signed],
                           "front_number": x.features["front_number"], "crowding_distance": x.features["crowding_distance"]} for x in pop],
           "size": k, "returned_ids": [cid.get(id(x), -1) for x in res]}

    def fail(what, kind):
        ctx.oracle_failures.append({"what": what, "input": inp, "match": {"kind": kind}})

    designs = set(design(x) for x in pop)
    if any(not any(x is y for y in pop) for x in res):
        fail("truncation returned an object that is not in the population it was given", "truncate_member")
        return
    if len(res) != min(k, len(designs)):
        fail("truncation to %d of %d distinct designs returned %d individuals" % (k, len(designs), len(res)), "truncate_length")
    kept = [design(x) for x in res]
    if len(set(kept)) != len(kept):
        fail("a design survives more than once", "truncate_duplicate")
    keptset = set(kept)
    discarded = [x for x in pop if design(x) not in keptset]
    # a discarded DESIGN may be carried by several individuals (normally with identical costs and front numbers; the
    # generators also evaluate one design to different costs): the clause is applied in its weakest reading - a survivor
    # is worse-ranked than / dominated by the design only if that holds against every individual carrying it
    groups = {}
    for d in discarded:
        groups.setdefault(design(d), []).append(d)
    for s in res:
        for g in groups.values():
            if all(s.features["front_number"] > d.features["front_number"] for d in g):
                d = g[0]
                fail("survivor %d (front %d) has a worse front number than the discarded design of %d (front %d)"
                     % (cid[id(s)], s.features["front_number"], cid[id(d)], d.features["front_number"]), "truncate_rank")
                return
            if all(dominates(d.costs_signed, s.costs_signed) for d in g):
                d = g[0]
                fail("survivor %d is dominated by the discarded design of %d" % (cid[id(s)], cid[id(d)]), "truncate_dominated")
                return
    if len(designs) == len(pop) and res:
        cut = max(x.features["front_number"] for x in res)
        for s in res:
            for d in discarded:
                if s.features["front_number"] == cut == d.features["front_number"] and \
                        d.features["crowding_distance"] > s.features["crowding_distance"]:
                    fail("in the cut front %d the discarded %d has a larger crowding distance (%r) than the kept %d (%r)"
                         % (cut, cid[id(d)], d.features["crowding_distance"], cid[id(s)], s.features["crowding_distance"]), "truncate_crowding")
                    return


def oracle_tournament(ctx, pop, cid, picks, w):
    inp = {"population": [{"id": cid[id(x)], "costs_signed": [float(v) for v in x.costs_signed],
                           "front_number": x.features["front_number"]} for x in pop],
           "sampled_positions": picks, "winner_id": cid.get(id(w), -1)}

    def fail(what, kind):
        ctx.oracle_failures.append({"what": what, "input": inp, "match": {"kind": kind}})

    if not any(w is y for y in pop):
        fail("tournament returned an object that is not in the population it was given", "tournament_member")
        return
    if picks is None:
        return
    c = [pop[i] for i in picks]
    if not any(w is x for x in c):
        fail("tournament winner is not one of the two sampled candidates", "tournament_candidate")
        return
    for loser in c:
        if loser is w:
            continue
        if w.features["front_number"] > loser.features["front_number"]:
            fail("tournament returned the candidate with the worse front number", "tournament_rank")
        elif w.features["front_number"] == loser.features["front_number"] and dominates(loser.costs_signed, w.costs_signed):
            fail("tournament returned the dominated candidate at equal front number", "tournament_dominated")


# ---------------------------------------------------------------- recording stand-ins
class RandomTape:
    """Stands in for the `random` module inside artap.operators: draws from the check's PRNG and records."""

    def __init__(self, rng):
        import random as _r
        self._real = _r
        self.rng = rng
        self.samples = []
        self.choices = []

    def __getattr__(self, name):
        return getattr(self._real, name)

    def sample(self, population, k):
        idx = self.rng.sample(range(len(population)), k)       # ValueError when k > len, as the real one
        self.samples.append(idx)
        return [population[i] for i in idx]

    def choice(self, seq):
        i = self.rng.randrange(len(seq))
        self.choices.append(i)
        return seq[i]


CD_VALUES = [0.0, 0.0, 0.25, 0.5, 1.0, 1.0, 2.0, 1e-300, 1e300, float("inf")]


def enc_ind(x, cid):
    # c3hash: the hash of the individual's CURRENT vector (the model's Individual.__hash__ is hash(tuple(vector)), a function
    # of the vector as it is now); the implementation's own hash(x) is what set() uses - a hash that does not follow the
    # vector (cached at first use, keyed on the object) shows up as a different set of survivors
    return ("{| c3id := %s; c3vec := %s; c3hash := %s; c3cost := %s; c3mark := %s; c3front := %s; c3cd := %s |}"
            % (nl(cid[id(x)]), ll(x.vector, fl), zl(hash(tuple(x.vector))), ll(x.costs_signed[:-1], fl), zl(int(x.costs_signed[-1])),
               nl(x.features["front_number"]), ext(x.features["crowding_distance"])))


def run(ctx):
    import numpy as np
    import artap.operators as ops
    from artap.individual import Individual
    from artap.algorithm_swarm import IndividualSwarm
    from artap.algorithm_NSGAII import IndividualNSGAII
    rng = ctx.rng
    n_pops = ctx.pick(260, 5000)
    n_hist = ctx.pick(70, 1500)
    nmax = ctx.pick(12, 30)
    cases, expected, meta = [], [], []
    stats = {"populations": 0, "populations_skipped_difference_overflow": 0, "crowding_calls": 0, "fronts_ge3": 0,
             "tie_free_fronts_ge3": 0, "fronts_with_ties": 0,
             "interior_finite_values": 0, "zero_range_objectives": 0, "crowding_calls_with_stale_distances": 0,
             "objective_range_hist_fronts_ge3": {}, "tie_free_objectives_with_range_le_epsilon": 0,
             "tie_free_objectives_with_subnormal_range": 0, "tie_free_fronts_with_an_objective_range_le_epsilon": 0,
             "costs_signed_via_calc_signed_costs": 0, "calc_signed_costs_nonfinite_fallback": 0,
             "truncate_cases": 0, "truncate_with_duplicates": 0, "truncate_cut_inside_front": 0, "truncate_k_ge_distinct": 0,
             "truncate_on_reused_list_object": 0, "tournament_cases": 0, "tournament_by_rank": 0, "tournament_by_dominance": 0,
             "tournament_by_coin": 0, "tournament_by_dominance_crowding": {}, "tournament_swarm_populations": {},
             "tournament_merged_populations_with_arbitrary_crowding": 0, "tournament_single": 0, "tournament_merged_populations": 0,
             "populations_with_colliding_ids": 0, "populations_with_hash_collisions": 0, "duplicates": 0,
             "duplicates_with_other_costs": 0, "near_equal_vectors": 0, "other_number_representation": 0,
             "templates": {}, "pop_size_hist": {}, "objective_count_hist": {},
             "histories": {"histories": 0, "generations": 0, "generations_with_swarm_style_tournaments": 0, "moves": {}, "vector_changes_in_place": 0, "vector_reassigned": 0,
                           "pairs_distinct_then_equal": 0, "pairs_equal_then_distinct": 0,
                           "truncations_after_a_vector_change": 0, "truncations_after_a_vector_change_with_duplicates": 0,
                           "individuals_hashed_before_their_vector_changed": 0, "re_evaluations_in_place": 0,
                           "re_evaluations_new_list": 0, "re_evaluations_calc_signed_costs": 0, "front_number_changes": 0,
                           "classes": {}}}
    H = stats["histories"]

    class SubInd(Individual):                       # a subclass with its own features, as the algorithms define them
        def add_features(self):
            self.features["crowding_distance"] = 0
            self.features["front_number"] = None

    # ONE selector object for the whole stream, as the algorithms keep it
    selector = ops.TournamentSelector([])
    real_cd = ops.crowding_distance
    real_random = ops.random
    cid = {}
    calls = []

    def rec_cd(front):
        before = [(cid[id(x)], [float(v) for v in x.costs_signed[:-1]]) for x in front]
        stale = any(x.features.get("crowding_distance") not in (0, 0.0, None) for x in front)
        real_cd(front)
        after = [(cid[id(x)], [float(v) for v in x.costs_signed[:-1]], x.features.get("crowding_distance")) for x in front]
        calls.append((before, after, stale))

    class RecSet(set):
        order = None

        def __iter__(self):
            o = list(set.__iter__(self))
            RecSet.order = o
            return iter(o)

    def add_crowding(before, after, stale):
        m = len(before[0][1]) if before else 0
        cases.append("CCrowd %s" % ll([pl(nl(i), ll(c, fl)) for i, c in before]))
        expected.append("OCrowd %s" % ll([pl(nl(i), ext(d)) for i, _, d in sorted(after, key=lambda t: t[0])]))
        meta.append({"op": "crowding_distance", "front": before, "after": [(i, d) for i, _, d in after]})
        tf = oracle_crowding(ctx, before, after, m)
        n = len(before)
        stats["crowding_calls"] += 1
        stats["crowding_calls_with_stale_distances"] += int(stale)
        if n >= 3:
            stats["fronts_ge3"] += 1
            stats["tie_free_fronts_ge3" if tf else "fronts_with_ties"] += 1
            stats["interior_finite_values"] += sum(1 for _, _, d in after if d != math.inf)
            stats["zero_range_objectives"] += sum(1 for d in range(m) if len(set(c[d] for _, c in before)) == 1)
            small = 0
            for d in range(m):
                col = [c[d] for _, c in before]
                r = max(col) - min(col)
                b = range_bucket(r)
                stats["objective_range_hist_fronts_ge3"][b] = stats["objective_range_hist_fronts_ge3"].get(b, 0) + 1
                if len(set(col)) == n:
                    stats["tie_free_objectives_with_range_le_epsilon"] += int(r <= EPS)
                    stats["tie_free_objectives_with_subnormal_range"] += int(r < TINY)
                    small += int(r <= EPS)
            if tf and small:
                stats["tie_free_fronts_with_an_objective_range_le_epsilon"] += 1
        ctx.count(("cd", tuple((i, tuple(c)) for i, c in before)), nontrivial=(n >= 3))
        if n >= 4 and tf and len(ctx.samples) < 2:
            ctx.sample(meta[-1])

    def flush_calls():
        for before, after, stale in calls:
            add_crowding(before, after, stale)
        del calls[:]

    def features_of(pop):
        return [(x.features["front_number"], x.features["crowding_distance"]) for x in pop]

    def set_features(pop, feats):
        for x, (fn, cd) in zip(pop, feats):
            x.features["front_number"], x.features["crowding_distance"] = fn, cd

    def truncate_case(inp, k, reused, keytag, may_sample):
        """one nondominated_truncate(inp, k) on the list object inp: encoded BEFORE the call, set() order observed"""
        enc_pop = ll([enc_ind(x, cid) for x in inp])          # what the implementation is given
        snapshot = list(inp)
        RecSet.order = None
        ops.set = RecSet
        try:
            res = ops.nondominated_truncate(inp, k)
        finally:
            del ops.set
        order = RecSet.order if RecSet.order is not None else list(set(snapshot))
        cases.append("CTrunc %s %s %s" % (enc_pop, ll([cid[id(x)] for x in order], nl), nl(k)))
        expected.append("OIds %s" % ll(sorted(cid.get(id(x), 999999) for x in res), nl))
        meta.append({"op": "nondominated_truncate", "size": k, "stream": keytag,
                     "population": [{"id": cid[id(x)], "vector": [float(v) for v in x.vector],
                                     "costs_signed": [float(v) for v in x.costs_signed],
                                     "front": x.features["front_number"], "cd": x.features["crowding_distance"]} for x in snapshot],
                     "set_order": [cid[id(x)] for x in order], "returned": [cid.get(id(x), -1) for x in res]})
        oracle_truncate(ctx, snapshot, cid, k, res)
        stats["truncate_cases"] += 1
        stats["truncate_on_reused_list_object"] += int(reused)
        n = len(snapshot)
        nd_now = len(set(design(x) for x in snapshot))
        if nd_now < n:
            stats["truncate_with_duplicates"] += 1
        if k >= nd_now:
            stats["truncate_k_ge_distinct"] += 1
        elif res:
            cut = max(x.features["front_number"] for x in res)
            if any(x.features["front_number"] == cut and not any(x is r for r in res) for x in order):
                stats["truncate_cut_inside_front"] += 1
        ctx.count((keytag, k, tuple((cid[id(x)], x.features["front_number"], design(x) if keytag != "tr" else None) for x in snapshot)),
                  nontrivial=(n >= 2))
        if may_sample and n >= 5 and 1 < k < n and nd_now < n and len(ctx.samples) < 3:
            ctx.sample(meta[-1])
        if len(inp) != len(snapshot) or any(a is not b for a, b in zip(inp, snapshot)):
            inp[:] = snapshot             # the call modified its argument: keep the stream going on a sane list
        return nd_now < n

    def tournament_case(inp, tape, keypop):
        enc_pop = ll([enc_ind(x, cid) for x in inp])
        snapshot = list(inp)
        tape.samples, tape.choices = [], []
        w = selector.select(inp)
        smp = tape.samples[0] if tape.samples else None
        coin = tape.choices[0] if tape.choices else None
        extra = len(tape.samples) > 1 or len(tape.choices) > 1 or (smp is not None and len(smp) != 2)
        cases.append("CTour %s %s %s" % (enc_pop, optl(smp if not extra else None, lambda s: pl(nl(s[0]), nl(s[1]))), optl(coin, nl)))
        expected.append("OWin %s" % nl(cid.get(id(w), 999999)))
        meta.append({"op": "tournament", "population": [{"id": cid[id(x)], "costs_signed": [float(v) for v in x.costs_signed],
                                                         "front": x.features["front_number"]} for x in snapshot],
                     "sample": smp, "choice": coin, "winner": cid.get(id(w), -1)})
        oracle_tournament(ctx, snapshot, cid, smp if (smp is not None and len(smp) == 2) else None, w)
        stats["tournament_cases"] += 1
        if smp is None:
            stats["tournament_single"] += 1
        elif coin is not None:
            stats["tournament_by_coin"] += 1
        elif snapshot[smp[0]].features["front_number"] != snapshot[smp[1]].features["front_number"]:
            stats["tournament_by_rank"] += 1
        else:
            stats["tournament_by_dominance"] += 1
            a, b = snapshot[smp[0]], snapshot[smp[1]]
            if dominates(b.costs_signed, a.costs_signed):
                a, b = b, a                                   # a dominates b
            ca, cb = a.features.get("crowding_distance"), b.features.get("crowding_distance")
            key = ("dominated_has_larger_crowding" if cb > ca else "dominated_has_smaller_crowding" if cb < ca else "equal_crowding")
            stats["tournament_by_dominance_crowding"][key] = stats["tournament_by_dominance_crowding"].get(key, 0) + 1
            if cb > ca and cb == float("inf"):
                stats["tournament_by_dominance_crowding"]["dominated_has_infinite_crowding"] = \
                    stats["tournament_by_dominance_crowding"].get("dominated_has_infinite_crowding", 0) + 1
        ctx.count(("to", tuple(cid[id(x)] for x in snapshot), tuple(smp or ()), coin,
                   tuple(tuple(float(v) for v in x.costs_signed) for x in keypop)), nontrivial=(len(keypop) >= 2))
        if smp is not None and coin is None and len(ctx.samples) < 4 and \
                snapshot[smp[0]].features["front_number"] == snapshot[smp[1]].features["front_number"]:
            ctx.sample(meta[-1])
        if len(inp) != len(snapshot) or any(a is not b for a, b in zip(inp, snapshot)):
            inp[:] = snapshot

    def populations():
        for costs, dups in CORPUS:          # boundary cases read off the code, always run first
            pop = []
            for i, c in enumerate(costs):
                ind = Individual([float(i), 0.5])
                ind.costs_signed = list(c) + [False]
                pop.append(ind)
            for src in dups:                # duplicated designs: same vector, same costs, new object
                ind = Individual(list(pop[src].vector))
                ind.costs_signed = list(pop[src].costs_signed)
                pop.append(ind)
            for ind in pop:
                ind.costs = list(ind.costs_signed[:-1])
                ind.features["feasible"] = True
            yield "corpus", len(costs[0]), pop, {"dup": len(dups)}
            if min(abs(v) for c in costs for v in c if v) < 1e-7:      # small units: the same front through calc_signed_costs
                pop = []
                for i, c in enumerate(costs):
                    ind = Individual([float(i), 0.5])
                    ind.costs = list(c)
                    ind.features["feasible"] = True
                    ind.features["precision"] = 30 if min(abs(v) for v in c if v) > 1e-25 else 300
                    ind.calc_signed_costs([1] * len(c))
                    if not all(math.isfinite(v) for v in ind.costs_signed[:-1]):
                        ind.costs_signed = list(c) + [False]
                    pop.append(ind)
                yield "corpus", len(costs[0]), pop, {"pipeline": len(pop)}
        for _ in range(n_pops):
            yield gen_population(rng, Individual, nmax, SubInd)

    # ------------------------------------------------------------ stream 2: histories on long-lived Individual objects
    HG = [0.0, 0.25, 0.5, 0.75, 1.0, 0.1, 0.9]

    def redteam_history(k):
        """red-team change 2 (lazily cached Individual.__hash__): four designs are ranked and truncated, then move in place;
        two are clamped onto the corner (1, 0); re-evaluated, re-ranked, truncated to k."""
        swarm = [Individual(v) for v in ([0.10, 0.30], [0.80, 0.20], [0.90, 0.10], [0.50, 0.60])]
        cid.clear()
        for i, x in enumerate(swarm):
            cid[id(x)] = i
        steps = [[0.05, 0.00], [0.40, -0.50], [0.30, -0.20], [-0.10, 0.10]]
        for gen in range(2):
            for x in swarm:
                x.costs = [x.vector[0] + x.vector[1], (1.0 - x.vector[0]) + x.vector[1]]
                x.costs_signed = list(x.costs) + [False]
            del calls[:]
            selector.fast_nondominated_sorting(swarm)
            flush_calls()
            truncate_case(swarm, 4 if gen == 0 else k, gen > 0, "trh", False)
            if gen == 0:
                for x, st in zip(swarm, steps):
                    for i in range(2):
                        x.vector[i] = min(1.0, max(0.0, x.vector[i] + st[i]))
        H["histories"] += 1
        H["generations"] += 2

    def history():
        """A particle-swarm / steady-state style loop that keeps its Individual objects alive: evaluate, rank, truncate
        (this hashes every individual), draw tournaments, then CHANGE VECTORS (in-place element assignment, step + clamping
        onto the bounds as update_position does, whole-list assignment, sync, swapped lists) so that previously distinct
        designs become equal and previously equal ones distinct, re-evaluate (new list / in place / calc_signed_costs),
        re-rank, truncate again.  Every call is compared with the model evaluated on the CURRENT vectors, costs and ranks."""
        nv = rng.choice([1, 2, 2, 3])
        m = rng.choice([1, 2, 2, 2, 3])
        n = rng.choice([3, 4, 4, 5, 6, 8])
        cls = rng.choice([Individual, Individual, SubInd, IndividualSwarm, IndividualNSGAII])
        H["histories"] += 1
        H["classes"][cls.__name__] = H["classes"].get(cls.__name__, 0) + 1
        grid = HG[:5] if rng.random() < 0.6 else HG
        swarm = [cls([rng.choice(grid) for _ in range(nv)]) for _ in range(n)]
        if rng.random() < 0.5:              # start from all-distinct designs in half of the histories
            seen = set()
            for x in swarm:
                while design(x) in seen:
                    x.vector = [rng.choice(HG) + rng.choice([0.0, 0.01, 0.02, 0.03]) for _ in range(nv)]
                seen.add(design(x))
        ids = [x.id for x in swarm]
        cid.clear()
        for i, x in enumerate(swarm):
            cid[id(x)] = i
        W = [[rng.choice([-1.0, 1.0, 1.0, 0.5, -2.0, 0.0, 3.0]) for _ in range(nv)] for _ in range(m)]
        if m >= 2:                          # conflicting objectives: fronts of several members
            W[1] = [-w if w else 1.0 for w in W[0]]
        Q = [rng.choice([0.0, 0.0, 1.0, -1.0]) for _ in range(m)]
        unit = [rng.choice([1.0, 1.0, 1.0, 1e-17, 1e-300, 1e6, 3.0]) for _ in range(m)]
        noisy = rng.random() < 0.15         # a stochastic objective: one design evaluated to different costs
        infeasible_above = rng.choice([None, None, None, 0.8])
        hashed = set()

        def evaluate(x):
            v = [float(c) for c in x.vector]
            c = [unit[d] * (sum(W[d][j] * v[j] + Q[d] * v[j] * v[j] for j in range(nv)) + (rng.choice([0.0, 0.125]) if noisy else 0.0))
                 for d in range(m)]
            marker = bool(infeasible_above is not None and v[0] > infeasible_above)
            how = rng.choice(["new", "new", "inplace", "pipeline"])
            x.costs = list(c)
            if how == "inplace" and len(x.costs_signed) == m + 1:
                for d in range(m):
                    x.costs_signed[d] = c[d]
                x.costs_signed[m] = marker
                H["re_evaluations_in_place"] += 1
            elif how == "pipeline":
                x.features["precision"] = rng.choice([20, 30, 300]) if min(unit) < 1e-6 else rng.choice([7, 12, 30])
                x.features["feasible"] = not marker
                x.calc_signed_costs([1] * m)
                if not all(math.isfinite(t) for t in x.costs_signed[:-1]):
                    x.costs_signed = list(c) + [marker]
                H["re_evaluations_calc_signed_costs"] += 1
            else:
                x.costs_signed = list(c) + [marker]
                H["re_evaluations_new_list"] += 1

        def clamp_step(x, step):            # algorithm_swarm.update_position: in place, element by element
            for i in range(nv):
                x.vector[i] = x.vector[i] + step[i]
                if x.vector[i] > 1.0:
                    x.vector[i] = 1.0
                if x.vector[i] < 0.0:
                    x.vector[i] = 0.0
            H["vector_changes_in_place"] += 1

        def move():
            kind = rng.choice(["corner", "corner", "merge_in_place", "assign_copy", "sync", "split", "split", "jitter", "near", "swap",
                               "other_repr", "assign_alias"])
            H["moves"][kind] = H["moves"].get(kind, 0) + 1
            a, b = rng.sample(swarm, 2)
            if kind == "corner":            # two (or three) particles leave the box in the same direction: same corner afterwards
                corner = [rng.choice([-1.0, 1.0]) for _ in range(nv)]
                for x in rng.sample(swarm, rng.choice([2, 2, 3])):
                    clamp_step(x, [s * rng.choice([1.0, 1.5, 2.0]) for s in corner])
            elif kind == "merge_in_place":  # a takes b's coordinates, element by element
                for i in range(nv):
                    a.vector[i] = b.vector[i]
                H["vector_changes_in_place"] += 1
            elif kind == "assign_copy":
                a.vector = list(b.vector)
                H["vector_reassigned"] += 1
            elif kind == "assign_alias":    # the same list object in two individuals
                a.vector = b.vector
                H["vector_reassigned"] += 1
            elif kind == "sync":            # a becomes b (vector, costs, ... shared); the features dict is un-shared again so
                a.sync(b)                   # that the distance the call writes for a is a's own (aliased OUTPUT fields would
                a.features = dict(b.features)   # make "the distance of a" ill-defined; aliased inputs are kept)
                H["vector_reassigned"] += 1
            elif kind == "split":           # members of a group of equal designs move apart
                groups = {}
                for x in swarm:
                    groups.setdefault(design(x), []).append(x)
                dup = [g for g in groups.values() if len(g) > 1]
                if dup:
                    for x in rng.choice(dup)[1:]:
                        if rng.random() < 0.5:
                            x.vector = list(x.vector)          # un-alias, then change one element in place
                            x.vector[rng.randrange(nv)] = rng.choice(HG) + rng.choice([0.0, 0.05])
                            H["vector_changes_in_place"] += 1
                        else:
                            x.vector = [rng.choice(HG) for _ in range(nv)]
                            H["vector_reassigned"] += 1
                else:
                    a.vector[rng.randrange(nv)] = rng.choice(HG)
                    H["vector_changes_in_place"] += 1
            elif kind == "jitter":
                for x in swarm:
                    clamp_step(x, [rng.choice([-0.25, 0.0, 0.25, 0.5]) for _ in range(nv)])
            elif kind == "near":            # 1e-11 next to b: == by Individual.__eq__, another hash
                a.vector = [float(c) for c in b.vector]
                a.vector[rng.randrange(nv)] += rng.choice([1e-11, -1e-11])
                H["vector_reassigned"] += 1
            elif kind == "swap":
                a.vector, b.vector = b.vector, a.vector
                H["vector_reassigned"] += 2
            else:                           # the same numbers as numpy.float64: same design, same hash
                a.vector = [np.float64(c) for c in a.vector]
                H["vector_reassigned"] += 1

        tape = RandomTape(rng)
        inp = list(swarm)                   # a second long-lived list object (the "population" of the algorithm)
        fronts_before = None
        moved = False
        for g in range(rng.choice([2, 3, 3, 4])):
            H["generations"] += 1
            for x, i in zip(swarm, ids):    # the sorter looks individuals up by Individual.id
                x.id = i
            for x in swarm:
                evaluate(x)
            del calls[:]
            selector.fast_nondominated_sorting(swarm)
            flush_calls()
            if any(x.features.get("front_number") is None for x in swarm):
                ctx.mismatches.append({"what": "the sorter left an individual unranked (C02 territory); history stopped"})
                return
            fronts = [x.features["front_number"] for x in swarm]
            if fronts_before is not None:
                H["front_number_changes"] += sum(1 for p, q in zip(fronts_before, fronts) if p != q)
            fronts_before = fronts
            if rng.random() < 0.3:
                for x in swarm:
                    x.id = rng.choice([0, 7])
            nd = len(set(design(x) for x in swarm))
            ks = sorted(set([rng.randrange(1, n + 1), max(1, nd - 1), nd, rng.choice([n, n + 2])]))
            rng.shuffle(ks)
            for t, k in enumerate(ks[:3]):
                lst = swarm if rng.random() < 0.5 else inp
                if rng.random() < 0.4:
                    rng.shuffle(lst)
                dups = truncate_case(lst, k, True, "trh", False)
                if moved:
                    H["truncations_after_a_vector_change"] += 1
                    H["truncations_after_a_vector_change_with_duplicates"] += int(dups)
            hashed.update(id(x) for x in swarm)
            # tournaments; in a third of the generations on front numbers of two separately ranked halves (the comparator
            # branch of select() is dead code on a consistently ranked population)
            ranked = features_of(swarm)
            if rng.random() < 0.34:
                for x, i in zip(swarm, ids):
                    x.id = i
                half = n // 2
                selector.fast_nondominated_sorting(swarm[:half])
                selector.fast_nondominated_sorting(swarm[half:])
                flush_calls()
            elif rng.random() < 0.5:
                # as PSOGA does: one front number for the whole swarm, crowding distances over the whole swarm
                for x in swarm:
                    x.features["front_number"] = 0
                ops.crowding_distance(swarm)
                flush_calls()
                H["generations_with_swarm_style_tournaments"] += 1
            ops.random = tape
            try:
                for _t in range(3):
                    tournament_case(swarm if rng.random() < 0.5 else inp, tape, swarm)
            finally:
                ops.random = real_random
            set_features(swarm, ranked)
            if rng.random() < 0.4:          # the individuals are hashed / used as keys by other routes too
                _ = {x: 1 for x in swarm}
                _ = [x in set(swarm) for x in swarm]
            if rng.random() < 0.5:          # crowding_distance directly on the long-lived list (distances of the sort still there)
                ops.crowding_distance(swarm)
                flush_calls()
            before = [design(x) for x in swarm]
            for _mv in range(rng.choice([1, 2, 3])):
                move()
            after = [design(x) for x in swarm]
            moved = True
            H["individuals_hashed_before_their_vector_changed"] += sum(1 for x, p, q in zip(swarm, before, after) if p != q and id(x) in hashed)
            for i in range(n):
                for j in range(i):
                    H["pairs_distinct_then_equal"] += int(before[i] != before[j] and after[i] == after[j])
                    H["pairs_equal_then_distinct"] += int(before[i] == before[j] and after[i] != after[j])

    try:
        ops.crowding_distance = rec_cd
        # sizes on either side of the `n == 0 / 1 / 2` special cases, empty inputs included
        cid.clear()
        ops.crowding_distance([])
        flush_calls()
        truncate_case([], 3, False, "tr", False)
        for template, m, pop, kinds in populations():
            cid.clear()
            for i, x in enumerate(pop):
                cid[id(x)] = i
            n = len(pop)
            if kinds.get("outside_assumptions"):
                stats["populations_skipped_difference_overflow"] += 1
                continue
            stats["populations"] += 1
            stats["templates"][template] = stats["templates"].get(template, 0) + 1
            stats["pop_size_hist"][n] = stats["pop_size_hist"].get(n, 0) + 1
            stats["objective_count_hist"][m] = stats["objective_count_hist"].get(m, 0) + 1
            stats["populations_with_hash_collisions"] += kinds.get("hash_collision", 0)
            stats["duplicates"] += kinds.get("dup", 0)
            stats["duplicates_with_other_costs"] += kinds.get("dup_other_costs", 0)
            stats["near_equal_vectors"] += kinds.get("near_equal", 0)
            stats["other_number_representation"] += kinds.get("other_repr", 0)
            stats["costs_signed_via_calc_signed_costs"] += kinds.get("pipeline", 0)
            stats["calc_signed_costs_nonfinite_fallback"] += kinds.get("pipeline_nonfinite", 0)

            # 1. rank with the real sorter (it calls crowding_distance once per front)
            del calls[:]
            selector.fast_nondominated_sorting(pop)
            flush_calls()
            if any(x.features.get("front_number") is None for x in pop):
                ctx.mismatches.append({"what": "the sorter left an individual unranked (C02 territory); population skipped"})
                continue
            ranked = features_of(pop)
            # in a third of the populations the tournaments see a MERGED population whose halves were ranked separately
            # by the real sorter: equal front numbers then no longer exclude dominance, which is what the comparator
            # branch of select() is for (on a consistently ranked population that branch is dead code)
            merged = None
            if n >= 4 and rng.random() < 0.34:
                half = n // 2
                selector.fast_nondominated_sorting(pop[:half])
                selector.fast_nondominated_sorting(pop[half:])
                flush_calls()
                merged = features_of(pop)
                set_features(pop, ranked)
                stats["tournament_merged_populations"] += 1
            # the sorter is done with this population: from here on nothing may depend on Individual.id, so in a third
            # of the populations the ids collide (as after from_dict / a second interpreter)
            if rng.random() < 0.33:
                for x in pop:
                    x.id = rng.choice([0, 7])
                stats["populations_with_colliding_ids"] += 1

            # 2. truncation, every size 1..n+2 (a sample of them for larger populations); the SAME list object is passed
            #    again and again, shuffled in place in between
            ndesigns = len(set(design(x) for x in pop))
            ks = list(range(1, n + 3))
            if len(ks) > 7:
                ks = sorted(set(rng.sample(ks, 5) + [1, ndesigns, n + 2]))
            rng.shuffle(ks)
            if n >= 2:                      # sizes asked again on the same list object after a member was removed in place
                ks = ks + [("drop", ks[0]), ("drop", rng.choice(ks))]
            inp = list(pop)
            for turn, k in enumerate(ks):
                if isinstance(k, tuple):
                    k = k[1]
                    if len(inp) > 1:
                        del inp[rng.randrange(len(inp))]
                elif rng.random() < 0.6:
                    rng.shuffle(inp)
                truncate_case(inp, k, turn > 0, "tr", True)

            # 3. binary tournaments (same selector, same list object shuffled in place)
            if merged is not None:
                set_features(pop, merged)
                if rng.random() < 0.5:
                    # ... with ARBITRARY crowding distances (the tournament must not look at them): drawn from a small set,
                    # and in half of these populations infinite for every member that another member dominates
                    spoil = rng.random() < 0.5
                    for x in pop:
                        x.features["crowding_distance"] = rng.choice(CD_VALUES)
                        if spoil and any(dominates(y.costs_signed, x.costs_signed) for y in pop):
                            x.features["crowding_distance"] = float("inf")
                    stats["tournament_merged_populations_with_arbitrary_crowding"] += 1
            tape = RandomTape(rng)
            ops.random = tape
            try:
                inp = list(pop)
                for _t in range((min(4 * n, 16) if merged is not None else min(2 * n, 8)) if n > 1 else 1):
                    r = rng.random()
                    if r < 0.6:
                        rng.shuffle(inp)
                    elif r < 0.75 and len(inp) > 1:
                        del inp[rng.randrange(len(inp))]          # same list object, one member fewer
                    elif r < 0.8 and len(inp) < n:
                        inp[:] = pop
                    tournament_case(inp, tape, pop)
            finally:
                ops.random = real_random
            set_features(pop, ranked)

            # 3b. the tournament as artap's own PSOGA uses it (algorithm_swarm.py): ONE front number for the whole swarm
            #     (individual_features['front_number'] = 0) and crowding distances computed by crowding_distance(swarm) over
            #     the whole swarm, dominated particles included - so at equal front number one candidate may dominate the
            #     other, and the dominated one may well sit in the less crowded region (boundary particles: inf).  In a
            #     third of these populations the distances are then overwritten by arbitrary ones, infinite for every
            #     dominated member (red team round 2: crowding compared before dominance)
            if n >= 2 and rng.random() < 0.6:
                const = rng.choice([0, 0, 1, 3])
                for x in pop:
                    x.features["front_number"] = const
                ops.crowding_distance(pop)
                flush_calls()
                how = "crowding_distance(swarm)"
                if rng.random() < 0.34:
                    how = "arbitrary, infinite for the dominated"
                    for x in pop:
                        x.features["crowding_distance"] = rng.choice(CD_VALUES)
                        if any(dominates(y.costs_signed, x.costs_signed) for y in pop):
                            x.features["crowding_distance"] = float("inf")
                stats["tournament_swarm_populations"][how] = stats["tournament_swarm_populations"].get(how, 0) + 1
                tape = RandomTape(rng)
                ops.random = tape
                try:
                    inp = list(pop)
                    for _t in range(min(3 * n, 12)):
                        if rng.random() < 0.5:
                            rng.shuffle(inp)
                        tournament_case(inp, tape, pop)
                finally:
                    ops.random = real_random
                set_features(pop, ranked)

            # 4. crowding_distance called directly on arbitrary sub-lists (dominated members, ties, any order, distances
            #    left over from the earlier sorts), twice on the same list object
            for _d in range(2):
                sub = [x for x in pop if rng.random() < 0.8]
                rng.shuffle(sub)
                if not sub:
                    continue
                ops.crowding_distance(sub)
                if rng.random() < 0.5:
                    ops.crowding_distance(sub)
                flush_calls()

        # the red-team history first (four designs, two clamped onto the corner (1, 0)), then generated histories
        for k in (2, 3, 4):
            redteam_history(k)
        for _h in range(n_hist):
            history()
    finally:
        ops.crowding_distance = real_cd
        ops.random = real_random
        if "set" in ops.__dict__:
            del ops.set

    ctx.coq_compare("c03", HEADER, "c03_case", "c03_obs", "c03_run", "c03_obs_eqb", cases, expected, meta, shard=400)
    ctx.rule = ("(1) populations of 1..%d individuals with 1..4 objectives from templates (value grids with ties, anti-chains, chains, all-equal, "
                "zero-range objectives, tie-free uniform values, scaled magnitudes, and `scales`: every objective on its own scale anywhere in "
                "binary64 - ranges exactly on / one ulp below / one ulp above / half / double each of %d threshold values from 0 and 5e-324 over "
                "2.2e-308, 1e-300, 1e-17, sys.float_info.epsilon, 1e-12 ... 1e-7 to 1e300, gaps of 1..5 ulps between neighbouring members around "
                "0, 1, 1e-300, 1e300 and the largest float, integer multiples of units from 5e-324 to 1e300, large offsets with a spread of a few "
                "ulps; populations in which a difference of two objective values overflows are skipped and counted), costs_signed set directly or "
                "produced by Individual.calc_signed_costs with precision 7..300 and signs +-1; duplicated designs (identical vector with the same "
                "or with different costs, 0.0/-0.0, int / numpy.float64 representations), near-equal vectors (1e-11), distinct vectors with "
                "colliding hashes, subclasses, states, colliding Individual.id, costs as float / numpy.float64 / int, mixed feasibility markers; "
                "one long-lived selector object; ranked by the real fast_nondominated_sorting; every crowding_distance call (per front, on "
                "separately ranked halves, direct calls on arbitrary sub-lists carrying stale distances, the empty list), nondominated_truncate "
                "for sizes 1..n+2 on one re-used list object shuffled in place with the observed set() order as oracle, "
                "TournamentSelector.select with recorded random.sample/random.choice - on the consistently ranked population, on halves ranked "
                "separately (half of them with arbitrary crowding distances), and swarm style as PSOGA does (one front number for all, "
                "crowding_distance over the whole swarm or arbitrary distances, infinite for the dominated members). (2) histories of 2..4 generations on 3..8 long-lived "
                "Individual / IndividualSwarm / IndividualNSGAII objects in the box [0,1]^1..3: evaluate (new costs_signed list, in-place "
                "update, calc_signed_costs), rank, truncate for 3 sizes (every individual is hashed), tournaments, then vectors change (in-place "
                "element assignment, step + clamping onto a corner, whole-list assignment, aliased lists, sync, swap, near-equal, numpy "
                "representation) so that distinct designs become equal and equal ones distinct, re-evaluate, re-rank, truncate again; each call "
                "compared with the model on the current vectors / costs / ranks. Non-trivial: fronts of >= 3 members, populations of >= 2; "
                "distinct = distinct (operation, inputs)") % (nmax, len(THRESH))
    ctx.extra.update({"case_kinds": stats})
