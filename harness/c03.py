"""C03 - crowding distance, environmental selection (nondominated_truncate) and binary tournament:
correspondence with Model/Selection.v (binary64 instance, bit for bit) and the direct oracle."""
import math

from harness.core import fl, zl, nl, ll, pl, optl, FLOAT_AXIOMS

PROP = "C03"
THEOREMS = {"Artap.Props.C03": [
    "C03_crowding_small", "C03_crowding_permutes", "C03_crowding_extremes", "C03_crowding_interior",
    "C03_crowding_interior_formula", "C03_crowding_bounds", "C03_crowding_bounds_Q",
    "C03_dedupe_exact", "C03_truncate_spec", "C03_truncate_total", "C03_truncate_all_distinct",
    "C03_truncate_discarded_design", "C03_truncate_no_dominated_survivor",
    "C03_tournament_spec", "C03_tournament_total", "C03_float_order"]}
AXIOMS_OK = FLOAT_AXIOMS
TRUSTED = [
    "Coq 8.16.1 kernel; vm_compute for model evaluation (no native_compute)",
    "hand-written model Model/Selection.v tied to operators.py by this correspondence run (crowding values bit for bit, id lists and winners exactly)",
    "FloatAxioms.ltb_spec / eqb_spec and the primitive float operations (standard library) for the float order instance C03_float_order",
    "list(set(population)) iteration order, random.sample and random.choice results are oracle inputs of the model; the theorems quantify over all of them",
    "Python's list.sort / sorted are stable sorts that only ask `<` of the keys; any stable sort gives the same result for a strict weak order (modelled by insertion sort)",
    "`-p.cd < -q.cd` is modelled as `q.cd < p.cd` (exact for non-NaN floats); math.inf is modelled as the constructor Inf (inf + finite = inf)",
    "C03_crowding_bounds rests on the named arithmetic premises (term_bounds, add_bounds, bound_start); they are proved for exact rationals "
    "(C03_crowding_bounds_Q) and assumed, not proved, for binary64 (monotone rounding); the direct oracle checks the bounds on every generated front",
    "C03_truncate_spec's design clause has the premise that set()'s element equality is symmetric on the population; it holds for equal-length vectors when |a-b| = |b-a| (binary64: assumed)",
    "design equality in the run instance: same recorded hash(tuple(vector)) and (same object or Individual.__eq__), i.e. what set() applies; hashes are recorded per individual",
    "compared per case: crowding distance of every member (by id, bit for bit), the set of surviving ids, the winner id; the order in which crowding_distance "
    "leaves the list and the order of the returned survivors are not part of the property and are not compared",
]
ASSUMPTIONS = [
    "cost values are finite non-NaN binary64 floats whose differences do not overflow; all members of a front have the same number of objectives",
    "populations are ranked: features['front_number'] and ['crowding_distance'] are set (the harness runs the real fast_nondominated_sorting first)",
    "individual ids are distinct; a population list does not contain the same object twice",
]
LEVEL_TEXT = ("Machine-checked Coq theorems over an executable model of crowding_distance, nondominated_truncate/nondominated_cmp and "
              "TournamentSelector.select, for all front/population sizes, objective counts and values of any strictly-weakly-ordered cost type: "
              "infinite distance for fronts of <= 2 and for a holder of each objective's minimum and maximum; on tie-free fronts the exact operands "
              "of the interior formula (true for any add/sub/div, hence for binary64 bit for bit); 0 <= finite distance <= m under named arithmetic "
              "premises (proved for Q); truncation returns min(k, #distinct) individuals, each design once, rank-elitist, crowding-ordered in the cut "
              "front, for every set-iteration order, and never keeps an individual dominated by a discarded one when front numbers satisfy the rank "
              "equation; the tournament returns one of the two sampled members, never the worse-ranked nor (equal rank) the dominated one, for every "
              "sample and coin. The binary64 instance of the model is run in Coq on every generated case and compared with the real code exactly.")
LEVEL_NOTE = ("Trusted: Coq kernel + vm_compute; the hand-written model and the Python harness; stable-sort uniqueness; the arithmetic premises of "
              "C03_crowding_bounds are proved for Q and only assumed for binary64; symmetry of Individual equality is a premise of the each-design-once clause. "
              "Front numbers are inputs (their correctness is C02); correspondence is sampled, theorems are unbounded. The model fixes the tie-break among "
              "individuals with equal (front, crowding) keys at the cut (set order + stable sort): a change of that tie-break alone is reported as a "
              "correspondence break without a failing input.")

HEADER = ("From Artap Require Import Run.C03Run.\nFrom Coq Require Import List ZArith Floats.\nImport ListNotations.\n"
          "Open Scope float_scope.\n")

SMALL = [0.0, 1.0, 2.0, 3.0]
GRID = [0.0, 1.0, 2.0, 3.0, 0.5, 1.5, 2.5, -1.0, 0.1, 0.2, 0.3, 0.30000000000000004, 0.7, -0.0, 1e-7, 1234.5678, -7.25]
VGRID = [0.0, 0.5, 1.0, -1.0, 2.5, 0.1]


# boundary populations (cost vectors, indices of members whose design is duplicated at the end)
CORPUS = [
    ([[3.0, 1.0], [0.0, 8.0], [1.0, 4.0], [4.0, 0.0], [2.0, 2.0]], []),                 # tie-free front, the Props example
    ([[1.0, 5.0], [1.0, 5.0], [2.0, 5.0], [2.0, 5.0], [3.0, 5.0]], []),                 # ties + zero-range objective
    ([[2.0, 2.0], [2.0, 2.0], [2.0, 2.0]], [0]),                                         # all equal, one duplicate design
    ([[0.0, 1.0], [-0.0, 1.0], [0.0, 1.0], [1.0, 0.0]], []),                             # signed zeros tie; range 0.0 - -0.0
    ([[0.1, 0.3], [0.2, 0.2], [0.30000000000000004, 0.1], [0.3, 0.15]], [1, 1]),         # adjacent floats, a design three times
    ([[0.0], [1.0], [2.0], [3.0], [4.0]], [4, 0]),                                       # one objective: a chain, five fronts
    ([[0.0, 4.0], [1.0, 3.0], [2.0, 2.0], [3.0, 1.0], [4.0, 0.0], [1.0, 4.0], [2.0, 3.0], [3.0, 2.0], [5.0, 5.0]], [2]),  # three fronts, cut inside
    ([[1e-7, 3.0], [2e-7, 2.0], [3e-7, 1.0], [1.5e-7, 2.5]], []),                        # tiny range
    ([[1.0, 2.0]], []), ([[1.0, 2.0], [2.0, 1.0]], [0, 1]),                              # fronts of one and two
]


# ---------------------------------------------------------------- textbook definitions (independent of the code)
def dominates(p, q):
    """p, q = costs_signed (objectives + [marker]); constrained Pareto dominance, textbook form."""
    pm, qm = abs(p[-1]), abs(q[-1])
    if pm != qm:
        return pm < qm
    a, b = p[:-1], q[:-1]
    return all(x <= y for x, y in zip(a, b)) and any(x < y for x, y in zip(a, b))


def design(x):
    return tuple(x.vector)


def ext(v):
    if isinstance(v, float) and math.isinf(v) and v > 0:
        return "Inf"
    return "(Fin %s)" % fl(v)


# ---------------------------------------------------------------- generators
def gen_costs(rng, n, m):
    """n cost vectors with m objectives, from templates rich in ties / zero ranges / tie-free fronts."""
    t = rng.choice(["grid", "grid", "small", "uniform", "antichain", "antichain", "antichain_u", "antichain_u",
                    "chain", "allequal", "zerorange", "zerorange_u", "scaled"])
    if t == "grid":
        cs = [[rng.choice(GRID) for _ in range(m)] for _ in range(n)]
    elif t == "small":
        cs = [[rng.choice(SMALL) for _ in range(m)] for _ in range(n)]
    elif t == "uniform":
        cs = [[rng.uniform(-10, 10) for _ in range(m)] for _ in range(n)]
    elif t == "antichain":      # grid anti-chain: x ascending, y descending, ties in the further objectives
        xs = sorted(rng.sample(range(0, 4 * n + 4), n))
        cs = [[x / 2.0, (4 * n + 4 - x) / 4.0] + [rng.choice(SMALL) for _ in range(m - 2)] for x in xs]
        cs = [c[:m] for c in cs]
    elif t == "antichain_u":    # tie-free anti-chain with rounding-rich values
        xs = sorted(rng.uniform(0, 5) for _ in range(n))
        ys = sorted((rng.uniform(0, 5) for _ in range(n)), reverse=True)
        cs = [[xs[i], ys[i]] + [rng.uniform(0, 1) for _ in range(m - 2)] for i in range(n)]
        cs = [c[:m] for c in cs]
    elif t == "chain":
        cs = [[float(i) + (0.5 if rng.random() < 0.2 else 0.0)] * m for i in range(n)]
    elif t == "allequal":
        v = [rng.choice(GRID) for _ in range(m)]
        cs = [list(v) for _ in range(n)]
    elif t == "zerorange":
        cs = [[rng.choice(SMALL) for _ in range(m)] for _ in range(n)]
        j = rng.randrange(m)
        for c in cs:
            c[j] = 1.5
    elif t == "zerorange_u":    # anti-chain in the first two objectives, a constant further objective
        xs = sorted(rng.uniform(0, 5) for _ in range(n))
        ys = sorted((rng.uniform(0, 5) for _ in range(n)), reverse=True)
        cs = [[xs[i], ys[i]] + [0.25] * (m - 2) for i in range(n)]
        cs = [c[:m] for c in cs]
    else:                       # scaled magnitudes
        s = rng.choice([1e6, 1e-6, 1e12, 3.0])
        cs = [[rng.choice(GRID) * s + rng.choice([0.0, s / 3.0]) for _ in range(m)] for _ in range(n)]
    rng.shuffle(cs)
    return t, cs


def gen_population(rng, Individual, nmax, SubInd=None):
    """A population with the variations the model must be insensitive to (or follow exactly):
    duplicated designs (identical vector: same or DIFFERENT costs), 0.0/-0.0, other number representations
    of the same vector (int / numpy.float64: equal and hash-equal in Python), near-equal vectors (1e-11
    apart: `==` but not hash-equal, so set() keeps both), distinct vectors with colliding tuple hashes
    (hash(-1.0) == hash(-2.0)), subclasses, states, extra features, costs as float / numpy.float64 / int."""
    import numpy as np
    n = rng.choice([1, 2, 3, 3, 4, 4, 5, 5, 6, 6, 7, 8, 9, 10, 12] + ([16, 20, 25, 30] if nmax > 12 else []))
    n = min(n, nmax)
    m = rng.choice([1, 2, 2, 2, 3, 3, 4])
    template, cs = gen_costs(rng, n, m)
    nv = rng.choice([1, 2, 3])
    p_dup = rng.choice([0.0, 0.0, 0.25, 0.5])
    mixed = rng.random() < 0.2
    cost_repr = rng.choice(["float", "float", "float", "numpy", "int"])
    if cost_repr == "int" and not all(float(v).is_integer() and abs(v) < 2 ** 50 for c in cs for v in c):
        cost_repr = "float"
    collide = rng.random() < 0.2            # first coordinates -1.0, -2.0, ...: hash((-1.0,)+r) == hash((-2.0,)+r)
    kinds = {"dup": 0, "dup_other_costs": 0, "near_equal": 0, "other_repr": 0, "hash_collision": int(collide and n >= 2)}

    def conv(v):
        return np.float64(v) if cost_repr == "numpy" else (int(v) if cost_repr == "int" else v)

    pop = []
    for i in range(n):
        cls = SubInd if (SubInd is not None and rng.random() < 0.2) else Individual
        own_costs = [conv(v) for v in cs[i]] + [rng.choice([True, 1]) if (mixed and rng.random() < 0.4) else rng.choice([False, False, 0])]
        if pop and rng.random() < p_dup:
            src = rng.choice(pop)
            vec = list(src.vector)
            r = rng.random()
            if r < 0.2:                                  # 0.0 / -0.0 : equal and hash-equal in Python
                vec = [(-v if v == 0.0 else v) for v in vec]
            elif r < 0.4:                                # another representation of the same numbers
                vec = [(int(v) if float(v).is_integer() and rng.random() < 0.5 else np.float64(v)) for v in vec]
                kinds["other_repr"] += 1
            elif r < 0.55:                               # near-equal: == within 1e-10, but a different hash
                j = rng.randrange(len(vec))
                vec[j] = float(vec[j]) + rng.choice([1e-11, -1e-11, 5e-11])
                kinds["near_equal"] += 1
            ind = cls(vec)
            if rng.random() < 0.3:                       # the same design evaluated to different costs
                ind.costs_signed = own_costs
                kinds["dup_other_costs"] += 1
            else:
                ind.costs_signed = list(src.costs_signed)
            kinds["dup"] += 1
        else:
            first = -float(i + 1) if collide else float(i)
            ind = cls([first] + [rng.choice(VGRID) for _ in range(nv - 1)])
            ind.costs_signed = own_costs
        ind.costs = list(ind.costs_signed[:-1])
        ind.features["feasible"] = not ind.costs_signed[-1]
        ind.state = rng.choice(list(Individual.State))
        if rng.random() < 0.2:
            ind.features["note"] = rng.random()
        pop.append(ind)
    return template, m, pop, kinds


# ---------------------------------------------------------------- the direct oracle (property clauses on the implementation's output)
def oracle_crowding(ctx, before, after, m):
    """before: [(cid, costs)] as passed in; after: [(cid, costs, cd)] as left by crowding_distance."""
    inp = {"front": [{"id": i, "costs": c} for i, c in before],
           "after": [{"id": i, "crowding_distance": d} for i, _, d in after]}

    def fail(what, kind):
        ctx.oracle_failures.append({"what": what, "input": inp, "match": {"kind": kind}})

    n = len(before)
    if sorted(i for i, _ in before) != sorted(i for i, _, _ in after):
        fail("crowding_distance changed the membership of the front", "crowding_members")
        return
    if n <= 2:
        if not all(d == math.inf for _, _, d in after):
            fail("front of %d member(s) does not get infinite crowding distance" % n, "crowding_small")
        return
    tie_free = all(len(set(c[d] for _, c in before)) == n for d in range(m))
    for d in range(m):
        lo = min(c[d] for _, c in before)
        hi = max(c[d] for _, c in before)
        if not any(c[d] == lo and cd == math.inf for _, c, cd in after):
            fail("no holder of the minimum of objective %d has infinite crowding distance" % d, "crowding_extreme_min")
        if not any(c[d] == hi and cd == math.inf for _, c, cd in after):
            fail("no holder of the maximum of objective %d has infinite crowding distance" % d, "crowding_extreme_max")
    for i, c, cd in after:
        if cd != cd:
            fail("crowding distance of %d is NaN" % i, "crowding_nan")
            continue
        if cd != math.inf and not (0.0 <= cd <= m * (1 + 1e-12)):
            fail("finite crowding distance %r of individual %d outside [0, %d]" % (cd, i, m), "crowding_bounds")
    if tie_free:
        for i, c, cd in after:
            extreme = False
            total = 0.0
            for d in range(m):
                vals = sorted(x[d] for _, x in before)
                if c[d] == vals[0] or c[d] == vals[-1]:
                    extreme = True
                    break
                pos = vals.index(c[d])
                total += (vals[pos + 1] - vals[pos - 1]) / (vals[-1] - vals[0])
            if extreme:
                if cd != math.inf:
                    fail("extreme solution %d of a tie-free front has finite crowding distance %r" % (i, cd), "crowding_extreme_tiefree")
            elif cd == math.inf or not math.isclose(cd, total, rel_tol=1e-9, abs_tol=1e-12):
                fail("interior solution %d: crowding distance %r, sum of normalised neighbour gaps %r" % (i, cd, total), "crowding_interior")
    return tie_free


def oracle_truncate(ctx, pop, cid, k, res):
    inp = {"population": [{"id": cid[id(x)], "vector": x.vector, "costs_signed": [float(v) for v in x.costs_signed],
                           "front_number": x.features["front_number"], "crowding_distance": x.features["crowding_distance"]} for x in pop],
           "size": k, "returned_ids": [cid.get(id(x), -1) for x in res]}

    def fail(what, kind):
        ctx.oracle_failures.append({"what": what, "input": inp, "match": {"kind": kind}})

    designs = set(design(x) for x in pop)
    if any(not any(x is y for y in pop) for x in res):
        fail("truncation returned an object that is not in the population it was given", "truncate_member")
        return
    if len(res) != min(k, len(designs)):
        fail("truncation to %d of %d distinct designs returned %d individuals" % (k, len(designs), len(res)), "truncate_length")
    kept = [design(x) for x in res]
    if len(set(kept)) != len(kept):
        fail("a design survives more than once", "truncate_duplicate")
    keptset = set(kept)
    discarded = [x for x in pop if design(x) not in keptset]
    # a discarded DESIGN may be carried by several individuals (normally with identical costs and front numbers; the
    # generators also evaluate one design to different costs): the clause is applied in its weakest reading - a survivor
    # is worse-ranked than / dominated by the design only if that holds against every individual carrying it
    groups = {}
    for d in discarded:
        groups.setdefault(design(d), []).append(d)
    for s in res:
        for g in groups.values():
            if all(s.features["front_number"] > d.features["front_number"] for d in g):
                d = g[0]
                fail("survivor %d (front %d) has a worse front number than the discarded design of %d (front %d)"
                     % (cid[id(s)], s.features["front_number"], cid[id(d)], d.features["front_number"]), "truncate_rank")
                return
            if all(dominates(d.costs_signed, s.costs_signed) for d in g):
                d = g[0]
                fail("survivor %d is dominated by the discarded design of %d" % (cid[id(s)], cid[id(d)]), "truncate_dominated")
                return
    if len(designs) == len(pop) and res:
        cut = max(x.features["front_number"] for x in res)
        for s in res:
            for d in discarded:
                if s.features["front_number"] == cut == d.features["front_number"] and \
                        d.features["crowding_distance"] > s.features["crowding_distance"]:
                    fail("in the cut front %d the discarded %d has a larger crowding distance (%r) than the kept %d (%r)"
                         % (cut, cid[id(d)], d.features["crowding_distance"], cid[id(s)], s.features["crowding_distance"]), "truncate_crowding")
                    return


def oracle_tournament(ctx, pop, cid, picks, w):
    inp = {"population": [{"id": cid[id(x)], "costs_signed": [float(v) for v in x.costs_signed],
                           "front_number": x.features["front_number"]} for x in pop],
           "sampled_positions": picks, "winner_id": cid.get(id(w), -1)}

    def fail(what, kind):
        ctx.oracle_failures.append({"what": what, "input": inp, "match": {"kind": kind}})

    if not any(w is y for y in pop):
        fail("tournament returned an object that is not in the population it was given", "tournament_member")
        return
    if picks is None:
        return
    c = [pop[i] for i in picks]
    if not any(w is x for x in c):
        fail("tournament winner is not one of the two sampled candidates", "tournament_candidate")
        return
    for loser in c:
        if loser is w:
            continue
        if w.features["front_number"] > loser.features["front_number"]:
            fail("tournament returned the candidate with the worse front number", "tournament_rank")
        elif w.features["front_number"] == loser.features["front_number"] and dominates(loser.costs_signed, w.costs_signed):
            fail("tournament returned the dominated candidate at equal front number", "tournament_dominated")


# ---------------------------------------------------------------- recording stand-ins
class RandomTape:
    """Stands in for the `random` module inside artap.operators: draws from the check's PRNG and records."""

    def __init__(self, rng):
        import random as _r
        self._real = _r
        self.rng = rng
        self.samples = []
        self.choices = []

    def __getattr__(self, name):
        return getattr(self._real, name)

    def sample(self, population, k):
        idx = self.rng.sample(range(len(population)), k)       # ValueError when k > len, as the real one
        self.samples.append(idx)
        return [population[i] for i in idx]

    def choice(self, seq):
        i = self.rng.randrange(len(seq))
        self.choices.append(i)
        return seq[i]


def enc_ind(x, cid):
    return ("{| c3id := %s; c3vec := %s; c3hash := %s; c3cost := %s; c3mark := %s; c3front := %s; c3cd := %s |}"
            % (nl(cid[id(x)]), ll(x.vector, fl), zl(hash(x)), ll(x.costs_signed[:-1], fl), zl(int(x.costs_signed[-1])),
               nl(x.features["front_number"]), ext(x.features["crowding_distance"])))


def run(ctx):
    import artap.operators as ops
    from artap.individual import Individual
    rng = ctx.rng
    n_pops = ctx.pick(240, 5000)
    nmax = ctx.pick(12, 30)
    cases, expected, meta = [], [], []
    stats = {"populations": 0, "crowding_calls": 0, "fronts_ge3": 0, "tie_free_fronts_ge3": 0, "fronts_with_ties": 0,
             "interior_finite_values": 0, "zero_range_objectives": 0, "crowding_calls_with_stale_distances": 0,
             "truncate_cases": 0, "truncate_with_duplicates": 0, "truncate_cut_inside_front": 0, "truncate_k_ge_distinct": 0,
             "truncate_on_reused_list_object": 0, "tournament_cases": 0, "tournament_by_rank": 0, "tournament_by_dominance": 0,
             "tournament_by_coin": 0, "tournament_single": 0, "tournament_merged_populations": 0,
             "populations_with_colliding_ids": 0, "populations_with_hash_collisions": 0, "duplicates": 0,
             "duplicates_with_other_costs": 0, "near_equal_vectors": 0, "other_number_representation": 0,
             "templates": {}, "pop_size_hist": {}, "objective_count_hist": {}}

    class SubInd(Individual):                       # a subclass with its own features, as the algorithms define them
        def add_features(self):
            self.features["crowding_distance"] = 0
            self.features["front_number"] = None

    # ONE selector object for the whole stream, as the algorithms keep it
    selector = ops.TournamentSelector([])
    real_cd = ops.crowding_distance
    real_random = ops.random
    cid = {}
    calls = []

    def rec_cd(front):
        before = [(cid[id(x)], [float(v) for v in x.costs_signed[:-1]]) for x in front]
        stale = any(x.features.get("crowding_distance") not in (0, 0.0, None) for x in front)
        real_cd(front)
        after = [(cid[id(x)], [float(v) for v in x.costs_signed[:-1]], x.features.get("crowding_distance")) for x in front]
        calls.append((before, after, stale))

    class RecSet(set):
        order = None

        def __iter__(self):
            o = list(set.__iter__(self))
            RecSet.order = o
            return iter(o)

    def add_crowding(before, after, stale):
        if not before:
            return
        m = len(before[0][1])
        cases.append("CCrowd %s" % ll([pl(nl(i), ll(c, fl)) for i, c in before]))
        expected.append("OCrowd %s" % ll([pl(nl(i), ext(d)) for i, _, d in sorted(after, key=lambda t: t[0])]))
        meta.append({"op": "crowding_distance", "front": before, "after": [(i, d) for i, _, d in after]})
        tf = oracle_crowding(ctx, before, after, m)
        n = len(before)
        stats["crowding_calls"] += 1
        stats["crowding_calls_with_stale_distances"] += int(stale)
        if n >= 3:
            stats["fronts_ge3"] += 1
            stats["tie_free_fronts_ge3" if tf else "fronts_with_ties"] += 1
            stats["interior_finite_values"] += sum(1 for _, _, d in after if d != math.inf)
            stats["zero_range_objectives"] += sum(1 for d in range(m) if len(set(c[d] for _, c in before)) == 1)
        ctx.count(("cd", tuple((i, tuple(c)) for i, c in before)), nontrivial=(n >= 3))
        if n >= 4 and tf and len(ctx.samples) < 2:
            ctx.sample(meta[-1])

    def flush_calls():
        for before, after, stale in calls:
            add_crowding(before, after, stale)
        del calls[:]

    def features_of(pop):
        return [(x.features["front_number"], x.features["crowding_distance"]) for x in pop]

    def set_features(pop, feats):
        for x, (fn, cd) in zip(pop, feats):
            x.features["front_number"], x.features["crowding_distance"] = fn, cd

    def populations():
        for costs, dups in CORPUS:          # boundary cases read off the code, always run first
            pop = []
            for i, c in enumerate(costs):
                ind = Individual([float(i), 0.5])
                ind.costs_signed = list(c) + [False]
                pop.append(ind)
            for src in dups:                # duplicated designs: same vector, same costs, new object
                ind = Individual(list(pop[src].vector))
                ind.costs_signed = list(pop[src].costs_signed)
                pop.append(ind)
            for ind in pop:
                ind.costs = list(ind.costs_signed[:-1])
                ind.features["feasible"] = True
            yield "corpus", len(costs[0]), pop, {"dup": len(dups)}
        for _ in range(n_pops):
            yield gen_population(rng, Individual, nmax, SubInd)

    try:
        ops.crowding_distance = rec_cd
        for template, m, pop, kinds in populations():
            cid.clear()
            for i, x in enumerate(pop):
                cid[id(x)] = i
            n = len(pop)
            stats["populations"] += 1
            stats["templates"][template] = stats["templates"].get(template, 0) + 1
            stats["pop_size_hist"][n] = stats["pop_size_hist"].get(n, 0) + 1
            stats["objective_count_hist"][m] = stats["objective_count_hist"].get(m, 0) + 1
            stats["populations_with_hash_collisions"] += kinds.get("hash_collision", 0)
            stats["duplicates"] += kinds.get("dup", 0)
            stats["duplicates_with_other_costs"] += kinds.get("dup_other_costs", 0)
            stats["near_equal_vectors"] += kinds.get("near_equal", 0)
            stats["other_number_representation"] += kinds.get("other_repr", 0)

            # 1. rank with the real sorter (it calls crowding_distance once per front)
            del calls[:]
            selector.fast_nondominated_sorting(pop)
            flush_calls()
            if any(x.features.get("front_number") is None for x in pop):
                ctx.mismatches.append({"what": "the sorter left an individual unranked (C02 territory); population skipped"})
                continue
            ranked = features_of(pop)
            # in a third of the populations the tournaments see a MERGED population whose halves were ranked separately
            # by the real sorter: equal front numbers then no longer exclude dominance, which is what the comparator
            # branch of select() is for (on a consistently ranked population that branch is dead code)
            merged = None
            if n >= 4 and rng.random() < 0.34:
                half = n // 2
                selector.fast_nondominated_sorting(pop[:half])
                selector.fast_nondominated_sorting(pop[half:])
                flush_calls()
                merged = features_of(pop)
                set_features(pop, ranked)
                stats["tournament_merged_populations"] += 1
            # the sorter is done with this population: from here on nothing may depend on Individual.id, so in a third
            # of the populations the ids collide (as after from_dict / a second interpreter)
            if rng.random() < 0.33:
                for x in pop:
                    x.id = rng.choice([0, 7])
                stats["populations_with_colliding_ids"] += 1

            # 2. truncation, every size 1..n+2 (a sample of them for larger populations); the SAME list object is passed
            #    again and again, shuffled in place in between
            ndesigns = len(set(design(x) for x in pop))
            ks = list(range(1, n + 3))
            if len(ks) > 7:
                ks = sorted(set(rng.sample(ks, 5) + [1, ndesigns, n + 2]))
            rng.shuffle(ks)
            if n >= 2:                      # sizes asked again on the same list object after a member was removed in place
                ks = ks + [("drop", ks[0]), ("drop", rng.choice(ks))]
            inp = list(pop)
            for turn, k in enumerate(ks):
                if isinstance(k, tuple):
                    k = k[1]
                    if len(inp) > 1:
                        del inp[rng.randrange(len(inp))]
                elif rng.random() < 0.6:
                    rng.shuffle(inp)
                enc_pop = ll([enc_ind(x, cid) for x in inp])          # what the implementation is given
                snapshot = list(inp)
                RecSet.order = None
                ops.set = RecSet
                try:
                    res = ops.nondominated_truncate(inp, k)
                finally:
                    del ops.set
                order = RecSet.order if RecSet.order is not None else list(set(snapshot))
                cases.append("CTrunc %s %s %s" % (enc_pop, ll([cid[id(x)] for x in order], nl), nl(k)))
                expected.append("OIds %s" % ll(sorted(cid.get(id(x), 999999) for x in res), nl))
                meta.append({"op": "nondominated_truncate", "size": k,
                             "population": [{"id": cid[id(x)], "vector": [float(v) for v in x.vector],
                                             "costs_signed": [float(v) for v in x.costs_signed],
                                             "front": x.features["front_number"], "cd": x.features["crowding_distance"]} for x in snapshot],
                             "set_order": [cid[id(x)] for x in order], "returned": [cid.get(id(x), -1) for x in res]})
                oracle_truncate(ctx, snapshot, cid, k, res)
                stats["truncate_cases"] += 1
                stats["truncate_on_reused_list_object"] += int(turn > 0)
                nd_now = len(set(design(x) for x in snapshot))
                if nd_now < len(snapshot):
                    stats["truncate_with_duplicates"] += 1
                if k >= nd_now:
                    stats["truncate_k_ge_distinct"] += 1
                elif res:
                    cut = max(x.features["front_number"] for x in res)
                    if any(x.features["front_number"] == cut and not any(x is r for r in res) for x in order):
                        stats["truncate_cut_inside_front"] += 1
                ctx.count(("tr", k, tuple((cid[id(x)], x.features["front_number"]) for x in snapshot)), nontrivial=(n >= 2))
                if n >= 5 and 1 < k < n and ndesigns < n and len(ctx.samples) < 3:
                    ctx.sample(meta[-1])
                if len(inp) != len(snapshot) or any(a is not b for a, b in zip(inp, snapshot)):
                    inp[:] = snapshot             # the call modified its argument: keep the stream going on a sane list

            # 3. binary tournaments (same selector, same list object shuffled in place)
            if merged is not None:
                set_features(pop, merged)
            tape = RandomTape(rng)
            ops.random = tape
            try:
                inp = list(pop)
                for _t in range((min(4 * n, 16) if merged is not None else min(2 * n, 8)) if n > 1 else 1):
                    r = rng.random()
                    if r < 0.6:
                        rng.shuffle(inp)
                    elif r < 0.75 and len(inp) > 1:
                        del inp[rng.randrange(len(inp))]          # same list object, one member fewer
                    elif r < 0.8 and len(inp) < n:
                        inp[:] = pop
                    enc_pop = ll([enc_ind(x, cid) for x in inp])
                    snapshot = list(inp)
                    tape.samples, tape.choices = [], []
                    w = selector.select(inp)
                    smp = tape.samples[0] if tape.samples else None
                    coin = tape.choices[0] if tape.choices else None
                    extra = len(tape.samples) > 1 or len(tape.choices) > 1 or (smp is not None and len(smp) != 2)
                    cases.append("CTour %s %s %s" % (enc_pop, optl(smp if not extra else None, lambda s: pl(nl(s[0]), nl(s[1]))), optl(coin, nl)))
                    expected.append("OWin %s" % nl(cid.get(id(w), 999999)))
                    meta.append({"op": "tournament", "population": [{"id": cid[id(x)], "costs_signed": [float(v) for v in x.costs_signed],
                                                                     "front": x.features["front_number"]} for x in snapshot],
                                 "sample": smp, "choice": coin, "winner": cid.get(id(w), -1)})
                    oracle_tournament(ctx, snapshot, cid, smp if (smp is not None and len(smp) == 2) else None, w)
                    stats["tournament_cases"] += 1
                    if smp is None:
                        stats["tournament_single"] += 1
                    elif coin is not None:
                        stats["tournament_by_coin"] += 1
                    elif snapshot[smp[0]].features["front_number"] != snapshot[smp[1]].features["front_number"]:
                        stats["tournament_by_rank"] += 1
                    else:
                        stats["tournament_by_dominance"] += 1
                    ctx.count(("to", tuple(cid[id(x)] for x in snapshot), tuple(smp or ()), coin,
                               tuple(tuple(float(v) for v in x.costs_signed) for x in pop)), nontrivial=(n >= 2))
                    if smp is not None and coin is None and len(ctx.samples) < 4 and \
                            snapshot[smp[0]].features["front_number"] == snapshot[smp[1]].features["front_number"]:
                        ctx.sample(meta[-1])
                    if len(inp) != len(snapshot) or any(a is not b for a, b in zip(inp, snapshot)):
                        inp[:] = snapshot
            finally:
                ops.random = real_random
            set_features(pop, ranked)

            # 4. crowding_distance called directly on arbitrary sub-lists (dominated members, ties, any order, distances
            #    left over from the earlier sorts), twice on the same list object
            for _d in range(2):
                sub = [x for x in pop if rng.random() < 0.8]
                rng.shuffle(sub)
                if not sub:
                    continue
                ops.crowding_distance(sub)
                if rng.random() < 0.5:
                    ops.crowding_distance(sub)
                flush_calls()
    finally:
        ops.crowding_distance = real_cd
        ops.random = real_random
        if "set" in ops.__dict__:
            del ops.set

    ctx.coq_compare("c03", HEADER, "c03_case", "c03_obs", "c03_run", "c03_obs_eqb", cases, expected, meta, shard=400)
    ctx.rule = ("populations of 1..%d individuals with 1..4 objectives from templates (value grids with ties, anti-chains, chains, all-equal, "
                "zero-range objectives, tie-free uniform values, scaled magnitudes); duplicated designs (identical vector with the same or with "
                "different costs, 0.0/-0.0, int / numpy.float64 representations), near-equal vectors (1e-11), distinct vectors with colliding "
                "hashes, subclasses, states, colliding Individual.id, costs as float / numpy.float64 / int, mixed feasibility markers; one "
                "long-lived selector object; ranked by the real fast_nondominated_sorting; every crowding_distance call (per front, on separately "
                "ranked halves, and direct calls on arbitrary sub-lists carrying stale distances), nondominated_truncate for sizes 1..n+2 on one "
                "re-used list object shuffled in place with the observed set() order as oracle, TournamentSelector.select with recorded "
                "random.sample/random.choice. Non-trivial: fronts of >= 3 members, populations of >= 2; distinct = distinct (operation, inputs)") % nmax
    ctx.extra.update({"case_kinds": stats})
