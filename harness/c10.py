"""C10 - SQLite store round trip, one row per id, last wins: correspondence with Model/Store.v and direct oracle.

Two basic streams (the red-team rounds below added more: three ctx.coq_compare calls, c10h histories, c10r recorded
runs, c10b large histories), all through the public entry points (SqliteDataStore constructor, sync_individual, sync_all,
ProblemViewDataStore on the file):

  histories   generated / corpus sequences of sync_individual / sync_all calls over individuals built from a
              *description* (tagged JSON, see `build`), with repeated ids, +-inf, -0.0, 5e-324, random bit patterns,
              numpy float64 scalars and arrays, tuples, nested custom data, None features, Individuals inside
              features / parents / children.  The model's input is derived from the description, never from
              artap's own to_dict.
  runs        complete short runs of every algorithm that synchronises; the store calls are recorded by a
              harness-side wrapper (data of the individual at the moment of the call) and become a history for
              the model; the direct oracle is the last clause of the property.

Compared with the model (Run/C10Run.v): problem name / description / parameters / costs, and per row id the
eleven fields id, vector, costs, costs_signed, state, population_id, algorithm_id, custom, features (as
Individual.from_dict restores them in the view) plus parents / children of the raw row; rows as a map id ->
fields, and the raw row count.  Floats are compared by their 64-bit pattern; objects with keys sorted (key
order is not part of the property).

Red-team round 2 (a store that post-processes the JSON TEXT): string values and keys that are JSON tokens ("Infinity",
"-Infinity", "NaN", "null", "true", "1e999"), look like numbers ("0x10", "-0", "1e5"), contain JSON fragments, quotes,
backslashes, "\u0041" spelled out, SQL, NUL and other control characters, CR LF, U+2028/2029, lone surrogates, U+FFFF, BOM,
combining marks, a 2.4 kB string - in custom data (values, keys, nested lists / tuples / objects, next to REAL +-inf),
feature keys, algorithm ids, string values of parameter / cost descriptions, problem name / description: corpus case 17,
a directed stream (`gen_history(strings=True)`) and, thinner, every other history.  Non-empty strings as feature VALUES stay
outside (the unchanged Individual.to_dict recurses without end on them).  Compared exactly (Python str equality in the
oracle; in Coq as opaque strings, NUL / surrogates renamed injectively by `lit`).

Red-team round 3: (a) recorded populations of 255..2049 (thorough 4097) tiny individuals, counts on both sides of powers of two and
round block sizes, sync_all alone and after sync_individual + in-place change (`big_history`): every row compared by the direct
oracle; in Coq the proved closed form (one row per distinct id, row = image of the last synchronisation: Run/C10Run.v c10_big_run,
c10_big_sound) on the row count and sampled ids.  (b) sync_individual of an existing and of a new id while a second connection
(same process, real sqlite3) holds BEGIN EXCLUSIVE until the store has been refused 3..10 times in a row or has returned
(`gen_lock_history`): after the release the view must show the synchronised data.

Red-team round 4: several stores in ONE process with artap's own ids (`multi_store_case`): an older store B, a run into store A, B or
A read through a view / a read-mode / a write-mode store, the run on A continued: the ids of the recorded individuals stay unique
(reading a store never moves Individual.counter backwards) and every recorded individual has its own row with its own data.

Red-team round 6 (a column whose declared type gives it NUMERIC affinity, a reader that "tidies" values): TEXT THAT LOOKS LIKE A NUMBER
wherever the store keeps text ('2024', '007', '1e3', '3.50', '-0', ' 12 ', '0x10', 'inf', 'nan', '1_000', '+1', '.5', 2^63, non-ASCII
digits ...): problem name and description, parameter and cost names - also several names of ONE problem that are equal as numbers and
different as text ('1', '01', '1.0', '1e0': the store must still be created and give them back in order) -, string values and keys of
parameter / cost descriptions, custom data (values and keys, next to the real numbers they spell), feature keys, algorithm ids: corpus
cases 18-20 and the stream `gen_history(numeric=True)`.  The name read back must be the same str (type and spelling).
"""
import gc
import json
import os
import struct
import sys
import time
import zlib

from harness.core import ll, pl

PROP = "C10"
THEOREMS = {"Artap.Props.C10": [
    "C10_from_to_dict", "C10_replace_id_spec", "C10_upsert_one_row_last_wins", "C10_row_count",
    "C10_view_returns_last_sync", "C10_run_store_complete", "C10_problem_meta_roundtrip", "C10_reload_resync", "C10_jv_eqb_eq"]}
AXIOMS_OK = []          # closed under the global context
# second tie to the code (tools/py2coq.py + front-end tools/py2coq_eff.py + coq/theories/GenProofs): on every run the source of
# SqliteDataStore.sync_individual / sync_all is translated (execute / commit / the retry on sqlite3.OperationalError as effects
# with outcomes, in order) and proved to have the control structure of the models (one upsert per individual in order, one commit).
# What GenProofs/StoreEquiv.v proves: the generated functions equal sync_spec / sync_all_spec (specifications in the source's shape,
# defined in StoreEquiv.v itself, for ALL answers of execute / commit / the recursive call), and - when every statement is accepted -
# their completed statements are Model/Crash.v resync / sync_all_steps.  No theorem links them to Model/Store.v (upsert, to_dict):
# the content of the row and the SQL text stay with the sampled correspondence.
from harness.core import translated_specs
TRANSLATED = translated_specs("StoreGen")
TRUSTED = [
    "Coq 8.16.1 kernel, vm_compute for model evaluation (no native_compute)",
    "hand-written model Model/Store.v tied to datastore.py / individual.py / problem.py by this correspondence run",
    "json.loads(json.dumps(t)) = t on JSON-able trees (numbers are opaque tokens in the model): assumed, exercised on every case "
    "with floats compared by bit pattern (float.hex)",
    "SQLite: INSERT .. ON CONFLICT(id) DO UPDATE and SELECT behave as the association-list upsert / listing of the model: assumed, "
    "exercised on every case against a real database file",
    "a run is modelled as an arbitrary history followed by sync_all over problem.individuals (what every synchronising algorithm "
    "ends with); that nothing changes an individual after that call is checked by the direct oracle on complete runs",
]
ASSUMPTIONS = [
    "values are JSON-able: str keys, finite or infinite (non-NaN) floats, Python ints within SQLite's 64-bit range as ids; strings are "
    "arbitrary sequences of code points (NUL, control characters, lone surrogates included) wherever they travel inside JSON text, "
    "and without NUL / surrogates where they are bound as an SQL text column (problem name, description, parameter / cost names)",
    "feature / parent / child values are numbers, booleans, None, Individuals and (nested) lists, tuples, numpy arrays of them, or an "
    "empty dict; a non-empty string or dict there makes Individual._replace_individual_id recurse without end (not written by the "
    "framework's algorithms, outside the model)",
    "a second writing session on a file is modelled and exercised (re-opening a file in write mode reloads individuals whose state "
    "is a string and whose parents/children are empty: Model/Store.v Loaded / loaded_of_row, theorem C10_reload_resync, the re-open "
    "histories); synchronising a reloaded individual again keeps the fields the property names, writes state null and drops parent / child ids",
    "parameter / cost names are strings",
    "a lock held by another connection is eventually released (after 3..10 refusals of the store's write in the lock histories); a file "
    "that stays locked for ever makes sync_individual recurse until RecursionError (outside the property)",
]

HEADER = ("From Artap Require Import Run.C10Run.\nFrom Coq Require Import List ZArith String.\nImport ListNotations.\n"
          "Open Scope Z_scope.\nOpen Scope string_scope.\nOpen Scope list_scope.\n"
          "Definition F (b : Z) := JNum (NFlt b).\nDefinition N (z : Z) := JNum (NInt z).\n"
          "Definition PF (b : Z) := PNum (NFlt b).\nDefinition PN (z : Z) := PNum (NInt z).\n")

STATES = ["empty", "in_progress", "evaluated", "failed"]
STATE_CTOR = {"empty": "Empty", "in_progress": "InProgress", "evaluated": "Evaluated", "failed": "Failed", "loaded": "Loaded"}
PROPERTY_FIELDS = ["vector", "costs", "costs_signed", "population_id", "custom", "features"]


# --------------------------------------------------------------------------------------------------
# descriptions: None / bool / int / str as themselves, {"f": hex} python float, {"nf": hex} numpy float64,
# {"ni": n} numpy int64 scalar, {"nb": b} numpy bool_ scalar (stored as the JSON integer / boolean of the same value:
# datastore._json_default, fix F12), list, {"t": [...]} tuple, {"a": [hex, ...]} 1-d numpy float64 array,
# {"ai": [n, ...]} 1-d numpy int64 array, {"d": [[key, value], ...]} dict,
# {"ind": id} an Individual (only inside features / parents / children)
# --------------------------------------------------------------------------------------------------
def fbits(h):
    return struct.unpack("<Q", struct.pack("<d", float.fromhex(h)))[0]


_STR = {}          # strings interned as definitions of the generated header (a string literal is costly to elaborate)


def unwritable(c):
    return c in "\x00\x02" or 0xD800 <= ord(c) <= 0xDFFF


def lit(s):
    """Coq string literal (bytes are taken raw; control characters, CR, U+2028 etc. included).  NUL and lone surrogates cannot
    be written into the UTF-8 source file: such a string is renamed injectively (strings are opaque to the model: only
    equality and the order of the keys, which is fixed on the Python side, matter; no generated string starts with the marker)"""
    if any(unwritable(c) for c in s):
        s = "\x02esc:" + "".join("\x02%04x;" % ord(c) if unwritable(c) else c for c in s)
    return '"%s"' % s.replace('"', '""')


def sl(s):
    if len(s) < 2:
        return lit(s)
    if s not in _STR:
        _STR[s] = "str_%d" % len(_STR)
    return _STR[s]


def header():
    return HEADER + "".join("Definition %s := %s.\n" % (n, lit(s)) for s, n in _STR.items())


def zl(n):
    return "(%d)" % n if n < 0 else "%d" % n


def enc_jv(v):
    """description (or plain JSON value read back) -> Coq term of type jv; objects with keys sorted"""
    if v is None:
        return "JNull"
    if isinstance(v, bool):
        return "(JBool %s)" % ("true" if v else "false")
    if isinstance(v, int):
        return "(N %s)" % zl(v)
    if isinstance(v, str):
        return "(JStr %s)" % sl(v)
    if isinstance(v, list):
        return "(JArr %s)" % ll(v, enc_jv)
    if "f" in v or "nf" in v:
        return "(F %d)" % fbits(v.get("f", v.get("nf")))
    if "ni" in v:
        return "(N %s)" % zl(v["ni"])
    if "nb" in v:
        return "(JBool %s)" % ("true" if v["nb"] else "false")
    if "t" in v:
        return "(JArr %s)" % ll(v["t"], enc_jv)
    if "a" in v:
        return "(JArr %s)" % ll(v["a"], lambda h: "(F %d)" % fbits(h))
    if "ai" in v:
        return "(JArr %s)" % ll(v["ai"], lambda n: "(N %s)" % zl(n))
    if "d" in v:
        return "(JObj %s)" % ll(sorted(v["d"], key=lambda kv: kv[0]), lambda kv: pl(sl(kv[0]), enc_jv(kv[1])))
    raise ValueError("not a JSON-able description: %r" % (v,))


def enc_pv(v):
    """description -> Coq term of type pv (a value found in features / parents / children before to_dict)"""
    if v is None:
        return "PNull"
    if isinstance(v, bool):
        return "(PBool %s)" % ("true" if v else "false")
    if isinstance(v, int):
        return "(PN %s)" % zl(v)
    if isinstance(v, list):
        return "(PSeq %s)" % ll(v, enc_pv)
    if isinstance(v, dict):
        if "f" in v or "nf" in v:
            return "(PF %d)" % fbits(v.get("f", v.get("nf")))
        if "ni" in v:
            return "(PN %s)" % zl(v["ni"])
        if "nb" in v:
            return "(PBool %s)" % ("true" if v["nb"] else "false")
        if "ind" in v:
            return "(PInd %s)" % zl(v["ind"])
        if "t" in v:
            return "(PSeq %s)" % ll(v["t"], enc_pv)
        if "a" in v:
            return "(PSeq %s)" % ll(v["a"], lambda h: "(PF %d)" % fbits(h))
        if "ai" in v:
            return "(PSeq %s)" % ll(v["ai"], lambda n: "(PN %s)" % zl(n))
        if "d" in v and not v["d"]:
            return "(PSeq [])"
    raise ValueError("outside the model: feature value %r" % (v,))


def enc_ind(d):
    feats = sorted(d["features"], key=lambda kv: kv[0])
    return ("{| i_id := %s; i_vector := %s; i_costs := %s; i_costs_signed := %s; i_state := %s; i_population_id := %s; "
            "i_algorithm_id := %s; i_custom := %s; i_features := %s; i_parents := %s; i_children := %s |}") % (
        zl(d["id"]), ll(seq_items(d["vector"]), enc_jv), ll(seq_items(d["costs"]), enc_jv), enc_jv(d["costs_signed"]),
        STATE_CTOR[d["state"]], enc_jv(d["population_id"]), enc_jv(d["algorithm_id"]), enc_jv(d["custom"]),
        ll(feats, lambda kv: pl(sl(kv[0]), enc_pv(kv[1]))), ll(d["parents"], enc_pv), ll(d["children"], enc_pv))


def seq_items(v):
    """items of a vector / costs description (list, tuple or array) as descriptions"""
    if isinstance(v, list):
        return v
    if "t" in v:
        return v["t"]
    if "a" in v:
        return [{"nf": h} for h in v["a"]]
    if "ai" in v:
        return [{"ni": n} for n in v["ai"]]
    raise ValueError("not a sequence description: %r" % (v,))


def enc_case(case):
    # an image that occurs more than once in the history (e.g. in the final sync_all) is bound once by a let
    texts, uses = {}, {}
    for op in case["ops"]:
        for d in ([op["ind"]] if op["op"] == "sync" else op["inds"]):
            t = texts.setdefault(id(d), enc_ind(d))
            uses[t] = uses.get(t, 0) + 1
    names = {t: "i%d" % k for k, t in enumerate(t for t, n in uses.items() if n > 1)}
    ref = lambda d: names.get(texts[id(d)], texts[id(d)])
    ops = []
    for op in case["ops"]:
        if op["op"] == "sync":
            ops.append("OSync %s" % ref(op["ind"]))
        else:
            ops.append("OSyncAll %s" % ll(op["inds"], ref))
    body = "{| k_name := %s; k_description := %s; k_params := %s; k_costs := %s; k_ops := %s |}" % (
        sl(case["name"]), sl(case["description"]), ll(case["params"], enc_jv), ll(case["costs"], enc_jv), ll(ops))
    return "".join("let %s := %s in\n   " % (n, t) for t, n in names.items()) + body


def canon(v):
    """what the property promises to read back for a described value: individuals as ids, every sequence a list,
    floats by bit pattern, objects as key-sorted maps"""
    if v is None:
        return ("null",)
    if isinstance(v, bool):
        return ("bool", v)
    if isinstance(v, int):
        return ("int", v)
    if isinstance(v, str):
        return ("str", v)
    if isinstance(v, list):
        return ("list", tuple(canon(x) for x in v))
    if "f" in v or "nf" in v:
        return ("float", float.fromhex(v.get("f", v.get("nf"))).hex())
    if "ni" in v:
        return ("int", v["ni"])
    if "nb" in v:
        return ("bool", v["nb"])
    if "ind" in v:
        return ("int", v["ind"])
    if "t" in v:
        return ("list", tuple(canon(x) for x in v["t"]))
    if "a" in v:
        return ("list", tuple(("float", float.fromhex(h).hex()) for h in v["a"]))
    if "ai" in v:
        return ("list", tuple(("int", n) for n in v["ai"]))
    if "d" in v:
        return ("dict", tuple(sorted((k, canon(x)) for k, x in v["d"])))
    raise ValueError(v)


def canon_feature(v):
    # an empty dict among the feature values is iterated like any other container
    if isinstance(v, dict) and "d" in v and not v["d"]:
        return ("list", ())
    if isinstance(v, list):
        return ("list", tuple(canon_feature(x) for x in v))
    if isinstance(v, dict) and "t" in v:
        return ("list", tuple(canon_feature(x) for x in v["t"]))
    return canon(v)


def plain(v, feature=False):
    """the description of what json.loads gives back for a described value"""
    if v is None or isinstance(v, (bool, int, str)):
        return v
    if isinstance(v, list):
        return [plain(x, feature) for x in v]
    if "f" in v or "nf" in v:
        return {"f": v.get("f", v.get("nf"))}
    if "ni" in v:
        return v["ni"]
    if "nb" in v:
        return v["nb"]
    if "t" in v:
        return [plain(x, feature) for x in v["t"]]
    if "a" in v:
        return [{"f": h} for h in v["a"]]
    if "ai" in v:
        return list(v["ai"])
    if "ind" in v:
        return v["ind"]
    if "d" in v:
        return [] if (feature and not v["d"]) else {"d": [[k, plain(x, feature)] for k, x in v["d"]]}
    raise ValueError(v)


def reload_desc(d):
    """the individual that read_from_datastore (Individual.from_dict) rebuilds from the row of d: what a store opened in
    write mode on an existing file puts into problem.individuals"""
    return {"id": d["id"], "vector": plain(seq_items(d["vector"])), "costs": plain(seq_items(d["costs"])),
            "costs_signed": plain(d["costs_signed"]), "state": "loaded", "population_id": plain(d["population_id"]),
            "algorithm_id": plain(d["algorithm_id"]), "custom": plain(d["custom"]),
            "features": [[k, plain(x, True)] for k, x in d["features"]], "parents": [], "children": []}


def strip(d):
    return {k: v for k, v in d.items() if k not in ("slot", "vector_alias", "costs_alias")}


def wanted(d, field):
    if field == "features":
        return ("dict", tuple(sorted((k, canon_feature(x)) for k, x in d["features"])))
    if field in ("vector", "costs"):
        return ("list", tuple(canon(x) for x in seq_items(d[field])))
    return canon(d[field])


# --------------------------------------------------------------------------------------------------
# generators
# --------------------------------------------------------------------------------------------------
FGRID = [0.0, -0.0, 1.0, -1.0, 0.1, 0.2, 0.30000000000000004, 1.0 / 3.0, 2.5, -7.25, 1e-7, 123456.789, 1e22, 1e23,
         1.0 + 2 ** -52, 1.0 - 2 ** -53, 5e-324, -5e-324, 2.2250738585072014e-308, 2.225073858507201e-308,
         1.7976931348623157e308, -1.7976931348623157e308, 1e300, -1e300, 9007199254740993.0, 0.1 + 0.7, 4.35, 2 ** 63 * 1.0]
INFS = [float("inf"), float("-inf")]
IDS = [0, 1, 2, 3, 4, 5, 6, 7, 8, 9, 10, 11, 12, -1, -7, 2 ** 31, 2 ** 40 + 3, 2 ** 62, -2 ** 62, 9223372036854775807]
STRINGS = ["", "a", "x_1", "F", 'say "hi"', "back\\slash", "tab\there", "two\nlines", "café", "λ→∞", "\U0001f600",
           "0", "null", "(* not a comment *)", "a'b", "   ", "%Z"]
KEYS = ["k", "functions", "a b", "nested", 'q"uote', "ü", "id", "features", "0", "", "Key", "key"]
# red-team round 2: strings that are JSON tokens, look like numbers, or need escaping in JSON / SQL (a store that post-processes
# the JSON TEXT, e.g. .replace('Infinity', '1e999'), corrupts string values the number-only generators never contained)
TOKENS = ["Infinity", "-Infinity", "NaN", "true", "false", "1e999", "-1e999", "0x10", "1.5", "-0", "1e5", "inf", "nan", "Infinity, NaN",
          "xInfinityx", "infinity", "Infinit", "[Infinity]", '{"a": Infinity}', '", "costs": [Infinity], "x": "', "\\u0041", "\\",
          '\\"', '"', '""', "\\n", "/", "\\/", "'; DROP TABLE individuals; --", "?1", ":id", "None", "1e999Infinity-Infinity"]
LONG = "x" * 1200 + "Infinity" + "\\" * 3 + '"' + "NaN" + "y" * 1200 + "é\u2028"
# only where the value travels inside JSON text (custom data, feature keys, values of parameter / cost descriptions), not as an SQL text column
JSON_ONLY = ["\x00", "a\x00b", "\x01\x1f", "\x7f", "\r\n", "\u2028\u2029", "\ud83d", "\udc00x", "\uffff", "\ufeff", "e\u0301", "\x08\x0c", LONG]
STRINGS += TOKENS
JSTRINGS = STRINGS + JSON_ONLY
JKEYS = KEYS + ["Infinity", "-Infinity", "NaN", "null", "true", "1e999", "\\", "a\x00b", "\ud83d", "\r\n", '"', "Infinity\x7f"]
# red-team round 6: text that looks like a number.  Each group: strings that some reading (SQLite's NUMERIC affinity, int(), float(),
# a JSON / YAML / CSV number parser) takes for the SAME number while they differ as text.  All are plain text to the property.
NUM_GROUPS = [
    ["1", "01", "1.0", "+1", "1e0", "1.", " 1", "1 ", "001", "1.00", "1E0", "0x1", "\u0661", "\uff11", "1\n", "True"],
    ["0", "-0", "0.0", "00", "-0.0", "0e0", "+0", ".0", "0.", "0x0", "-00", " 0 ", "False", "0E5"],
    ["1000", "1e3", "1E3", "1000.0", "1_000", "1e+3", "1.0e3", "01000", " 1000", "1,000", "1 000", "10e2", "0x3e8"],
    ["3.5", "3.50", "03.5", "+3.5", "3.5e0", "35e-1", " 3.5 ", "3.500000000000000001", "3,5", "7/2"],
    ["12", " 12 ", "012", "12.", "\u0661\u0662", "\uff11\uff12", "12\n", "\t12", "1_2", "0xc", "0o14", "0b1100", "12.0", "1.2e1"],
    ["inf", "Infinity", "1e999", "1e400", "+inf", "INF", " inf", "infinity", "9e9999", "1e309"],
    ["nan", "NaN", "NAN", "-nan", "+nan", " nan", "nan ", "NaN "],
    ["9223372036854775807", "9223372036854775808", "9223372036854775807.0", "9.223372036854775807e18", "18446744073709551616",
     "-9223372036854775808", "-9223372036854775809", "9007199254740993", "9007199254740992.0", "0x7fffffffffffffff"],
    ["2024", "02024", "2024.0", "2.024e3", "2024 ", "20_24", "+2024", "2024.", "MMXXIV"],
    ["007", "7", "7.0", "07", "0007", "7e0", "-7", "- 7", "7.", "0o7"],
    ["0.1", "0.10", ".1", "1e-1", "0.1000000000000000055511151231257827", "00.1", "+.1", "1E-1", "0,1"],
]
NUMERIC = ["2024", "007", "1e3", "3.50", "-0", " 12 ", "0x10", "inf", "nan", "1_000", "-inf", "1e-400", "-1e400", "5e-324", "1d3", "1f", "1L", "0x", "e3", "1e", "--1",
           "1.2.3", "12abc", "", "-", "+", ".", "1 2", "0.30000000000000004", "123456789012345678901234567890", "-.5e-3", "1e5", "-1", "42"]
NUMERIC += [x for g in NUM_GROUPS for x in g if x not in NUMERIC]


def rfloat(rng):
    r = rng.random()
    if r < 0.45:
        x = rng.choice(FGRID)
    elif r < 0.55:
        x = rng.choice(INFS)
    elif r < 0.75:
        x = rng.uniform(-10, 10)
    elif r < 0.85:
        x = rng.random() * 10 ** rng.randint(-320, 308) * rng.choice([1, -1])
    else:
        while True:     # an arbitrary bit pattern that is not a NaN
            x = struct.unpack("<d", struct.pack("<Q", rng.getrandbits(64)))[0]
            if x == x:
                break
    return {"nf" if rng.random() < 0.3 else "f": float(x).hex()}


def rfinite(rng):
    while True:
        v = rfloat(rng)
        if v.get("f", v.get("nf")) not in ("inf", "-inf"):
            return v


def rvec(rng, n, p_inf=0.1):
    items = [rfloat(rng) if rng.random() < p_inf else rfinite(rng) for _ in range(n)]
    r = rng.random()
    if r < 0.15:
        return {"a": [i.get("f", i.get("nf")) for i in items]}
    if r < 0.25:
        return {"t": items}
    if r < 0.35:
        return [i if rng.random() < 0.7 else rng.randint(-3, 9) for i in items]
    return items


def rjson(rng, depth=0, strings=False):
    if strings:
        return rjson_strings(rng, depth)
    r = rng.random()
    if depth >= 1 and r < 0.06:         # numpy values the repaired store turns into plain JSON
        return rng.choice([{"ni": rng.choice([0, 18, -5, 2 ** 62])}, {"nb": rng.random() < 0.5},
                           {"ai": [rng.randint(-9, 9) for _ in range(rng.randint(0, 3))]},
                           {"a": [rfinite(rng).popitem()[1] for _ in range(rng.randint(0, 3))]}])
    if depth >= 3 or r < 0.35:
        k = rng.randrange(8)
        if k <= 1:
            return rfloat(rng)
        if k == 2:
            return rng.choice([0, 1, -1, 7, 2 ** 53 + 1, -2 ** 70, 10 ** 30, 255])
        if k == 3:
            return rng.choice([True, False])
        if k == 4:
            return None
        if k == 5:
            return rng.choice(JSTRINGS)
        return rfinite(rng)
    if r < 0.6:
        items = [rjson(rng, depth + 1) for _ in range(rng.randint(0, 4))]
        return {"t": items} if rng.random() < 0.15 else items
    keys = rng.sample(KEYS, rng.randint(0, 4))
    return {"d": [[k, rjson(rng, depth + 1)] for k in keys]}


def rjson_strings(rng, depth=0):
    """custom data dominated by special strings, next to the float tokens they imitate (inf, -inf as real numbers)"""
    r = rng.random()
    if depth >= 3 or r < 0.5:
        k = rng.randrange(10)
        if k == 0:
            return rng.choice([{"f": "inf"}, {"f": "-inf"}, {"nf": "inf"}, None, True, False, 0, rfinite(rng)])
        return rng.choice(TOKENS + JSON_ONLY) if k < 8 else rng.choice(STRINGS)
    if r < 0.75:
        items = [rjson_strings(rng, depth + 1) for _ in range(rng.randint(0, 4))]
        return {"t": items} if rng.random() < 0.15 else items
    keys = rng.sample(JKEYS, rng.randint(1, 4))
    return {"d": [[k, rjson_strings(rng, depth + 1)] for k in keys]}


def rref(rng, ids):
    return {"ind": rng.choice(ids)}


def rfeature_value(rng, ids, depth=0):
    r = rng.random()
    if r < 0.25:
        return rfloat(rng)
    if r < 0.35:
        return rng.choice([0, 1, 7, -1, None, True, False, {"ni": 3}, {"ni": -2 ** 40}, {"nb": True}, {"ai": [1, 2, 3]}])
    if r < 0.5:
        return [rref(rng, ids) if rng.random() < 0.6 else rng.choice(ids) for _ in range(rng.randint(0, 4))]
    if r < 0.6:
        return {"a": [rfinite(rng).popitem()[1] for _ in range(rng.randint(0, 3))]}
    if r < 0.65:
        return {"d": []}
    if r < 0.7:
        return rref(rng, ids)
    if depth < 2:
        items = [rfeature_value(rng, ids, depth + 1) for _ in range(rng.randint(0, 3))]
        return {"t": items} if rng.random() < 0.3 else items
    return None


def rfeatures(rng, ids, m, strings=False):
    f = [["start_time", rfinite(rng)], ["finish_time", rfinite(rng)],
         ["feasible", rng.choice([{"f": (0.0).hex()}, True, False, {"f": (1.5).hex()}])], ["precision", rng.choice([7, 7, 3, 12])]]
    r = rng.random()
    if r < 0.6:       # what NSGA-II / EpsMOEA / the swarm algorithms write
        f.append(["dominate", [rref(rng, ids) if rng.random() < 0.3 else rng.choice(ids) for _ in range(rng.randint(0, 4))]])
        f.append(["crowding_distance", rng.choice([{"f": "inf"}, {"f": "inf"}, 0, {"f": (0.0).hex()}, rfinite(rng), {"nf": "inf"}])])
        f.append(["domination_counter", rng.randint(0, 5)])
        f.append(["front_number", rng.choice([None, 1, 2, 3])])
    if rng.random() < 0.3:
        f.append(["velocity", rvec(rng, rng.randint(1, 3), 0.0)])
        f.append(["best_cost", [rfinite(rng) for _ in range(m)] + [rng.choice([True, False])]])
        f.append(["best_vector", rvec(rng, rng.randint(1, 3), 0.0)])
    if rng.random() < 0.2:
        f.append(["gradient", {"a": [rfinite(rng).popitem()[1] for _ in range(rng.randint(1, 3))]}])
    for _ in range(rng.choice([1, 2, 3] if strings else [0, 0, 1, 2])):
        k = rng.choice(JKEYS if strings else JKEYS + ["sensitivity", "extra"])
        if k not in [x[0] for x in f]:
            f.append([k, rfeature_value(rng, ids)])
    if rng.random() < 0.15:
        f = [x for x in f if rng.random() < 0.8]
    if rng.random() < 0.3:
        rng.shuffle(f)
    return f


def rind(rng, iid, ids, dim, m, strings=False):
    costs = rvec(rng, m, 0.05) if rng.random() < 0.9 else []
    if costs and rng.random() < 0.12:   # an objective that returns ints: calc_signed_costs makes numpy.int64 of them
        costs = [rng.choice([0, 5, 18, -3, 10 ** 6]) for _ in range(m)]
        cs = [{"ni": c * rng.choice([1, -1])} for c in costs] + [rng.choice([True, False])]
    elif costs:
        cs = [{"nf": x.get("f", x.get("nf"))} if isinstance(x, dict) else x for x in seq_items(costs)] + [rng.choice([True, False])]
    else:
        cs = []
    if rng.random() < 0.1:
        cs = [rfloat(rng) for _ in range(rng.randint(0, 3))]
    custom = (rjson(rng, 1, strings) if rng.random() < 0.15 else
              {"d": [[k, rjson(rng, 1, strings)] for k in rng.sample(JKEYS if strings else KEYS, rng.choice([1, 2, 3] if strings else [0, 0, 1, 1, 2, 3]))]})
    return {"id": iid, "vector": rvec(rng, dim), "costs": costs, "costs_signed": cs,
            "state": rng.choice(["evaluated"] * 6 + STATES), "population_id": rng.choice([-1, 0, 1, 2, 3, 10]),
            "algorithm_id": rng.choice([0, "%032x" % rng.getrandbits(128), "a"] + (TOKENS[:6] if strings else [])), "custom": custom,
            "features": rfeatures(rng, ids, m, strings),
            "parents": [rfeature_value(rng, ids, 1) if rng.random() < 0.3 else rref(rng, ids) for _ in range(rng.choice([0, 0, 0, 1, 2]))],
            "children": [rfeature_value(rng, ids, 1) if rng.random() < 0.3 else rref(rng, ids) for _ in range(rng.choice([0, 0, 0, 1, 3]))]}


def numeric_names(rng, n):
    """n distinct names that look like numbers; half of the time all of them spell the SAME number"""
    r = rng.random()
    if r < 0.5:
        return rng.sample(rng.choice([g for g in NUM_GROUPS if len(g) >= n]), n)
    if r < 0.85:
        return rng.sample(NUMERIC, n)
    return [x if rng.random() < 0.5 else "x_%d" % (i + 1) for i, x in enumerate(rng.sample(NUMERIC, n))]


def rjson_numeric(rng, depth=0):
    """custom data dominated by number look-alikes, next to the real numbers they spell"""
    r = rng.random()
    if depth >= 2 or r < 0.55:
        if rng.random() < 0.8:
            return rng.choice(NUMERIC)
        return rng.choice([rfinite(rng), 1, 0, 7, 2024, 1000, None, True, {"f": (3.5).hex()}, {"f": (1000.0).hex()}, {"f": "inf"}, {"ni": 12}, {"f": (-0.0).hex()}])
    if r < 0.75:
        items = [rjson_numeric(rng, depth + 1) for _ in range(rng.randint(0, 4))]
        return {"t": items} if rng.random() < 0.15 else items
    return {"d": [[k, rjson_numeric(rng, depth + 1)] for k in numeric_names(rng, rng.randint(1, 4))]}


def numericise(rng, d):
    """an individual of the number look-alike stream: custom data (values, keys, or the whole of it), algorithm id, feature keys"""
    r = rng.random()
    if r < 0.15:
        d["custom"] = rng.choice(NUMERIC)
    elif r < 0.9:
        d["custom"] = {"d": [[k, rjson_numeric(rng, 1)] for k in numeric_names(rng, rng.randint(1, 4))]}
    if rng.random() < 0.6:
        d["algorithm_id"] = rng.choice(NUMERIC)
    have = [x[0] for x in d["features"]]
    for k in numeric_names(rng, rng.choice([0, 1, 2, 3])):
        if k not in have:
            d["features"].append([k, rfeature_value(rng, [d["id"]])])
    return d


def rmeta(rng, degenerate=False, strings=False, numeric=False):
    dim = rng.choice([1, 2, 2, 3, 5])
    m = rng.choice([1, 1, 2, 3])
    if numeric:
        # every parameter with its own disjoint box, every cost with its own direction and weight (a by-name mix-up is visible)
        params = []
        for i, nm in enumerate(numeric_names(rng, dim)):
            p = [["name", nm], ["initial_value", rng.choice([10 * i + 1, {"f": (10.0 * i + 2.5).hex()}])], ["bounds", [10 * i, 10 * i + 5]]]
            if rng.random() < 0.5:
                p.append([rng.choice(["unit", "note", "label"] + NUMERIC[:10]), rng.choice(NUMERIC)])
            if rng.random() < 0.3:
                rng.shuffle(p)
            params.append({"d": p})
        costs = []
        for j, nm in enumerate(numeric_names(rng, m)):
            c = [["name", nm], ["criteria", ["minimize", "maximize"][j % 2]], ["weight", j + 1]]
            if rng.random() < 0.5:
                c.append([rng.choice(["unit", "label"] + NUMERIC[:10]), rng.choice(NUMERIC)])
            costs.append({"d": c})
        return dim, m, {"name": rng.choice(NUMERIC), "description": rng.choice(NUMERIC + ["", "d"]), "params": params, "costs": costs}
    params = []
    for i in range(dim):
        p = [["name", "x_%d" % (i + 1) if rng.random() < 0.8 else rng.choice(STRINGS[1:]) + str(i)]]
        if rng.random() < 0.8:
            p.append(["initial_value", rng.choice([rfinite(rng), 0, 2])])
        if rng.random() < 0.8:
            p.append(["bounds", [rng.choice([-10, {"f": (-2.5).hex()}]), rng.choice([10, {"f": (1e6).hex()}])]])
        if rng.random() < 0.3:
            p.append(["parameter_type", rng.choice(["real", "integer", "boolean"])])
        if rng.random() < 0.2:
            p.append(["precision", {"f": rng.choice([1e-3, 1e-6]).hex()}])
        if rng.random() < (0.5 if strings else 0.1):
            p.append([rng.choice(["unit", "note", "Infinity"]), rng.choice(JSTRINGS)])
        if rng.random() < 0.3:
            rng.shuffle(p)
        params.append({"d": p})
    costs = []
    for j in range(m):
        c = [["name", "F_%d" % (j + 1) if rng.random() < 0.8 else rng.choice(STRINGS[1:]) + str(j)]]
        if rng.random() < 0.7:
            c.append(["criteria", rng.choice(["minimize", "maximize"])])
        if rng.random() < 0.2:
            c.append(["weight", rfinite(rng)])
        if rng.random() < (0.5 if strings else 0.1):
            c.append([rng.choice(["unit", "NaN"]), rng.choice(JSTRINGS)])
        costs.append({"d": c})
    if degenerate:
        tgt = params if rng.random() < 0.5 and params else costs
        if rng.random() < 0.6 and len(tgt) >= 1:
            tgt.append({"d": list(tgt[rng.randrange(len(tgt))]["d"])})             # duplicate name -> IntegrityError
            rng.shuffle(tgt)
        else:
            k = rng.randrange(len(tgt))
            tgt[k] = {"d": [kv for kv in tgt[k]["d"] if kv[0] != "name"] + [["Name", "x"]]}   # no 'name' -> KeyError
    return dim, m, {"name": rng.choice(["p", "NLopt_BOBYQA", "", 'a "b"', "café"] + (TOKENS[:4] if strings else [])),
                    "description": rng.choice(["", "", "two\nlines", "d"] + (TOKENS if strings else [])), "params": params, "costs": costs}


def gen_history(rng, degenerate=False, strings=False, numeric=False):
    dim, m, case = rmeta(rng, degenerate, strings, numeric)
    ids = rng.sample(IDS[:13], rng.randint(1, 5)) + (rng.sample(IDS[13:], rng.randint(0, 2)) if rng.random() < 0.3 else [])
    pool = {}

    def draw(i, slot=True):
        d = rind(rng, i, ids, dim, m, strings)
        if numeric:
            numericise(rng, d)
        if slot:
            d["slot"] = i
        if i in pool and rng.random() < 0.4:    # the same design again with other data (as NSGA-II writes an individual twice)
            keep = dict(pool[i])
            for f in rng.sample(["costs", "population_id", "features", "custom", "parents", "children", "state"], rng.randint(1, 3)):
                keep[f] = d[f]
                if f == "costs":
                    keep["costs_signed"] = d["costs_signed"]
                    keep.pop("costs_alias", None)
            if not slot:
                keep.pop("slot", None)
            return keep
        others = [j for j in pool if j != i]
        if others and rng.random() < 0.3:       # the same design vector as another individual (Individual.__eq__ is by vector)
            o = rng.choice(others)
            d["vector"] = pool[o]["vector"]
            if rng.random() < 0.5:
                d["vector_alias"] = o           # ... and the very same list object
            if rng.random() < 0.3:              # NSGA-II's copy() shares the costs list with its original
                d["costs"], d["costs_signed"] = pool[o]["costs"], pool[o]["costs_signed"]
                d["costs_alias"] = o
        return d

    for i in ids:
        pool[i] = draw(i)
    ops = []
    n_ops = rng.choice([0, 1, 2, 3, 4, 5, 6, 8, 10, 14]) if rng.random() < 0.9 else rng.choice([25, 40, 60])
    reopen_at = rng.randrange(n_ops) if n_ops and not degenerate and rng.random() < 0.3 else None
    reopened = False
    for j in range(n_ops):
        if j == reopen_at:
            ops.append({"op": "reopen", "mode": "write" if rng.random() < 0.8 else "rewrite", "thread_safe": rng.random() < 0.7,
                        "spec": rmeta(rng, numeric=numeric)[2]})
            reopened = ops[-1]["mode"] == "write"
            continue
        for i in ids:                   # data changes between the calls: last wins must be observable
            if rng.random() < (0.5 if n_ops <= 14 else 0.2):
                pool[i] = draw(i)
        if rng.random() < 0.65:
            ops.append({"op": "sync", "ind": pool[rng.choice(ids)]})
        else:
            members = [pool[i] for i in ids if rng.random() < 0.7]
            rng.shuffle(members)
            if members and rng.random() < 0.25:     # the same id twice in problem.individuals, with different data
                members.insert(rng.randrange(len(members) + 1), draw(rng.choice(members)["id"], slot=False))
            ops.append({"op": "sync_all", "inds": members, "with_loaded": reopened and rng.random() < 0.7})
    case["ops"] = ops
    case["reuse_objects"] = rng.random() < 0.7
    case["store"] = {"mode": rng.choice(["write", "write", "rewrite"]), "thread_safe": rng.random() < 0.7,
                     "pre": rng.choice(["none", "none", "empty", "stale"]), "destroy": rng.random() < 0.5}
    if case["store"]["pre"] == "stale":
        case["store"]["mode"] = "rewrite"
    return case


def gen_lock_history(rng):
    """a history whose LAST calls are sync_individual calls made while a second connection holds the database lock: of an id that
    has a row already (data re-drawn: the row must be replaced) and of a new id; nothing synchronises those ids afterwards"""
    case = gen_history(rng)
    case["ops"] = [o for o in case["ops"] if o["op"] != "reopen"][:6]
    for o in case["ops"]:
        o.pop("with_loaded", None)
    dim = len(case["params"])
    m = len(case["costs"])
    seen = [d["id"] for o in case["ops"] for d in ([o["ind"]] if o["op"] == "sync" else o["inds"])]
    tail = []
    if seen:
        i = rng.choice(seen)
        tail.append({"op": "sync", "ind": dict(rind(rng, i, seen, dim, m), slot=i), "locked": rng.choice([3, 4, 4, 6, 10])})
    new = rng.choice([j for j in IDS[:13] + [40, 41, 42] if j not in seen])
    tail.append({"op": "sync", "ind": dict(rind(rng, new, seen + [new], dim, m), slot=new), "locked": rng.choice([3, 4, 4, 6, 10])})
    if rng.random() < 0.5:
        tail.reverse()
    if rng.random() < 0.3:              # a third one in between that is not refused at all
        tail.insert(1, {"op": "sync", "ind": dict(rind(rng, new + 100, seen + [new], dim, m), slot=new + 100)})
    case["ops"] += tail
    case["kind"] = "foreign-lock"
    return case


# --------------------------------------------------------------------------------------------------
def run(ctx):
    import atexit
    import logging
    import random
    import sqlite3
    import numpy as np
    from artap.problem import Problem, ProblemViewDataStore
    from artap.individual import Individual
    from artap.datastore import SqliteDataStore

    logging.disable(logging.CRITICAL)
    rng = ctx.rng
    _STR.clear()

    # Harness-side stand-in for the sqlite3 module inside artap.datastore: the same connect with a short busy timeout.
    # Nothing waits for a lock in these single-threaded histories unless the store is broken, and then sync_individual
    # retries for ever (5 s per attempt, unbounded recursion); the recursion limit is lowered around store calls for the same reason.
    import artap.datastore as ds_mod

    # Lock scenarios (red-team round 3, rule 12): a SECOND connection (same process, opened by the harness with the real sqlite3
    # module) holds BEGIN EXCLUSIVE on the file across a sync_individual call; the real SQLite refuses the store's write
    # ('database is locked' after the busy timeout, shortened harness-side: only scales the waiting) and the proxy counts the
    # refusals; the holder lets go after the r-th refusal in a row - or when the store call has RETURNED (a store that gives up).
    LOCK = {"on": False, "refused": 0, "busy": 0.05}

    class CountCursor:
        def __init__(self, real):
            self._real = real

        def execute(self, sql, *a):
            try:
                return self._real.execute(sql, *a)
            except sqlite3.OperationalError:
                if LOCK["on"] and sql.lstrip().upper().startswith("INSERT"):
                    LOCK["refused"] += 1
                raise

        def __getattr__(self, name):
            return getattr(self._real, name)

    class CountConn:
        def __init__(self, real):
            self._real = real

        def cursor(self):
            return CountCursor(self._real.cursor())

        def __getattr__(self, name):
            return getattr(self._real, name)

    class ShortTimeout:
        def __getattr__(self, name):
            return getattr(sqlite3, name)

        def connect(self, *a, **kw):
            kw.setdefault("timeout", LOCK["busy"])
            return CountConn(sqlite3.connect(*a, **kw))         # always (a single-connection store keeps the one it opened first)

    def sync_under_foreign_lock(store, path, ind, r):
        """store.sync_individual(ind) while another connection owns the database lock until the store has been refused r times in a
        row (or has returned).  Returns what happened, for the evidence."""
        import threading
        import contextlib
        import io
        holder = sqlite3.connect(path, timeout=2.0, isolation_level=None, check_same_thread=False)
        info = {"held": False, "refused": 0, "returned_while_locked": False}
        try:
            try:
                holder.execute("BEGIN EXCLUSIVE")
                info["held"] = True
            except sqlite3.OperationalError:
                pass
            state = {"returned": False}

            def release():
                t0 = time.time()
                while LOCK["refused"] < r and not state["returned"] and time.time() - t0 < 20.0:
                    time.sleep(0.001)
                info["returned_while_locked"] = state["returned"] and LOCK["refused"] < r
                if info["held"]:
                    try:
                        holder.execute("COMMIT")
                    except sqlite3.Error:
                        pass
            LOCK.update(on=True, refused=0, busy=0.004)
            th = threading.Thread(target=release, daemon=True)
            th.start()
            try:
                with contextlib.redirect_stdout(io.StringIO()):        # conn() prints 'database is locked' when its PRAGMA is refused
                    store.sync_individual(ind)
            finally:
                state["returned"] = True
                th.join(25.0)
                info["refused"] = LOCK["refused"]
                LOCK.update(on=False, refused=0, busy=0.05)
        finally:
            holder.close()
        return info

    ds_mod.sqlite3 = ShortTimeout()

    class shallow:
        def __enter__(self):
            self.old = sys.getrecursionlimit()
            sys.setrecursionlimit(min(self.old, 150))

        def __exit__(self, *a):
            sys.setrecursionlimit(self.old)

    def saturated():
        return len(ctx.oracle_failures) >= 40       # enough failing inputs: further cases add nothing

    def build(v, live=None):
        """description -> the Python object handed to artap; live: id -> Individual object to use for references"""
        if v is None or isinstance(v, (bool, int, str)):
            return v
        if isinstance(v, list):
            return [build(x, live) for x in v]
        if "f" in v:
            return float.fromhex(v["f"])
        if "nf" in v:
            return np.float64(float.fromhex(v["nf"]))
        if "ni" in v:
            return np.int64(v["ni"])
        if "nb" in v:
            return np.bool_(v["nb"])
        if "t" in v:
            return tuple(build(x, live) for x in v["t"])
        if "a" in v:
            return np.array([float.fromhex(h) for h in v["a"]], dtype=np.float64)
        if "ai" in v:
            return np.array(v["ai"], dtype=np.int64)
        if "d" in v:
            return {k: build(x, live) for k, x in v["d"]}
        if "ind" in v:
            if live and v["ind"] in live:
                return live[v["ind"]]
            x = Individual()
            x.id = v["ind"]
            return x
        raise ValueError(v)

    def describe(x):
        """a live Python value -> description"""
        if x is None or isinstance(x, (bool, str)):
            return x
        if isinstance(x, Individual):
            return {"ind": x.id}
        if isinstance(x, np.bool_):
            return {"nb": bool(x)}
        if isinstance(x, np.int64):
            return {"ni": int(x)}
        if isinstance(x, np.float64):
            return {"nf": float(x).hex()}
        if isinstance(x, float):
            return {"f": x.hex()}
        if isinstance(x, int):
            return x
        if isinstance(x, np.ndarray):
            if x.ndim == 1 and x.dtype == np.float64:
                return {"a": [float(y).hex() for y in x]}
            if x.ndim == 1 and x.dtype == np.int64:
                return {"ai": [int(y) for y in x]}
            if x.ndim >= 1:
                return [describe(y) for y in x]
        if isinstance(x, list):
            return [describe(y) for y in x]
        if isinstance(x, tuple):
            return {"t": [describe(y) for y in x]}
        if isinstance(x, dict) and all(isinstance(k, str) for k in x):
            return {"d": [[k, describe(y)] for k, y in x.items()]}
        raise ValueError("value outside the model: %r (%s)" % (x, type(x)))

    def describe_ind(ind):
        st = ind.state.name.lower() if isinstance(ind.state, Individual.State) else "loaded"
        return {"id": ind.id, "vector": describe(ind.vector), "costs": describe(ind.costs), "costs_signed": describe(ind.costs_signed),
                "state": st, "population_id": describe(ind.population_id), "algorithm_id": describe(ind.algorithm_id),
                "custom": describe(ind.custom), "features": [[k, describe(v)] for k, v in ind.features.items()],
                "parents": [describe(p) for p in ind.parents], "children": [describe(c) for c in ind.children]}

    OBJ_FIELDS = ["vector", "costs", "costs_signed", "state", "population_id", "algorithm_id", "custom", "features", "parents", "children"]

    def set_field(ind, d, f, live):
        if f == "state":
            ind.state = Individual.State[d["state"].upper()]
        elif f == "features":
            ind.features = {k: build(v, live) for k, v in d["features"]}
        elif f in ("parents", "children"):
            setattr(ind, f, [build(p, live) for p in d[f]])
        else:
            setattr(ind, f, build(d[f], live))

    def make_ind(d, live=None):
        ind = Individual()
        ind.id = d["id"]
        for f in OBJ_FIELDS:
            set_field(ind, d, f, live)
        return ind

    class HProblem(Problem):
        spec = None

        def set(self, **kwargs):
            s = HProblem.spec
            self.name = s["name"]
            self.description = s["description"]
            self.parameters = [build(p) for p in s["params"]]
            self.costs = [build(c) for c in s["costs"]]

        def evaluate(self, individual):
            return [0.0]

    def dispose(problem):
        try:
            atexit.unregister(problem.cleanup)
            problem.cleanup()
        except Exception:
            pass

    def fail(what, case, clause, **kw):
        if len(ctx.oracle_failures) < 40:
            d = {"what": what, "input": dict({"case": case}, **kw), "match": {"kind": case.get("kind", "history"), "clause": clause}}
            ctx.oracle_failures.append(d)

    def read_back(path):
        """what a fresh read-mode view and the raw table show; ("error", text) when the view cannot be built"""
        con = sqlite3.connect(path, timeout=1.0)
        try:
            raw = con.execute("SELECT id, individual FROM individuals").fetchall()
        except sqlite3.Error as e:
            return {"error": "raw table unreadable: %s: %s" % (type(e).__name__, e), "raw": []}
        finally:
            con.close()
        try:
            view = ProblemViewDataStore(database_name=path)
        except Exception as e:
            return {"error": "%s: %s" % (type(e).__name__, e), "raw": raw}
        try:
            obs = {"name": view.name, "description": view.description, "parameters": list(view.parameters), "costs": list(view.costs),
                   "raw": raw, "inds": list(view.individuals)}
        finally:
            dispose(view)
        return obs

    FIELDS = ["id", "vector", "costs", "costs_signed", "state", "population_id", "algorithm_id", "custom", "features"]

    def enc_expected(obs):
        if obs is None or "error" in obs:
            return "(None, [])"
        # a text column that does not come back as a str (e.g. '2024' read back as the int 2024) can never equal the model's string
        tl = lambda x: sl(x) if isinstance(x, str) else sl("\x02not-a-str:%s:%r" % (type(x).__name__, x))
        meta = "(Some (%s, %s, %s, %s))" % (tl(obs["name"]), tl(obs["description"]),
                                           ll(obs["parameters"], lambda p: enc_jv(describe(p))), ll(obs["costs"], lambda p: enc_jv(describe(p))))
        rows = []
        for k, (rid, text) in enumerate(obs["raw"]):
            fields = None
            if k < len(obs["inds"]) and isinstance(rid, int):
                try:
                    row = json.loads(text)
                    v = obs["inds"][k]
                    fields = [enc_jv(describe(getattr(v, f))) for f in FIELDS] + [enc_jv(describe(row["parents"])), enc_jv(describe(row["children"]))]
                except Exception:
                    fields = None
            rows.append(pl(zl(rid) if isinstance(rid, int) else "0", "None" if fields is None else "(Some %s)" % ll(fields)))
        return pl(meta, ll(rows))

    def oracle(case, obs, want, complete_rows):
        """the property on the implementation alone.  want: id -> description of the data the row must hold;
        complete_rows: the store must hold exactly these ids (histories) / at least these ids (runs)."""
        if obs is None:
            return
        if "error" in obs:
            fail("the read-mode view of the file cannot be built: %s" % obs["error"], case, "view raises")
            return
        if type(obs["name"]) is not type(case["name"]) or obs["name"] != case["name"]:
            fail("problem name read back %r (%s), synchronised %r (%s)" % (obs["name"], type(obs["name"]).__name__, case["name"],
                                                                          type(case["name"]).__name__), case, "problem name")
        for what, key in (("parameter", "params"), ("cost", "costs")):
            got = [canon(describe(p)) for p in obs["parameters" if key == "params" else "costs"]]
            req = [canon(p) for p in case[key]]
            if got != req:
                fail("%s definitions read back differ from the problem's" % what, case, "%s definitions" % what,
                     observed=json.dumps(obs["parameters" if key == "params" else "costs"], default=str)[:600])
        ids = [r[0] for r in obs["raw"]]
        if len(obs["inds"]) != len(ids):
            fail("view holds %d individuals, the table %d rows" % (len(obs["inds"]), len(ids)), case, "view size")
        if len(set(ids)) != len(ids):
            fail("more than one row for an id: %r" % sorted(i for i in set(ids) if ids.count(i) > 1)[:5], case, "one row per id")
        if complete_rows and len(ids) != len(want):
            fail("raw row count %d, distinct ids synchronised %d" % (len(ids), len(want)), case, "row count")
        by_id = {}
        for v in obs["inds"]:
            by_id.setdefault(v.id, []).append(v)
        for iid, d in want.items():
            if iid not in by_id or iid not in ids:
                fail("no row for synchronised individual id %r" % (iid,), case, "row missing", id=iid)
                continue
            for v in by_id[iid]:
                for f in PROPERTY_FIELDS:
                    try:
                        got = canon(describe(getattr(v, f)))
                    except Exception as e:
                        got = ("unreadable", repr(e))
                    req = wanted(d, f)
                    if got != req:
                        fail("id %r: %s read back differs from the data of its last synchronisation" % (iid, f), case, "field " + f,
                             id=iid, field=f, observed=repr(getattr(v, f, None))[:400], required=json.dumps(d[f], default=str)[:400])
        if complete_rows:
            for iid in ids:
                if iid not in want:
                    fail("row for id %r that was never synchronised" % (iid,), case, "extra row", id=iid)

    cases, expected, meta = [], [], []
    rcases, rexpected, rmeta = [], [], []
    hist = {"histories": 0, "degenerate_meta": 0, "ops": 0, "sync_individual": 0, "sync_all": 0, "individual_images": 0,
            "resynchronised_ids": 0, "rows": 0, "float_tokens": 0, "inf_tokens": 0, "numpy_scalars": 0, "individual_refs": 0,
            "thread_safe": 0, "single_connection": 0, "rewrite": 0, "reopened_in_write_mode": 0, "sync_all_with_reloaded": 0,
            "long_lived_objects": 0, "shared_vectors": 0, "interleaved_pairs": 0, "longest_history": 0,
            "foreign_lock": {"sync_individual_calls": 0, "lock_taken": 0, "refusals_by_sqlite": 0, "existing_row": 0, "new_id": 0,
                             "call_returned_while_the_lock_was_held": 0},
            "runs": {}, "run_rows": 0, "run_recorded": 0, "strings_with_json_tokens": 0, "special_string_histories": 0}

    def census(d):
        s = json.dumps(d)
        hist["float_tokens"] += s.count('"f":') + s.count('"nf":')
        hist["inf_tokens"] += s.count('inf"')
        hist["numpy_scalars"] += s.count('"nf":') + s.count('"a":')
        hist["individual_refs"] += s.count('"ind":')
        hist["strings_with_json_tokens"] += sum(s.count(t) for t in ("Infinity", "NaN", "1e999", '\\"', "\\u0000", "\\ud83d"))

    def note_mismatch(what, case, **kw):
        if sum(1 for m in ctx.mismatches if m.get("correspondence") == "purity") < 10:
            ctx.mismatches.append(dict({"what": what, "correspondence": "purity", "case": case}, **kw))

    class Session:
        """one store on one file, driven op by op (two sessions can be interleaved in one process)"""

        def __init__(self, case, k):
            self.case, self.k = case, k
            self.path = os.path.join(ctx.work, "h_%05d.sqlite" % k)
            self.store = self.problem = self.obs = None
            self.objs, self.last = {}, {}          # slot -> live Individual object / the description it was last given
            self.want, self.order = {}, []         # id -> description the row must hold; ids in table (first insertion) order
            self.loaded, self.loaded_desc = [], []
            self.spec = case
            self.model_ops = []
            self.n_img = 0
            self.failed = False
            self.reopens = 0

        def open(self):
            case, path, st = self.case, self.path, self.case["store"]
            if st["pre"] == "empty":
                open(path, "w").close()
            elif st["pre"] == "stale":      # a database of another problem, to be replaced in rewrite mode
                HProblem.spec = {"name": "old", "description": "old", "params": [{"d": [["name", "zz"]]}], "costs": [{"d": [["name", "old"]]}]}
                old = HProblem()
                s0 = SqliteDataStore(old, database_name=path)
                ghost = Individual([1.0])
                ghost.id = case["ops"][0]["ind"]["id"] if case["ops"] and case["ops"][0]["op"] == "sync" else 424242
                s0.sync_individual(ghost)
                s0.destroy()
                dispose(old)
            HProblem.spec = case
            self.problem = HProblem()
            try:
                self.store = SqliteDataStore(self.problem, database_name=path, mode=st["mode"], thread_safe=st["thread_safe"])
                self.problem.data_store = self.store
            except (sqlite3.IntegrityError, KeyError) as e:
                names = [dict(p["d"]).get("name") for p in case["params"]], [dict(c["d"]).get("name") for c in case["costs"]]
                if all(None not in n and len(set(n)) == len(n) for n in names):
                    fail("the store cannot be created for a well-formed problem: %r" % (e,), case, "constructor raises")

        def obj_for(self, d):
            """the Python object for a described individual: a long-lived object per slot, updated where the description changed"""
            slot = d.get("slot")
            live = {i: o for i, o in self.objs.items()}
            if slot is None or slot not in self.objs or not self.case.get("reuse_objects", True):
                ind = make_ind(d, live)
                prev = None
            else:
                ind, prev = self.objs[slot], self.last[slot]
                ind.id = d["id"]
                for f in OBJ_FIELDS:
                    if prev[f] != d[f] or prev.get(f + "_alias") != d.get(f + "_alias"):
                        set_field(ind, d, f, live)
            for f in ("vector", "costs"):       # the same list object in two individuals
                o = d.get(f + "_alias")
                if (o is not None and o in self.objs and self.last[o][f] == d[f] and (f != "costs" or self.last[o]["costs_signed"] == d["costs_signed"])
                        and (prev is None or prev[f] != d[f] or prev.get(f + "_alias") != o)):
                    setattr(ind, f, getattr(self.objs[o], f))
                    if f == "costs":
                        ind.costs_signed = self.objs[o].costs_signed
            if slot is not None:
                self.objs[slot], self.last[slot] = ind, d
            return ind

        def purity(self, j):
            """a store call reads the individuals: afterwards every live object still is what its description says"""
            for slot, ind in self.objs.items():
                try:
                    got = describe_ind(ind)
                except Exception as e:
                    got = {"undescribable": repr(e)}
                if got != strip(self.last[slot]):
                    diff = [f for f in got if got.get(f) != strip(self.last[slot]).get(f)]
                    note_mismatch("store call %d modified individual %r (fields %r): the model's synchronisation only reads" % (j, slot, diff),
                                  self.case, op_index=j)
                    self.last[slot] = dict(got, slot=slot)
                    return

        def record(self, d):
            if d["id"] not in self.want:
                self.order.append(d["id"])
            self.want[d["id"]] = d
            self.n_img += 1

        def step(self, j, op):
            if self.store is None or self.failed:
                return
            case = self.case
            try:
                if op["op"] == "reopen":
                    self.store.destroy()
                    dispose(self.problem)
                    gc.collect()
                    HProblem.spec = op["spec"]
                    self.problem = HProblem()
                    self.store = SqliteDataStore(self.problem, database_name=self.path, mode=op["mode"], thread_safe=op["thread_safe"])
                    self.problem.data_store = self.store
                    self.reopens += 1
                    if op["mode"] == "rewrite":
                        self.want, self.order, self.loaded, self.loaded_desc = {}, [], [], []
                        self.spec, self.model_ops = op["spec"], []
                    else:
                        self.loaded = list(self.problem.individuals)
                        self.loaded_desc = [reload_desc(self.want[i]) for i in self.order]
                        def norm(d):        # key order inside objects is not part of the property
                            return (d["id"], d["state"], canon(d["vector"]), canon(d["costs"]), canon(d["costs_signed"]), canon(d["population_id"]),
                                    canon(d["algorithm_id"]), canon(d["custom"]), canon({"d": d["features"]}), canon(d["parents"]), canon(d["children"]))
                        got = sorted((describe_ind(x) for x in self.loaded), key=lambda d: d["id"])
                        if [norm(d) for d in got] != [norm(d) for d in sorted(self.loaded_desc, key=lambda d: d["id"])]:
                            note_mismatch("the individuals rebuilt when the file is opened again in write mode are not those the model reloads",
                                          case, op_index=j, observed=json.dumps(got, default=str)[:600])
                elif op["op"] == "sync":
                    x = self.obj_for(op["ind"])
                    with shallow():
                        if op.get("locked"):
                            info = sync_under_foreign_lock(self.store, self.path, x, op["locked"])
                            lk = hist["foreign_lock"]
                            lk["sync_individual_calls"] += 1
                            lk["lock_taken"] += info["held"]
                            lk["refusals_by_sqlite"] += info["refused"]
                            lk["existing_row" if op["ind"]["id"] in self.want else "new_id"] += 1
                            lk["call_returned_while_the_lock_was_held"] += info["returned_while_locked"]
                        else:
                            self.store.sync_individual(x)
                    self.model_ops.append({"op": "sync", "ind": op["ind"]})
                    self.record(op["ind"])
                else:
                    with_loaded = bool(op.get("with_loaded")) and bool(self.loaded)
                    self.problem.individuals = (list(self.loaded) if with_loaded else []) + [self.obj_for(d) for d in op["inds"]]
                    with shallow():
                        self.store.sync_all()
                    inds = (list(self.loaded_desc) if with_loaded else []) + list(op["inds"])
                    self.model_ops.append({"op": "sync_all", "inds": inds})
                    for d in inds:
                        self.record(d)
                self.purity(j)
            except Exception as e:
                # a call that dies inside its transaction keeps the file locked while the frame is alive, and
                # sync_individual retries for ever on a locked file: stop this history here
                fail("store call %d (%s) raised %s: %s" % (j, op["op"], type(e).__name__, str(e)[:300]), case, "sync raises", op_index=j)
                self.failed = True

        def close(self):
            case, st = self.case, self.case["store"]
            try:
                if self.store is not None:
                    gc.collect()        # frees the connection of a call that died inside its transaction (the traceback held it)
                    if st["destroy"]:
                        self.store.destroy()
                    self.obs = read_back(self.path)
                    if not st["destroy"]:
                        self.store.destroy()
            finally:
                dispose(self.problem)
            mcase = dict(case, name=self.spec["name"], description=self.spec["description"], params=self.spec["params"],
                         costs=self.spec["costs"], ops=self.model_ops)
            if self.store is not None:
                oracle(dict(case, name=self.spec["name"], params=self.spec["params"], costs=self.spec["costs"]), self.obs, self.want, True)
            cases.append(enc_case(mcase))
            expected.append(enc_expected(self.obs))
            meta.append(case)
            n_img, want = self.n_img, self.want
            hist["histories"] += 1
            hist["degenerate_meta"] += self.store is None
            hist["ops"] += len(case["ops"])
            hist["sync_individual"] += sum(1 for o in case["ops"] if o["op"] == "sync")
            hist["sync_all"] += sum(1 for o in case["ops"] if o["op"] == "sync_all")
            hist["reopened_in_write_mode"] += sum(1 for o in case["ops"] if o["op"] == "reopen" and o["mode"] == "write")
            hist["sync_all_with_reloaded"] += sum(1 for o in case["ops"] if o["op"] == "sync_all" and o.get("with_loaded"))
            hist["individual_images"] += n_img
            hist["resynchronised_ids"] += n_img - len(want)
            hist["rows"] += len(want) if self.store is not None else 0
            hist["long_lived_objects"] += len(self.objs) if case.get("reuse_objects", True) else 0
            hist["shared_vectors"] += sum(1 for o in self.model_ops for d in ([o["ind"]] if o["op"] == "sync" else o["inds"]) if d.get("vector_alias") is not None)
            hist["thread_safe" if st["thread_safe"] else "single_connection"] += 1
            hist["rewrite"] += st["mode"] == "rewrite"
            hist["longest_history"] = max(hist["longest_history"], len(case["ops"]))
            census(case["ops"])
            ctx.count(("h", len(case["ops"]), n_img, len(want), st["mode"], st["thread_safe"], zlib.crc32(cases[-1].encode())),
                      nontrivial=n_img > len(want) or n_img >= 2)
            if 2 <= n_img <= 3 and n_img > len(want) and not self.reopens:
                ctx.sample({"history": case})
            for suffix in ("", "-journal"):
                try:
                    os.remove(self.path + suffix)
                except OSError:
                    pass

    def history_case(case, k):
        s1 = Session(case, k)
        s1.open()
        for j, op in enumerate(case["ops"]):
            s1.step(j, op)
        s1.close()

    def history_pair(case_a, case_b, k):
        """two stores on two files for two problems, alive in the same process, their calls interleaved"""
        a, b = Session(case_a, k), Session(case_b, k + 1)
        a.open()
        b.open()
        todo = [(a, j, op) for j, op in enumerate(case_a["ops"])]
        other = [(b, j, op) for j, op in enumerate(case_b["ops"])]
        merged = []
        while todo or other:
            src = todo if (todo and (not other or rng.random() < 0.5)) else other
            merged.append(src.pop(0))
        for sess, j, op in merged:
            sess.step(j, op)
        a.close()
        b.close()
        hist["interleaved_pairs"] += 1

    # ---- large recorded populations (red-team round 3, rule 7) ----------------------------------------
    # Counts that straddle powers of two and round block sizes.  Tiny individuals; position p of problem.individuals has the id
    # 3 p + 7 (so that a position is never its own id), generation g of its data: population_id g, costs [p / 2 + g], one feature.
    # scenarios:  all            sync_all over n recorded individuals
    #             ind_then_all   sync_individual for the positions around every multiple of 32, 50, 501 (and a random 4 %), then ALL the objects
    #                            are changed in place (generation 1), then sync_all: the rows must hold generation 1
    #             all_twice      sync_all, change in place, sync_all again
    # Full comparison by the direct oracle; in Coq the proved closed form (Run/C10Run.v c10_big_run / c10_big_sound: one row per
    # distinct id, the row of an id = image of its last synchronisation) on the row count and a sample of ids: first / last
    # position, both sides of every multiple of 500 and 512 up to n, two random positions, two ids that were never synchronised.
    bcases, bexpected, bmeta = [], [], []
    BIG_SIZES = [255, 256, 257, 499, 500, 501, 511, 512, 513, 999, 1000, 1001, 1002, 1023, 1024, 1025, 2049]

    def tiny(p, g):
        c = (p * 0.5 + g).hex()
        return {"id": 3 * p + 7, "vector": [{"f": float(p).hex()}], "costs": [{"f": c}], "costs_signed": [{"nf": c}, False], "state": "evaluated",
                "population_id": g, "algorithm_id": 0, "custom": {"d": []}, "features": [["precision", 7], ["front_number", g + 1]],
                "parents": [], "children": []}

    def sample_positions(n):
        pos = {0, n - 1, rng.randrange(n), rng.randrange(n)}
        for b in (500, 512):
            for q in range(b, n + 2, b):
                pos.update((q - 1, q, q + 1))
        return sorted(q for q in pos if 0 <= q < n)

    # the generated file abbreviates the image of a tiny individual (it is `enc_ind(tiny(p, g))` with the three numbers left open)
    TINY_DEF = ("Definition T (id vec cost g : Z) : individual := {| i_id := id; i_vector := [F vec]; i_costs := [F cost]; "
                "i_costs_signed := JArr [F cost; JBool false]; i_state := Evaluated; i_population_id := N g; i_algorithm_id := N 0; "
                "i_custom := JObj []; i_features := [(\"front_number\", PN (g + 1)); (\"precision\", PN 7)]; i_parents := []; i_children := [] |}.\n")

    def enc_tiny(p, g):
        d = tiny(p, g)
        t = "(T %s %d %d %d)" % (zl(d["id"]), fbits(d["vector"][0]["f"]), fbits(d["costs"][0]["f"]), g)
        return t

    def big_history(n, scenario, thread_safe, k):
        case = {"kind": "big:" + scenario, "name": "big", "description": "c10", "n_recorded": n, "scenario": scenario,
                "individuals": "position p of problem.individuals: id 3 p + 7, vector [p], costs [p / 2 + g], population_id g, features "
                               "{precision: 7, front_number: g + 1}, generation g = 0, changed in place to g = 1 between the store calls",
                "params": [{"d": [["name", "x_1"], ["bounds", [0, 4096]]]}], "costs": [{"d": [["name", "F"], ["criteria", "minimize"]]}],
                "store": {"mode": "write", "thread_safe": thread_safe, "pre": "none", "destroy": True}}
        path = os.path.join(ctx.work, "big_%05d.sqlite" % k)
        HProblem.spec = case
        problem = HProblem()
        obs, want = None, {}
        try:
            store = SqliteDataStore(problem, database_name=path, mode="write", thread_safe=thread_safe)
            problem.data_store = store
            objs = [make_ind(tiny(p, 0)) for p in range(n)]
            problem.individuals = list(objs)

            def regenerate(g):
                for p, o in enumerate(objs):
                    d = tiny(p, g)
                    o.population_id = g
                    o.costs = build(d["costs"])
                    o.costs_signed = build(d["costs_signed"])
                    o.features["front_number"] = g + 1
            try:
                with shallow():
                    if scenario == "all":
                        store.sync_all()
                        gen = 0
                    elif scenario == "all_twice":
                        store.sync_all()
                        regenerate(1)
                        store.sync_all()
                        gen = 1
                    else:
                        early = sorted({q for blk in (32, 50, 501) for b in range(0, n + blk, blk) for q in (b - 1, b, b + 1) if 0 <= q < n} | {q for q in range(n) if rng.random() < 0.04})
                        for q in early:
                            store.sync_individual(objs[q])
                        case["synchronised_individually_first"] = "%d positions: both sides of every multiple of 32, 50 and 501 and a random 4 %%" % len(early)
                        regenerate(1)
                        store.sync_all()
                        gen = 1
                want = {3 * p + 7: tiny(p, gen) for p in range(n)}
            except Exception as e:
                fail("store call raised %s: %s" % (type(e).__name__, str(e)[:300]), case, "sync raises")
                gc.collect()
                return
            store.destroy()
            obs = read_back(path)
        finally:
            dispose(problem)
        oracle(case, obs, want, True)
        if "error" in obs:
            return
        where = {}
        for j, (rid, text) in enumerate(obs["raw"]):
            where.setdefault(rid, j)
        samples, exp = [], []
        for p in sample_positions(n) + [n, n + 1]:
            iid = 3 * p + 7
            samples.append(pl(zl(iid), "(Some %s)" % enc_tiny(p, want[iid]["population_id"]) if iid in want else "None"))
            j = where.get(iid)
            if j is None:
                exp.append(pl(zl(iid), "None"))
                continue
            fields = None
            try:
                row = json.loads(obs["raw"][j][1])
                v = obs["inds"][j]
                fields = [enc_jv(describe(getattr(v, f))) for f in FIELDS] + [enc_jv(describe(row["parents"])), enc_jv(describe(row["children"]))]
            except Exception:
                fields = None
            exp.append(pl(zl(iid), "(Some %s)" % ("None" if fields is None else "(Some %s)" % ll(fields))))
        bcases.append("{| b_rows := %d; b_samples := %s |}" % (len(want), ll(samples)))
        bexpected.append(pl(zl(len(obs["raw"])), ll(exp)))
        bmeta.append(dict(case, sampled_ids=len(samples)))
        h = hist.setdefault("large_histories", {"histories": 0, "recorded_individuals": 0, "rows_compared_by_the_oracle": 0, "ids_compared_in_coq": 0, "sizes": []})
        h["histories"] += 1
        h["recorded_individuals"] += n
        h["rows_compared_by_the_oracle"] += len(want)
        h["ids_compared_in_coq"] += len(samples)
        if n not in h["sizes"]:
            h["sizes"].append(n)
        ctx.count(("big", scenario, n, thread_safe), nontrivial=True)
        try:
            os.remove(path)
        except OSError:
            pass

    # ---- complete runs of the algorithms that synchronise -----------------------------------------
    from artap.operators import RandomGenerator, CustomGenerator

    class RunProblem(Problem):
        m = 1

        def set(self, **kwargs):
            self.name = "run_%d" % self.m
            self.description = "c10"
            self.parameters = [{'name': 'x_1', 'initial_value': 2.5, 'bounds': [-3, 3], 'precision': 1e-3},
                               {'name': 'x_2', 'initial_value': 1.5, 'bounds': [-3, 3], 'precision': 1e-3}]
            self.costs = [{'name': 'F_%d' % (j + 1), 'criteria': 'minimize'} for j in range(self.m)]

        def evaluate(self, individual):
            x = individual.vector
            individual.custom["functions"] = [x[0] ** 2, x[1] ** 2]
            out = [x[0] ** 2 + x[1] ** 2, (x[0] - 1) ** 2 + x[1] ** 2 + 0.1]
            return out[:self.m]

    class RunProblem2(RunProblem):
        m = 2

    def a_sweep(p, n, g):
        from artap.algorithm_sweep import SweepAlgorithm
        gen = RandomGenerator(p.parameters)
        gen.init(n * g)
        return SweepAlgorithm(p, generator=gen)

    def popalg(modname, clsname, **opts):
        def mk(p, n, g):
            import importlib
            a = getattr(importlib.import_module("artap." + modname), clsname)(p)
            a.options['max_population_number'] = g
            a.options['max_population_size'] = n
            for kk, vv in opts.items():
                a.options[kk] = vv
            return a
        return mk

    def a_sweep_int(p, n, g):
        # designs on integer coordinates (what the swarm algorithms produce when a particle is clipped to integer bounds):
        # the objective then returns Python ints
        from artap.algorithm_sweep import SweepAlgorithm
        gen = CustomGenerator(p.parameters)
        gen.init([[1, 2], [-3, 3], [0, 0]][:max(2, n - 1)])
        return SweepAlgorithm(p, generator=gen)

    def a_scipy(p, n, g):
        from artap.algorithm_scipy import ScipyOpt
        a = ScipyOpt(p)
        a.options['algorithm'] = 'Nelder-Mead'
        a.options['n_iterations'] = n + g
        return a

    def a_graddesc(p, n, g):
        from artap.algorithm_gradient_descent import GradientDescent
        gen = CustomGenerator(p.parameters)
        gen.init([[1.0, 2.0]])
        a = GradientDescent(p, generator=gen)
        a.options["n_iterations"] = g + 1
        a.options["algorithm"] = "fixed"
        a.options["step"] = 0.25
        return a

    def a_salib(p, n, g):
        from artap.algorithm_sensitivity import SALibAlgorithm
        a = SALibAlgorithm(p)
        a.options["samples"] = 4
        a.options["method"] = "sobol"
        return a

    def a_sens(p, n, g):
        from artap.algorithm_sensitivity import Sensitivity
        a = Sensitivity(p, ['x_1'])
        a.options['max_population_size'] = n + g
        return a

    def a_cem(p, n, g):
        from artap.algorithm_cem import CEM
        a = CEM(p)          # the sample count is fixed at construction (100): cut the public attributes down
        a.options['max_population_number'] = g
        a.n_samples = 4 * n
        a.theta_mean = a.theta_mean[:a.n_samples]
        a.theta_std = a.theta_std[:a.n_samples]
        return a

    def a_nlopt(p, n, g):
        from artap.algorithm_nlopt import NLopt, LN_BOBYQA
        a = NLopt(p)
        a.options['verbose_level'] = 0
        a.options['algorithm'] = LN_BOBYQA
        a.options['n_iterations'] = n + g
        return a

    ALGS = [("sweep", 1, a_sweep), ("nsga2", 2, popalg("algorithm_NSGAII", "NSGAII")), ("epsmoea", 2, popalg("algorithm_genetic", "EpsMOEA")),
            ("monte_carlo", 1, popalg("algorithm_monte_carlo", "Monte_Carlo")),
            ("numerical_integrator", 1, popalg("algorithm_monte_carlo", "Numerical_Integrator")),
            ("scipy", 1, a_scipy), ("cmaes", 1, popalg("algorithm_cmaes", "CMA_ES")), ("cem", 1, a_cem),
            ("omopso", 2, popalg("algorithm_swarm", "OMOPSO", epsilons=0.1)), ("smpso", 2, popalg("algorithm_swarm", "SMPSO")),
            ("psoga", 2, popalg("algorithm_swarm", "PSOGA")), ("gradient_descent", 1, a_graddesc), ("salib", 1, a_salib),
            ("sensitivity", 1, a_sens), ("nlopt", 1, a_nlopt)]
    skipped = {}

    def run_case(name, m, mk, n, g, k):
        path = os.path.join(ctx.work, "run_%s_%d.sqlite" % (name, k))
        seed = rng.getrandbits(31)
        random.seed(seed)
        np.random.seed(seed)
        problem = (RunProblem2 if m == 2 else RunProblem)()
        try:
            try:
                alg = mk(problem, n, g)
            except ImportError as e:
                skipped[name] = "not importable here: %s" % e
                return
            case = {"kind": "run:" + name, "name": problem.name, "description": problem.description,
                    "params": [describe(p) for p in problem.parameters], "costs": [describe(c) for c in problem.costs], "ops": [],
                    "store": {"mode": "write", "thread_safe": True, "pre": "none", "destroy": True}, "n": n, "g": g, "seed": seed}
            store = SqliteDataStore(problem, database_name=path)
            problem.data_store = store
            real_ind, real_all = store.sync_individual, store.sync_all

            unmodelled = []
            last = {}

            def rec_ind(individual):
                last["ind"] = individual
                try:
                    case["ops"].append({"op": "sync", "ind": describe_ind(individual)})
                except ValueError as e:         # a value the model has no token for: see what the store does with it
                    unmodelled.append({"id": individual.id, "vector": repr(individual.vector), "costs": repr(individual.costs),
                                       "costs_signed": repr(individual.costs_signed), "why": str(e)})
                return real_ind(individual)

            def rec_all():
                case["ops"].append({"op": "sync_all", "inds": [describe_ind(i) for i in problem.individuals]})
                return real_all()

            store.sync_individual, store.sync_all = rec_ind, rec_all
            try:
                with shallow():
                    alg.run()
            except Exception as e:
                small = dict(case, ops="%d recorded store calls" % len(case["ops"]))
                li = last.get("ind")
                if isinstance(e, TypeError) and li is not None and any(isinstance(c, np.integer) for c in li.costs_signed):
                    # finding F12: Individual.calc_signed_costs turns a Python int cost into numpy.int64, which json.dumps refuses
                    ctx.oracle_failures.append({
                        "what": "run of %s with an SQLite store aborts in sync_individual: %s: %s (signed costs %r computed by "
                                "calc_signed_costs from the integer costs %r of design %r)" % (
                                    name, type(e).__name__, e, li.costs_signed, li.costs, li.vector),
                        "input": {"case": small, "individual": {"id": li.id, "vector": repr(li.vector), "costs": repr(li.costs),
                                                                "costs_signed": repr(li.costs_signed)}},
                        "match": {"kind": "signed_costs_numpy_int", "clause": "sync raises"}})
                else:
                    fail("complete run of %s raised %s: %s" % (name, type(e).__name__, str(e)[:200]), dict(small, unmodelled=unmodelled[-2:]), "run raises")
                gc.collect()
                return
            final = [describe_ind(i) for i in problem.individuals]
            store.destroy()
            obs = read_back(path)
        finally:
            dispose(problem)
        want = {}
        for d in final:
            want[d["id"]] = d
        small = dict(case, ops="%d recorded store calls" % len(case["ops"]), recorded_individuals=len(final))
        if len(want) != len(final):
            ctx.notes.append("run %s: two recorded individuals share an id" % name)
        oracle(small, obs, want, False)
        rcases.append(enc_case(case))
        rexpected.append(enc_expected(obs))
        rmeta.append(small)
        h = hist["runs"].setdefault(name, {"runs": 0, "store_calls": 0, "recorded": 0, "rows": 0})
        h["runs"] += 1
        h["store_calls"] += len(case["ops"])
        h["recorded"] += len(final)
        h["rows"] += len(obs.get("raw", []))
        hist["run_rows"] += len(obs.get("raw", []))
        hist["run_recorded"] += len(final)
        census(case["ops"])
        ctx.count(("run", name, n, g, len(case["ops"]), len(final)), nontrivial=len(final) >= 2)
        if name == "nsga2" and n <= 3:
            ctx.sample({"run": small, "first_call": case["ops"][0] if case["ops"] else None})
        try:
            os.remove(path)
        except OSError:
            pass

    # ---- several stores in ONE process (red-team round 4) -----------------------------------------------------------------
    # An older study is recorded into store B; a run of problem A is recorded into store A; B (or A) is READ - a read-mode view, a
    # read-mode store, a write-mode store of another problem object, any number of times -; the run on problem A / store A is
    # continued.  Ids come from the process-wide Individual.counter (never set by the harness here): reading a store may only move it
    # forward (the unchanged from_dict draws one id per row it rebuilds), so the ids of the live recorded individuals stay unique and
    # after the second run every recorded individual of both runs has its own row with its own data (hypothesis `NoDup (map i_id
    # final)` of C10_run_store_complete).
    def multi_store_case(k, plan):
        pathA = os.path.join(ctx.work, "multi_%d_A.sqlite" % k)
        pathB = os.path.join(ctx.work, "multi_%d_B.sqlite" % k)
        seed = rng.getrandbits(31)
        random.seed(seed)
        np.random.seed(seed)
        case = {"kind": "multi-store", "name": None, "description": "c10", "params": None, "costs": None, "ops": [], "plan": plan, "seed": seed,
                "store": {"mode": "write", "thread_safe": True, "pre": "none", "destroy": True}}
        todo = []
        obs = None
        try:
            with shallow():
                # the older, smaller study
                old = RunProblem()
                todo.append(old)
                old.data_store = SqliteDataStore(old, database_name=pathB)
                a_sweep(old, plan["old"], 1).run()
                old.data_store.destroy()
                old_ids = [i.id for i in old.individuals]
                # the current study: first run
                m, mk = {"sweep": (1, a_sweep), "nsga2": (2, popalg("algorithm_NSGAII", "NSGAII"))}[plan["first"]]
                problem = (RunProblem2 if m == 2 else RunProblem)()
                todo.append(problem)
                case.update(name=problem.name, params=[describe(p) for p in problem.parameters], costs=[describe(c) for c in problem.costs])
                store = SqliteDataStore(problem, database_name=pathA)
                problem.data_store = store
                real_ind, real_all = store.sync_individual, store.sync_all

                def rec_ind(individual):
                    case["ops"].append({"op": "sync", "ind": describe_ind(individual)})
                    return real_ind(individual)

                def rec_all():
                    case["ops"].append({"op": "sync_all", "inds": [describe_ind(i) for i in problem.individuals]})
                    return real_all()
                store.sync_individual, store.sync_all = rec_ind, rec_all
                mk(problem, plan["n1"], 2).run()
                counter_before = Individual.counter
                for how in plan["reads"]:
                    target = pathA if how.endswith(":A") else pathB
                    if how.startswith("view"):
                        v = ProblemViewDataStore(database_name=target)
                    else:
                        v = RunProblem()
                        v.data_store = SqliteDataStore(v, database_name=target, mode="read" if how.startswith("read") else "write")
                        v.data_store.destroy()
                    todo.append(v)
                counter_after = Individual.counter
                if counter_after < counter_before:
                    note_mismatch("reading a store (%r) moved Individual.counter from %d back to %d: in the model ids are given once; the unchanged "
                                  "from_dict only draws further ids" % (plan["reads"], counter_before, counter_after), dict(case, ops="…"))
                # the current study continued on the same problem and store
                for n2 in plan["more"]:
                    a_sweep(problem, n2, 1).run()
                final = [describe_ind(i) for i in problem.individuals]
                live_ids = [i.id for i in problem.individuals]
                store.destroy()
                obs = read_back(pathA)
        except Exception as e:
            fail("history over several stores raised %s: %s" % (type(e).__name__, str(e)[:200]), dict(case, ops="%d recorded store calls" % len(case["ops"])), "run raises")
            gc.collect()
            return
        finally:
            for p_ in todo:
                dispose(p_)
        small = dict(case, ops="%d recorded store calls" % len(case["ops"]), recorded_individuals=len(final), ids_of_the_older_store=old_ids,
                     ids_of_the_recorded_individuals=live_ids)
        want = {}
        for d in final:
            want[d["id"]] = d
        if len(want) != len(final):
            dup = sorted(i for i in set(live_ids) if live_ids.count(i) > 1)
            fail("recorded individuals of ONE problem share ids %r after another store was read (%d individuals, %d distinct ids): ids of "
                 "live individuals must stay unique" % (dup[:6], len(final), len(want)), small, "recorded ids unique", ids=dup[:20])
        if "error" not in obs and len(obs["raw"]) < len(final):          # (NSGA-II also stores offspring it does not record: more rows are fine)
            fail("%d individuals recorded by the runs on store A, %d rows in the store" % (len(final), len(obs["raw"])), small, "row per recorded individual")
        oracle(small, obs, want, False)
        rcases.append(enc_case(case))
        rexpected.append(enc_expected(obs))
        rmeta.append(small)
        h = hist.setdefault("several_stores_in_one_process", {"histories": 0, "store_reads": 0, "recorded": 0, "rows": 0, "reads": {}})
        h["histories"] += 1
        h["store_reads"] += len(plan["reads"])
        h["recorded"] += len(final)
        h["rows"] += len(obs.get("raw", []))
        for how in plan["reads"]:
            h["reads"][how] = h["reads"].get(how, 0) + 1
        census(case["ops"])
        ctx.count(("multi", json.dumps(plan["reads"]), plan["old"], plan["n1"], tuple(plan["more"]), len(final)), nontrivial=True)
        for pth in (pathA, pathB):
            try:
                os.remove(pth)
            except OSError:
                pass

    # the run directed at finding F12 first (its failure must be reported under its own match, before other failures saturate)
    run_case("sweep_integer_designs", 1, a_sweep_int, 3, 1, 99)

    # ---- corpus first ------------------------------------------------------------------------------
    cdir = os.path.join(os.path.dirname(os.path.dirname(os.path.abspath(__file__))), "corpus", "C10")
    k = 0
    if os.path.isdir(cdir):
        for fn in sorted(os.listdir(cdir)):
            if fn.endswith(".json"):
                case = json.load(open(os.path.join(cdir, fn)))
                case["kind"] = "corpus:" + fn[:-5]
                history_case(case, k)
                k += 1
    n_corpus = k
    for _ in range(ctx.pick(200, 1200)):
        if saturated():
            break
        history_case(gen_history(rng), k)
        k += 1
    # custom data / feature keys / description values dominated by strings that are JSON tokens or need escaping
    for _ in range(ctx.pick(50, 400)):
        if saturated():
            break
        history_case(gen_history(rng, strings=True), k)
        hist["special_string_histories"] += 1
        k += 1
    # text that looks like a number wherever the store keeps text (red-team round 6): names of the problem / parameters / costs (several
    # of one problem equal as numbers, different as text), description, description values and keys, custom data, feature keys
    hist["numeric_text"] = {"histories": 0, "problem_names": [], "names_numerically_equal_within_one_problem": 0, "reopened": 0}
    t_num = time.time()
    for _ in range(ctx.pick(40, 300)):
        if saturated():
            break
        case = gen_history(rng, numeric=True)
        case["kind"] = "numeric-text"
        history_case(case, k)
        nt = hist["numeric_text"]
        nt["histories"] += 1
        nt["reopened"] += any(o["op"] == "reopen" for o in case["ops"])
        if case["name"] not in nt["problem_names"] and len(nt["problem_names"]) < 60:
            nt["problem_names"].append(case["name"])
        for key in ("params", "costs"):
            names = [dict(x["d"])["name"] for x in case[key]]
            nt["names_numerically_equal_within_one_problem"] += any(len(names) > 1 and all(n in g for n in names) for g in NUM_GROUPS)
        k += 1
    hist["numeric_text"]["python_s"] = round(time.time() - t_num, 2)
    # sync_individual while a second connection holds the database lock (red-team round 3)
    t_lock = time.time()
    for _ in range(ctx.pick(8, 40)):
        if saturated():
            break
        history_case(gen_lock_history(rng), k)
        k += 1
    hist["foreign_lock"]["python_s"] = round(time.time() - t_lock, 2)
    for _ in range(ctx.pick(20, 80)):
        if saturated():
            break
        ca, cb = gen_history(rng), gen_history(rng)
        if ca["ops"] and rng.random() < 0.7:        # the same individuals written to both stores
            shared = [o for o in ca["ops"] if o["op"] != "reopen" and rng.random() < 0.7]
            cb["ops"] = [o for o in cb["ops"] if o["op"] != "reopen"][:3] + shared
            rng.shuffle(cb["ops"])
            cb["reuse_objects"] = False             # (the objects of the other session carry its own descriptions)
        history_pair(ca, cb, k)
        k += 2
    for _ in range(ctx.pick(12, 120)):
        if saturated():
            break
        history_case(gen_history(rng, degenerate=True), k)
        k += 1

    # ---- large recorded populations: every size, sync_all alone and after individual synchronisations -------
    kb = 0
    t_big = time.time()
    for n in BIG_SIZES:
        for scenario in (["all", "ind_then_all"] if not ctx.thorough else ["all", "ind_then_all", "all_twice"]):
            if saturated():
                break
            big_history(n, scenario, (kb % 3) != 2, kb)
            kb += 1
    if ctx.thorough:
        for n in (127, 128, 129, 2047, 2048, 4095, 4096, 4097):
            big_history(n, rng.choice(["all", "ind_then_all", "all_twice"]), rng.random() < 0.7, kb)
            kb += 1

    hist.setdefault("large_histories", {})["python_s"] = round(time.time() - t_big, 2)

    # ---- one complete run of every synchronising algorithm (thorough: six of different sizes) -------
    k = 100
    for rep in range(ctx.pick(1, 6)):
        for name, m, mk in ALGS:
            if saturated():
                break
            n, g = (rng.choice([2, 3, 4]), rng.choice([2, 3])) if rep else (3, 2)
            run_case(name, m, mk, n, g, k)
            k += 1
    for name, why in sorted(skipped.items()):
        ctx.notes.append("algorithm %s not exercised: %s" % (name, why))

    # ---- several stores in one process: an older store is read between two runs on the same problem and store -------
    plans = [{"old": 4, "first": "sweep", "n1": 4, "reads": ["view:B"], "more": [8]},                      # the red team's demo
             {"old": 2, "first": "nsga2", "n1": 3, "reads": ["write:B"], "more": [3]},
             {"old": 3, "first": "sweep", "n1": 3, "reads": ["read:B", "view:B", "view:B", "view:A"], "more": [2, 3]},
             {"old": 1, "first": "sweep", "n1": 2, "reads": ["view:A", "view:B"], "more": [5]},
             {"old": 5, "first": "sweep", "n1": 1, "reads": [], "more": [3]}]                                   # control: no read in between
    for rep in range(ctx.pick(1, 4)):
        for j, plan in enumerate(plans):
            if saturated():
                break
            pl_ = dict(plan)
            if rep:
                pl_.update(old=rng.randint(1, 6), n1=rng.randint(1, 5), more=[rng.randint(1, 6) for _ in range(rng.choice([1, 2]))])
                pl_["reads"] = [rng.choice(["view:B", "view:B", "write:B", "read:B", "view:A"]) for _ in range(rng.randint(1, 4))]
            multi_store_case(200 + 10 * rep + j, pl_)

    ctx.coq_compare("c10h", header(), "c10_case", "c10_obs", "c10_run", "c10_eqb", cases, expected, meta, shard=ctx.pick(20, 60))
    ctx.coq_compare("c10r", header(), "c10_case", "c10_obs", "c10_run", "c10_eqb", rcases, rexpected, rmeta, shard=ctx.pick(1, 3))
    ctx.coq_compare("c10b", header() + TINY_DEF, "c10_big", "c10_big_obs", "c10_big_run", "c10_big_eqb", bcases, bexpected, bmeta, shard=ctx.pick(17, 25))
    hist["corpus_cases"] = n_corpus
    hist["algorithms_not_exercised"] = skipped
    ctx.extra.update({"distribution": hist})
    ctx.rule = ("histories of 0..14 (one in ten: 25, 40 or 60) sync_individual / sync_all calls over 1..7 ids drawn from a pool with negative and 2^62-size ids, the data "
                "re-drawn between calls (so that 'last wins' is observable), written to a real SQLite file (thread-safe and single-connection "
                "store, write / rewrite mode, fresh / empty / stale file) and read through a fresh ProblemViewDataStore; strings that are JSON tokens / number look-alikes / need "
                "escaping (Infinity, NaN, 1e999, quotes, backslashes, NUL, lone surrogates, 2.4 kB) as custom values and keys, feature keys, "
                "description values (corpus 17, a directed stream of 50 / 400 histories, thinly everywhere); a history is "
                "non-trivial when it writes at least two individual images; distinct = distinct encoded cases. Runs: one complete short run "
                "per synchronising algorithm (%d algorithms), all store calls recorded. Large histories: 255..2049 recorded tiny individuals "
                "(17 counts around powers of two and multiples of 500), sync_all alone / after individual synchronisations and an in-place "
                "change, all rows compared by the oracle, row count and sampled ids against the proved closed form in Coq. Lock histories: "
                "the last sync_individual calls (existing id, new id) are made while a second connection holds BEGIN EXCLUSIVE until the "
                "store has been refused 3..10 times." % len(ALGS))


LEVEL_TEXT = ("Machine-checked Coq theorems over a model of Individual.to_dict / _replace_individual_id / from_dict, the individuals table with "
              "its INSERT .. ON CONFLICT(id) DO UPDATE upsert, sync_individual, sync_all, the read-mode view and the main / parameters / costs "
              "tables: for every history of sync_individual / sync_all calls (unbounded length, any ids, any JSON trees) the table has exactly "
              "one row per id holding the image of the last synchronisation of that id, the row count is the number of distinct ids, the view "
              "rebuilds vector, costs, signed costs, population id, custom data and feature values (individuals replaced by their ids) of that "
              "last synchronisation, a final sync_all leaves a row with the final data of every recorded individual, and the problem's name, "
              "parameter and cost definitions are read back unchanged whenever the parameter / cost names are distinct strings (only this "
              "success direction is a listed theorem, C10_problem_meta_roundtrip; that creation fails on a duplicate name is the lemma "
              "insert_all_dup and an example, not a listed theorem; for a missing name there is no lemma, the correspondence exercises both). The model is tied "
              "to the code on every run by evaluating it in Coq on generated and corpus histories and on the recorded store calls of complete "
              "runs of every synchronising algorithm, against a real SQLite file read through a fresh ProblemViewDataStore (floats compared by "
              "bit pattern).")
LEVEL_NOTE = ("Proof over the artap-specific logic. Assumed and exercised, not modelled: json.loads(json.dumps(t)) = t on JSON-able trees "
              "(numbers are opaque tokens) and SQLite's upsert / SELECT semantics. 'After an algorithm run' is proved for every history that "
              "ends with sync_all over the recorded individuals, which is how every synchronising algorithm ends (checked by complete runs of "
              "15 algorithms, not proved per algorithm). Non-empty strings / dicts as feature values are outside the model (the code recurses "
              "without end on them). Correspondence is sampled, the theorems are unbounded.")
