"""C13 - factorial and screening designs: correspondence with Model/Doe.v and direct oracle.

The real Generator classes of artap.operators (and doe.build_gsd with n > 1 complementary
designs, which the GSDGenerator wrapper cannot return) are driven on generated parameter
lists; the full list of rows, in order, is compared with the model evaluated inside Coq.
The direct oracle evaluates the clauses of the property on the implementation's own output
(order-independent, so a change of row order alone does not make the oracle fail).
"""
import itertools
from collections import Counter

from harness.core import fl, nl, bl, ll, pl

PROP = "C13"
THEOREMS = {"Artap.Props.C13": [
    "C13_fullfact_index_bijective", "C13_fullfact_bijective",
    "C13_pb_structure", "C13_pb_levels", "C13_pb_rejects",
    "C13_bb_structure", "C13_bb_levels",
    "C13_gsd_partition", "C13_gsd_complementary", "C13_gsd_succeeds", "C13_gsd_generate_subset"]}
AXIOMS_OK = []
TRUSTED = [
    "Coq 8.16.1 kernel, vm_compute (the 23 Plackett-Burman sizes are checked by kernel computation; model evaluation in the correspondence)",
    "hand-written model Model/Doe.v tied to doe.py / operators.py by this correspondence run (numpy arrays are lists of rows; "
    "scipy toeplitz/hankel, np.roll, itertools.product, np.frexp power-of-two test are modelled by their definitions)",
    "the Box-Behnken in-place slice assignments H[4(Index-1):4 Index, i] = H_fact[:, 0] are modelled functionally (one block of four rows per pair, in loop order)",
    "level values are binary64 floats compared bit for bit; the mid level (l_b + u_b) / 2 and list.sort() of three levels are evaluated with PrimFloat in the driver Run/C13Run.v",
]
ASSUMPTIONS = [
    "parameter names are distinct (the Generator classes key a dict by name)",
    "level values are non-NaN floats; |bounds| small enough that (l_b + u_b) does not overflow",
    "fullfact for zero factors raises TypeError in the code (np.prod([]) is a float); the theorems are stated for >= 1 factor",
    "the generalized-subset-design theorems are conditional on build_gsd not raising (level counts >= 2, reduction >= 2); "
    "C13_gsd_succeeds shows it does not raise for >= 2 factors when the reduction does not exceed any level count",
]

HEADER = ("From Artap Require Import Run.C13Run.\nFrom Coq Require Import List ZArith Floats.\n"
          "Import ListNotations.\nOpen Scope float_scope.\n")

ERR = {"AssertionError": 1, "ValueError": 2, "TypeError": 3, "IndexError": 4}

GRID = [0.0, 1.0, 2.0, 3.0, -1.0, -2.5, 5.0, 0.5, 1.5, 10.0, 0.1, 0.2, 0.3, 3.4, 6.0, 1e-9, 1e6, -7.25, 100.0, 0.30000000000000004]


def params_of(bounds):
    return [{"name": "x_%d" % i, "bounds": [b[0], b[1]], "initial_value": b[0]} for i, b in enumerate(bounds)]


def gen_bounds(rng, k, degenerate=0.1):
    out = []
    for _ in range(k):
        r = rng.random()
        a = rng.choice(GRID)
        if r < degenerate / 2:
            b = a                                   # lb == ub
        elif r < degenerate:
            b = a - rng.choice([0.5, 1.0, 3.0])     # lb > ub
        else:
            b = a + rng.choice([0.5, 1.0, 2.0, 2.4, 7.5, 1e-3, 1e3])
        out.append((float(a), float(b)))
    return out


def gen_levels(rng, k, maxlen, cap):
    """k level lists, product of lengths <= cap; values from the grid (duplicates now and then)."""
    while True:
        lens = [rng.choice([1, 2, 2, 3, 3, 4, 5, 6][:maxlen + 2]) for _ in range(k)]
        p = 1
        for x in lens:
            p *= x
        if p * max(k, 1) <= cap:
            break
    vals = []
    for n in lens:
        if rng.random() < 0.85:
            v = rng.sample(GRID, n)
        else:
            v = [rng.choice(GRID[:4]) for _ in range(n)]
        vals.append([float(x) for x in v])
    return vals


def rows_lit(rows):
    return "ORows " + ll(rows, lambda r: ll(r, fl))


def designs_lit(ds):
    return "ODesigns " + ll(ds, lambda d: ll(d, lambda r: ll(r, nl)))


def run(ctx):
    import numpy as np
    import artap.operators as ops
    import artap.doe as doe
    rng = ctx.rng
    cases, expected, meta = [], [], []
    kinds = Counter()
    errors = Counter()
    sizes = Counter()
    cap = ctx.pick(5000, 60000)

    def fail(what, inp, kind):
        ctx.oracle_failures.append({"what": what, "input": inp, "match": dict(kind=kind, **inp)})

    def call(f):
        try:
            return f(), None
        except (AssertionError, ValueError, TypeError, IndexError, ZeroDivisionError) as e:
            return None, type(e).__name__

    def to_rows(out):
        return [[float(x) for x in r] for r in out]

    def push(kind, case, exp, m, key, nontrivial=True):
        cases.append(case)
        expected.append(exp)
        meta.append(m)
        kinds[kind] += 1
        ctx.count((kind,) + key, nontrivial=nontrivial)
        if nontrivial and sum(1 for s in ctx.samples if s.get("kind") == kind) == 0 and len(ctx.samples) < 6 \
                and m.get("rows", 99) <= 16:
            ctx.sample(m, limit=6)

    # ---- full factorial -------------------------------------------------------------------
    def oracle_full(levels, rows, inp):
        want = Counter(itertools.product(*levels))
        got = Counter(tuple(r) for r in rows)
        if got != want:
            missing = list((want - got).keys())[:2]
            extra = list((got - want).keys())[:2]
            fail("full factorial is not every level combination exactly once: %d rows for %d combinations, missing %r, surplus %r"
                 % (len(rows), sum(want.values()), missing, extra), inp, "fullfact")

    def do_full(center, bounds):
        g = ops.FullFactorGenerator(parameters=params_of(bounds))
        g.init(center)
        out, e = call(g.generate)
        inp = {"generator": "FullFactorGenerator", "center": bool(center), "bounds": [list(b) for b in bounds]}
        case = "CFull %s %s" % (bl(center), ll(bounds, lambda b: pl(fl(b[0]), fl(b[1]))))
        if e is not None:
            errors[e] += 1
            if bounds:
                fail("FullFactorGenerator raised %s" % e, inp, "fullfact")
            push("full", case, "OErr %s" % nl(ERR.get(e, 9)), dict(inp, kind="full", error=e), (center, tuple(bounds)), nontrivial=False)
            return
        rows = to_rows(out)
        levels = [[b[0], (b[0] + b[1]) / 2.0, b[1]] if center else [b[0], b[1]] for b in bounds]
        oracle_full(levels, rows, inp)
        sizes["full:%d" % len(bounds)] += 1
        push("full", case, rows_lit(rows), dict(inp, kind="full", rows=len(rows)), (center, tuple(bounds)))

    def do_full_levels(values, nparams):
        params = [{"name": "U_%d" % i} for i in range(nparams)]
        g = ops.FullFactorLevelsGenerator(parameters=params)
        g.init([list(v) for v in values])
        out, e = call(g.generate)
        used = values[:nparams]
        inp = {"generator": "FullFactorLevelsGenerator", "values": values, "n_parameters": nparams}
        case = "CFullLevels %s %s" % (ll(values, lambda v: ll(v, fl)), nl(nparams))
        key = (tuple(tuple(v) for v in values), nparams)
        if e is not None:
            errors[e] += 1
            if used:
                fail("FullFactorLevelsGenerator raised %s" % e, inp, "fullfact_levels")
            push("full_levels", case, "OErr %s" % nl(ERR.get(e, 9)), dict(inp, kind="full_levels", error=e), key, nontrivial=False)
            return
        rows = to_rows(out)
        oracle_full(used, rows, inp)
        sizes["full_levels:%d" % len(used)] += 1
        push("full_levels", case, rows_lit(rows), dict(inp, kind="full_levels", rows=len(rows)), key,
             nontrivial=len(rows) > 1)

    # ---- Plackett-Burman ------------------------------------------------------------------
    def do_pb(bounds):
        n = len(bounds)
        g = ops.PlackettBurmanGenerator(parameters=params_of(bounds))
        out, e = call(g.generate)
        inp = {"generator": "PlackettBurmanGenerator", "bounds": [list(b) for b in bounds]}
        case = "CPB %s" % ll(bounds, lambda b: pl(fl(b[0]), fl(b[1])))
        if e is not None:
            errors[e] += 1
            if 1 <= n <= 23:
                fail("PlackettBurmanGenerator raised %s for the supported size %d" % (e, n), inp, "pb")
            push("pb", case, "OErr %s" % nl(ERR.get(e, 9)), dict(inp, kind="pb", error=e, n=n), (tuple(bounds),), nontrivial=False)
            return
        rows = to_rows(out)
        # the clauses of the property, on the implementation's output
        runs = 4 * (n // 4 + 1)
        problems = []
        if len(rows) != runs:
            problems.append("run count %d, expected %d" % (len(rows), runs))
        if any(len(r) != n for r in rows):
            problems.append("a row does not have %d entries" % n)
        else:
            for j, (lb, ub) in enumerate(bounds):
                col = [r[j] for r in rows]
                if any(x != lb and x != ub for x in col):
                    problems.append("column %d uses a value other than its two bounds" % j)
                    break
            distinct = [j for j, (lb, ub) in enumerate(bounds) if lb != ub]
            sign = {j: [1 if r[j] == bounds[j][1] else -1 for r in rows] for j in distinct}
            for j in distinct:
                if sum(sign[j]) != 0:
                    problems.append("column %d is not balanced (sum of signs %d)" % (j, sum(sign[j])))
                    break
            for a, b in itertools.combinations(distinct, 2):
                d = sum(x * y for x, y in zip(sign[a], sign[b]))
                if d != 0:
                    problems.append("columns %d and %d are not orthogonal (dot %d)" % (a, b, d))
                    break
        if problems:
            fail("Plackett-Burman design for %d factors: %s" % (n, "; ".join(problems)), inp, "pb")
        sizes["pb:%d" % n] += 1
        push("pb", case, rows_lit(rows), dict(inp, kind="pb", rows=len(rows), n=n), (tuple(bounds),))

    # ---- Box-Behnken ----------------------------------------------------------------------
    def do_bb(bounds):
        n = len(bounds)
        g = ops.BoxBehnkenGenerator(parameters=params_of(bounds))
        out, e = call(g.generate)
        inp = {"generator": "BoxBehnkenGenerator", "bounds": [list(b) for b in bounds]}
        case = "CBB %s" % ll(bounds, lambda b: pl(fl(b[0]), fl(b[1])))
        if e is not None:
            errors[e] += 1
            if n >= 3:
                fail("BoxBehnkenGenerator raised %s for %d factors" % (e, n), inp, "bb")
            push("bb", case, "OErr %s" % nl(ERR.get(e, 9)), dict(inp, kind="bb", error=e, n=n), (tuple(bounds),), nontrivial=False)
            return
        rows = to_rows(out)
        if n >= 3:
            mid = [(lb + ub) / 2 for lb, ub in bounds]
            want = Counter()
            for i, j in itertools.combinations(range(n), 2):
                for a in bounds[i]:
                    for b in bounds[j]:
                        r = list(mid)
                        r[i], r[j] = a, b
                        want[tuple(r)] += 1
            want[tuple(mid)] += 1
            got = Counter(tuple(r) for r in rows)
            if got != want:
                fail("Box-Behnken design for %d factors is not the +/- corners of every factor pair plus one centre run: "
                     "%d rows (expected %d), missing %r, surplus %r"
                     % (n, len(rows), sum(want.values()), list((want - got).keys())[:2], list((got - want).keys())[:2]), inp, "bb")
        sizes["bb:%d" % n] += 1
        push("bb", case, rows_lit(rows), dict(inp, kind="bb", rows=len(rows), n=n), (tuple(bounds),))

    # ---- generalized subset designs -------------------------------------------------------
    def oracle_gsd(levels, reduction, designs, complete, inp, kind):
        full = set(itertools.product(*[range(L) for L in levels]))
        seen = set()
        for k, d in enumerate(designs):
            rows = [tuple(r) for r in d]
            if len(set(rows)) != len(rows):
                fail("generalized subset design %d contains a duplicated run" % k, inp, kind)
                return
            if not set(rows) <= full:
                fail("generalized subset design %d has a run outside the full factorial: %r" % (k, sorted(set(rows) - full)[:2]), inp, kind)
                return
            if seen & set(rows):
                fail("complementary designs overlap: run %r is in design %d and in an earlier one" % (sorted(seen & set(rows))[0], k), inp, kind)
                return
            seen |= set(rows)
        if complete and seen != full:
            fail("the %d complementary designs do not cover the full factorial: %d of %d runs, e.g. %r missing"
                 % (reduction, len(seen), len(full), sorted(full - seen)[:2]), inp, kind)

    def do_gsd(levels, reduction, n):
        out, e = call(lambda: doe.build_gsd([int(x) for x in levels], int(reduction), int(n)))
        inp = {"function": "build_gsd", "levels": list(levels), "reduction": reduction, "n": n}
        case = "CGSD %s %s %s" % (ll(levels, nl), nl(reduction), nl(n))
        key = (tuple(levels), reduction, n)
        if e is not None:
            errors[e] += 1
            push("gsd", case, "OErr %s" % nl(ERR.get(e, 9)), dict(inp, kind="gsd", error=e), key, nontrivial=False)
            return
        designs = [out] if n == 1 else list(out)
        designs = [[[int(x) for x in r] for r in d] for d in designs]
        if any(x < 0 for d in designs for r in d for x in r):
            fail("generalized subset design has a negative level index", inp, "gsd")
            designs = [[[max(x, 0) for x in r] for r in d] for d in designs]
        if n >= reduction and len(designs) != reduction:
            fail("build_gsd returned %d designs when all %d complementary designs were requested (n=%d)"
                 % (len(designs), reduction, n), inp, "gsd")
        oracle_gsd(levels, reduction, designs, n >= reduction, inp, "gsd")
        sizes["gsd:%d" % len(levels)] += 1
        push("gsd", case, designs_lit(designs), dict(inp, kind="gsd", rows=sum(len(d) for d in designs)), key)

    def do_gsd_gen(values, reduction):
        g = ops.GSDGenerator(parameters=[{"name": "U_%d" % i} for i in range(len(values))])
        g.init([list(v) for v in values], reduction=reduction)
        out, e = call(g.generate)
        inp = {"generator": "GSDGenerator", "values": values, "reduction": reduction}
        case = "CGSDGen %s %s" % (ll(values, lambda v: ll(v, fl)), nl(reduction))
        key = (tuple(tuple(v) for v in values), reduction)
        if e is not None:
            errors[e] += 1
            push("gsd_gen", case, "OErr %s" % nl(ERR.get(e, 9)), dict(inp, kind="gsd_gen", error=e), key, nontrivial=False)
            return
        rows = to_rows(out)
        got = Counter(tuple(r) for r in rows)
        want = Counter(itertools.product(*values))
        if got - want:
            fail("GSDGenerator returns a run that is not in the full factorial (or more often than there): %r" % (list((got - want).keys())[:2],),
                 inp, "gsd_gen")
        sizes["gsd_gen:%d" % len(values)] += 1
        push("gsd_gen", case, rows_lit(rows), dict(inp, kind="gsd_gen", rows=len(rows)), key)

    # ---- corpus: boundary cases read off the code -----------------------------------------
    do_full(False, [])                                    # zero factors: np.prod([]) is a float -> TypeError
    do_full(False, [(-2.5, 5.0), (1.0, 3.4), (6.0, 10.0)])  # the test-suite parameters
    do_full(True, [(-2.5, 5.0), (1.0, 3.4), (6.0, 10.0)])
    do_full(True, [(1.0, 1.0)])
    do_full_levels([[0.0, 0.25, 0.5, 0.75, 1.0], [-90.0, -67.5, -45.0]], 2)
    do_full_levels([[1.0, 2.0], [], [5.0]], 3)            # an empty level list: no rows
    do_full_levels([[1.0, 2.0], [3.0, 4.0], [5.0]], 2)    # zip truncation
    do_full_levels([[1.0, 2.0]], 3)
    do_full_levels([], 0)
    do_full_levels([[2.0, 4.0, 3.0]], 1)
    for n in range(0, 28):                                # every size 0..27 (0 and 24..27 are rejected)
        do_pb(gen_bounds(rng, n, degenerate=0.0) if n != 3 else [(-2.5, 5.0), (1.0, 3.4), (6.0, 10.0)])
    for n in (28, 31, 32, 36, 40, 44, 47):                # beyond the property's range: doubling of the seeds, more rejections
        do_pb(gen_bounds(rng, n, degenerate=0.0))
    for n in range(0, 9):
        do_bb(gen_bounds(rng, n, degenerate=0.0) if n != 3 else [(-2.5, 5.0), (1.0, 3.4), (6.0, 10.0)])
    do_bb([(5.0, -2.5), (1.0, 1.0), (6.0, 10.0)])         # reversed and coincident bounds: list.sort()
    do_gsd_gen([[1.0, 3.0, 2.0], [6.0, 8.0, 4.0]], 2)     # the test-suite case
    do_gsd_gen([], 2)
    do_gsd_gen([[1.0, 2.0, 3.0]], 2)
    for lv, r, n in [([3, 4], 2, 2), ([3, 4, 6], 4, 1), ([2, 3], 5, 1), ([3], 2, 1), ([2, 2, 2], 3, 3), ([1, 3], 2, 1),
                     ([], 2, 1), ([3, 4], 2, 3), ([3, 4], 2, 0), ([3, 4], 1, 1), ([3, 4], 0, 1), ([2, 2], 2, 2),
                     ([3, 4, 6], 4, 4), ([5, 5], 5, 5), ([6, 2, 3], 3, 2), ([2, 2, 2, 2, 2], 2, 2), ([7, 3], 6, 6),
                     ([4, 4, 4], 4, 4), ([2, 2], 3, 3), ([0, 3], 2, 1), ([3, 3, 3], 3, 3)]:
        do_gsd(lv, r, n)

    # ---- generated cases -------------------------------------------------------------------
    for _ in range(ctx.pick(40, 400)):
        k = rng.choice([1, 2, 2, 3, 3, 4, 5, 6, 7, 8])
        center = rng.random() < 0.5
        while (3 if center else 2) ** k * k > cap:
            k -= 1
        do_full(center, gen_bounds(rng, k))
    for _ in range(ctx.pick(60, 600)):
        k = rng.choice([1, 2, 3, 3, 4, 4, 5, 6, 7, 8])
        values = gen_levels(rng, k, 6, cap)
        if rng.random() < 0.05:
            values[rng.randrange(k)] = []
        r = rng.random()
        nparams = k if r < 0.8 else (k + 1 if r < 0.9 else max(k - 1, 0))
        do_full_levels(values, nparams)
    for _ in range(ctx.pick(30, 300)):
        n = rng.randint(1, 27)
        do_pb(gen_bounds(rng, n, degenerate=0.08))
    for _ in range(ctx.pick(24, 200)):
        n = rng.randint(3, ctx.pick(8, 12)) if rng.random() < 0.9 else rng.randint(0, 2)
        do_bb(gen_bounds(rng, n, degenerate=0.1))
    for _ in range(ctx.pick(90, 900)):
        k = rng.choice([2, 2, 3, 3, 4, 4, 5, 6, 7, 8]) if rng.random() < 0.93 else rng.choice([0, 1])
        while True:
            levels = [rng.choice([2, 2, 3, 3, 4, 5, 6, 7] if rng.random() < 0.95 else [1, 0]) for _ in range(k)]
            p = 1
            for x in levels:
                p *= x
            if p * max(k, 1) <= cap:
                break
        r = rng.choice([2, 2, 3, 3, 4, 5, 6]) if rng.random() < 0.95 else rng.choice([0, 1, 7, 8])
        q = rng.random()
        n = r if q < 0.6 else (1 if q < 0.75 else (rng.randint(2, max(r, 2)) if q < 0.92 else rng.choice([0, r + 1, r + 3])))
        do_gsd(levels, r, n)
    for _ in range(ctx.pick(40, 400)):
        k = rng.choice([2, 2, 3, 3, 4, 5, 6, 7, 8]) if rng.random() < 0.95 else rng.choice([0, 1])
        values = gen_levels(rng, k, 6, cap)
        do_gsd_gen(values, rng.choice([2, 2, 3, 3, 4, 5]))

    ctx.coq_compare("c13", HEADER, "c13_case", "c13_obs", "c13_run", "c13_obs_eqb", cases, expected, meta, shard=ctx.pick(24, 60))
    ctx.rule = ("generator runs for factor counts 0..8 (Plackett-Burman 0..27 plus a few sizes up to 47, Box-Behnken up to %d), bounds and level "
                "lists over a value grid with reversed / coincident bounds and repeated level values, reductions 0..8 and 0..r+3 complementary "
                "designs; a case is non-trivial when the implementation returned a design (rejected sizes are compared too but not counted); "
                "distinct = distinct (generator, parameters)") % ctx.pick(8, 12)
    ctx.extra.update({"case_kinds": dict(kinds), "exceptions_compared": dict(errors), "sizes": dict(sorted(sizes.items())),
                      "rows_compared": sum(m.get("rows", 0) for m in meta)})


LEVEL_TEXT = ("Machine-checked Coq theorems over an executable model of fullfact/construct_df, pbdesign, bbdesign and build_gsd with its "
              "helpers: the full factorial is duplicate-free and is exactly the Cartesian product for every factor count >= 1 and all level "
              "counts (induction); the Plackett-Burman construction (seed matrices, Kronecker doubling, column selection, flip) yields for "
              "every size 1..23 the stated run count, +/-1 entries, balanced and pairwise orthogonal columns (kernel computation over the "
              "whole family) and rejects 0 and 24..27; the Box-Behnken design for every n >= 3 is duplicate-free and consists exactly of the +/- "
              "corners of every factor pair with the other factors at mid level plus one centre run; for every reduction r >= 2 and every "
              "list of level counts >= 2 (induction over the column-augmentation loop, no size bound) the complementary generalized subset "
              "designs are duplicate-free, pairwise disjoint subsets of the full factorial and the r of them cover it, whenever build_gsd "
              "does not raise (it provably does not for >= 2 factors with r <= every level count). The model is tied to the Generator "
              "classes and doe.build_gsd on every run by comparing complete row lists, in order, for generated parameter sets.")
LEVEL_NOTE = ("Full (no partial theorem). Trusted: Coq kernel + vm_compute; the hand-written model and the Python harness. Correspondence is "
              "sampled (corpus + generated cases); the theorems are unbounded except pb_structure, whose bound 1..23 is the property's own.")
