"""C13 - factorial and screening designs: correspondence with Model/Doe.v and direct oracle.

The real Generator classes of artap.operators (and doe.build_gsd with n > 1 complementary
designs, which the GSDGenerator wrapper cannot return) are driven on generated parameter
lists; the full list of rows, in order, is compared with the model evaluated inside Coq.
The direct oracle evaluates the clauses of the property on the implementation's own output
(order-independent, so a change of row order alone does not make the oracle fail).
"""
import itertools
import json
from collections import Counter

from harness.core import fl, nl, bl, ll, pl, translated_specs
TRANSLATED = translated_specs("DoeGen")      # doe.fullfact, ff2n: regenerated from the source on every run (numpy front-end, notes/TRANSLATOR.md)

PROP = "C13"
THEOREMS = {"Artap.Props.C13": [
    "C13_fullfact_index_bijective", "C13_fullfact_bijective",
    "C13_fullfact_row_closed_form", "C13_build_full_fact_row_closed_form",
    "C13_pb_structure", "C13_pb_levels", "C13_pb_rejects",
    "C13_bb_structure", "C13_bb_levels",
    "C13_gsd_partition", "C13_gsd_complementary", "C13_gsd_succeeds", "C13_gsd_generate_subset"]}
AXIOMS_OK = []
TRUSTED = [
    "Coq 8.16.1 kernel, vm_compute (the 23 Plackett-Burman sizes are checked by kernel computation; model evaluation in the correspondence)",
    "hand-written model Model/Doe.v tied to doe.py / operators.py by this correspondence run (numpy arrays are lists of rows; "
    "scipy toeplitz/hankel, np.roll, itertools.product, np.frexp power-of-two test are modelled by their definitions)",
    "the Box-Behnken in-place slice assignments H[4(Index-1):4 Index, i] = H_fact[:, 0] are modelled functionally (one block of four rows per pair, in loop order)",
    "the harness plays the user in the histories (one shared parameter list / Problem, generator objects reused, bounds edited, returned "
    "vectors overwritten) and keeps its own record of the bounds and level lists the model is evaluated on (tuples that never reach artap; the harness updates it when the user edits a bound or a level table, so it holds the values current at the time of each call)",
    "level values are binary64 floats compared bit for bit; the mid level (l_b + u_b) / 2 and list.sort() of three levels are evaluated with PrimFloat in the driver Run/C13Run.v",
]
ASSUMPTIONS = [
    "parameter names are distinct (the Generator classes key a dict by name)",
    "level values are non-NaN floats; |bounds| small enough that (l_b + u_b) does not overflow",
    "fullfact for zero factors raises TypeError in the code (np.prod([]) is a float); the theorems are stated for >= 1 factor",
    "histories: the bounds / level lists 'given' to a run are the ones the problem holds when generate() is called (the Generator classes "
    "keep a reference to the parameter list and read it at generate() time; init(values) hands over the level lists); a user edit of a "
    "bound between two runs therefore changes what the later run is compared with; vectors returned by generate() belong to the caller, "
    "who may overwrite them",
    "levels and bounds given as objects of mixed kinds (strings, big Python ints, bools, None, Fractions, Decimals, numpy scalars, tuples) "
    "reach the model as level indices (level j = index of the first level equal to it); Box-Behnken bounds of that stream are numbers "
    "whose binary64 mid level (l + u) / 2 does not fall outside [l, u] (two integers beyond 2**53 closer than one ulp are counted, not used)",
    "second pass under python -O: doe.py rejects invalid inputs with assert statements, which do not exist there; comparisons whose MODEL "
    "answer is that rejection (Err EAssert; build_gsd with reduction < 2 or n < 1: its ValueError made from an AssertionError) are skipped "
    "and counted in that pass, with the direct-oracle entries of the same case; the normal pass compares them",
    "the generalized-subset-design theorems are conditional on build_gsd not raising (level counts >= 2, reduction >= 2); "
    "C13_gsd_succeeds shows it does not raise for >= 2 factors when the reduction does not exceed any level count",
]

HEADER = ("From Artap Require Import Run.C13Run.\nFrom Coq Require Import List ZArith Floats.\n"
          "Import ListNotations.\nOpen Scope float_scope.\n")

ERR = {"AssertionError": 1, "ValueError": 2, "TypeError": 3, "IndexError": 4}

GRID = [0.0, 1.0, 2.0, 3.0, -1.0, -2.5, 5.0, 0.5, 1.5, 10.0, 0.1, 0.2, 0.3, 3.4, 6.0, 1e-9, 1e6, -7.25, 100.0, 0.30000000000000004]


def params_of(bounds):
    return [{"name": "x_%d" % i, "bounds": [b[0], b[1]], "initial_value": b[0]} for i, b in enumerate(bounds)]


def gen_bounds(rng, k, degenerate=0.1):
    out = []
    for _ in range(k):
        r = rng.random()
        a = rng.choice(GRID)
        if r < degenerate / 2:
            b = a                                   # lb == ub
        elif r < degenerate:
            b = a - rng.choice([0.5, 1.0, 3.0])     # lb > ub
        else:
            b = a + rng.choice([0.5, 1.0, 2.0, 2.4, 7.5, 1e-3, 1e3])
        out.append((float(a), float(b)))
    return out


def gen_levels(rng, k, maxlen, cap):
    """k level lists, product of lengths <= cap; values from the grid (duplicates now and then)."""
    while True:
        lens = [rng.choice([1, 2, 2, 3, 3, 4, 5, 6][:maxlen + 2]) for _ in range(k)]
        p = 1
        for x in lens:
            p *= x
        if p * max(k, 1) <= cap:
            break
    vals = []
    for n in lens:
        if rng.random() < 0.85:
            v = rng.sample(GRID, n)
        else:
            v = [rng.choice(GRID[:4]) for _ in range(n)]
        vals.append([float(x) for x in v])
    return vals


def rows_lit(rows):
    return "ORows " + ll(rows, lambda r: ll(r, fl))


def designs_lit(ds):
    return "ODesigns " + ll(ds, lambda d: ll(d, lambda r: ll(r, nl)))


def run(ctx):
    import numpy as np
    import artap.operators as ops
    import artap.doe as doe
    rng = ctx.rng
    cases, expected, meta = [], [], []
    kinds = Counter()
    errors = Counter()
    sizes = Counter()
    cap = ctx.pick(5000, 60000)

    # Second pass under `python -O` (core.py runs every check again in a child interpreter started with -O): doe.py rejects
    # invalid inputs with `assert` (pbdesign: n > 0 and a supported size; bbdesign: n >= 3; _map_partitions_to_design behind
    # build_gsd: reduction >= 2, level counts >= 2 ...), and by Python's own semantics those statements do not exist there, so
    # an input that ONLY an assert rejects takes some other path (another exception kind, or a design for an input outside
    # the documented domain).  That is not a statement of C13 (which is about valid inputs).  Under -O every comparison
    # whose MODEL answer is the assert rejection (`OErr 1` = Err EAssert; for build_gsd with reduction < 2 or n < 1 also
    # `OErr 2`: its argument validation is `try: assert ... except AssertionError: raise ValueError`) is therefore skipped and
    # counted after the comparison, together with the direct-oracle entries of that same case; everything else is kept, so behaviour that hides
    # in an assert on VALID inputs still shows.  `owner` ties each direct-oracle entry to the comparison of its case.
    import sys
    OPT = bool(sys.flags.optimize)
    pending, owner = [], {}

    def fail(what, inp, kind):
        f = {"what": what, "input": inp, "match": dict(kind=kind, **inp)}
        ctx.oracle_failures.append(f)
        pending.append((f, kind))

    def call(f):
        try:
            return f(), None
        except Exception as e:      # kinds the model does not know (KeyError, ...) get code 9 and so differ from the model
            return None, type(e).__name__

    def to_rows(out):
        return [[float(x) for x in r] for r in out]

    pushed = {}

    def push(kind, case, exp, m, key, nontrivial=True):
        # a (case, observed) pair that is literally the one already sent to Coq has the same verdict: it is counted, not
        # re-evaluated (the runs of a history between two user edits are all compared with the model on the same bounds / levels)
        owner.setdefault(pushed.get((case, exp), len(cases)), []).extend(pending)
        del pending[:]
        if (case, exp) in pushed:
            kinds[kind] += 1
            kinds["identical_to_an_earlier_comparison"] += 1
            ctx.count((kind,) + key, nontrivial=nontrivial)
            return
        pushed[(case, exp)] = len(cases)
        cases.append(case)
        expected.append(exp)
        meta.append(m)
        kinds[kind] += 1
        ctx.count((kind,) + key, nontrivial=nontrivial)
        if nontrivial and sum(1 for s in ctx.samples if s.get("kind") == kind) == 0 and len(ctx.samples) < 6 \
                and m.get("rows", 99) <= 16:
            ctx.sample(m, limit=6)

    # ---- full factorial -------------------------------------------------------------------
    def oracle_full(levels, rows, inp):
        want = Counter(itertools.product(*levels))
        got = Counter(tuple(r) for r in rows)
        if got != want:
            missing = list((want - got).keys())[:2]
            extra = list((got - want).keys())[:2]
            fail("full factorial is not every level combination exactly once: %d rows for %d combinations, missing %r, surplus %r"
                 % (len(rows), sum(want.values()), missing, extra), inp, "fullfact")

    def do_full(center, bounds):
        g = ops.FullFactorGenerator(parameters=params_of(bounds))
        g.init(center)
        out, e = call(g.generate)
        inp = {"generator": "FullFactorGenerator", "center": bool(center), "bounds": [list(b) for b in bounds]}
        case = "CFull %s %s" % (bl(center), ll(bounds, lambda b: pl(fl(b[0]), fl(b[1]))))
        if e is not None:
            errors[e] += 1
            if bounds:
                fail("FullFactorGenerator raised %s" % e, inp, "fullfact")
            push("full", case, "OErr %s" % nl(ERR.get(e, 9)), dict(inp, kind="full", error=e), (center, tuple(bounds)), nontrivial=False)
            return
        rows = to_rows(out)
        levels = [[b[0], (b[0] + b[1]) / 2.0, b[1]] if center else [b[0], b[1]] for b in bounds]
        oracle_full(levels, rows, inp)
        sizes["full:%d" % len(bounds)] += 1
        push("full", case, rows_lit(rows), dict(inp, kind="full", rows=len(rows)), (center, tuple(bounds)))

    def do_full_levels(values, nparams):
        params = [{"name": "U_%d" % i} for i in range(nparams)]
        g = ops.FullFactorLevelsGenerator(parameters=params)
        g.init([list(v) for v in values])
        out, e = call(g.generate)
        used = values[:nparams]
        inp = {"generator": "FullFactorLevelsGenerator", "values": values, "n_parameters": nparams}
        case = "CFullLevels %s %s" % (ll(values, lambda v: ll(v, fl)), nl(nparams))
        key = (tuple(tuple(v) for v in values), nparams)
        if e is not None:
            errors[e] += 1
            if used:
                fail("FullFactorLevelsGenerator raised %s" % e, inp, "fullfact_levels")
            push("full_levels", case, "OErr %s" % nl(ERR.get(e, 9)), dict(inp, kind="full_levels", error=e), key, nontrivial=False)
            return
        rows = to_rows(out)
        oracle_full(used, rows, inp)
        sizes["full_levels:%d" % len(used)] += 1
        push("full_levels", case, rows_lit(rows), dict(inp, kind="full_levels", rows=len(rows)), key,
             nontrivial=len(rows) > 1)

    # ---- Plackett-Burman ------------------------------------------------------------------
    def oracle_pb(bounds, rows, inp):
        """the clauses of the property, on the implementation's output, against the user's bounds"""
        n = len(bounds)
        runs = 4 * (n // 4 + 1)
        problems = []
        if len(rows) != runs:
            problems.append("run count %d, expected %d" % (len(rows), runs))
        if any(len(r) != n for r in rows):
            problems.append("a row does not have %d entries" % n)
        else:
            for j, (lb, ub) in enumerate(bounds):
                col = [r[j] for r in rows]
                if any(x != lb and x != ub for x in col):
                    problems.append("column %d uses the value %r, which is neither of its two bounds [%r, %r]"
                                    % (j, [x for x in col if x != lb and x != ub][0], lb, ub))
                    break
            distinct = [j for j, (lb, ub) in enumerate(bounds) if lb != ub]
            sign = {j: [1 if r[j] == bounds[j][1] else -1 for r in rows] for j in distinct}
            for j in distinct:
                if sum(sign[j]) != 0:
                    problems.append("column %d is not balanced (sum of signs %d)" % (j, sum(sign[j])))
                    break
            for a, b in itertools.combinations(distinct, 2):
                d = sum(x * y for x, y in zip(sign[a], sign[b]))
                if d != 0:
                    problems.append("columns %d and %d are not orthogonal (dot %d)" % (a, b, d))
                    break
        if problems:
            fail("Plackett-Burman design for %d factors: %s" % (n, "; ".join(problems)), inp, "pb")

    def do_pb(bounds):
        n = len(bounds)
        g = ops.PlackettBurmanGenerator(parameters=params_of(bounds))
        out, e = call(g.generate)
        inp = {"generator": "PlackettBurmanGenerator", "bounds": [list(b) for b in bounds]}
        case = "CPB %s" % ll(bounds, lambda b: pl(fl(b[0]), fl(b[1])))
        if e is not None:
            errors[e] += 1
            if 1 <= n <= 23:
                fail("PlackettBurmanGenerator raised %s for the supported size %d" % (e, n), inp, "pb")
            push("pb", case, "OErr %s" % nl(ERR.get(e, 9)), dict(inp, kind="pb", error=e, n=n), (tuple(bounds),), nontrivial=False)
            return
        rows = to_rows(out)
        oracle_pb(bounds, rows, inp)
        sizes["pb:%d" % n] += 1
        push("pb", case, rows_lit(rows), dict(inp, kind="pb", rows=len(rows), n=n), (tuple(bounds),))

    # ---- Box-Behnken ----------------------------------------------------------------------
    def oracle_bb(bounds, rows, inp):
        n = len(bounds)
        if n < 3:
            return
        mid = [(lb + ub) / 2 for lb, ub in bounds]
        want = Counter()
        for i, j in itertools.combinations(range(n), 2):
            for a in bounds[i]:
                for b in bounds[j]:
                    r = list(mid)
                    r[i], r[j] = a, b
                    want[tuple(r)] += 1
        want[tuple(mid)] += 1
        got = Counter(tuple(r) for r in rows)
        if got != want:
            fail("Box-Behnken design for %d factors is not the +/- corners of every factor pair plus one centre run: "
                 "%d rows (expected %d), missing %r, surplus %r"
                 % (n, len(rows), sum(want.values()), list((want - got).keys())[:2], list((got - want).keys())[:2]), inp, "bb")

    def do_bb(bounds):
        n = len(bounds)
        g = ops.BoxBehnkenGenerator(parameters=params_of(bounds))
        out, e = call(g.generate)
        inp = {"generator": "BoxBehnkenGenerator", "bounds": [list(b) for b in bounds]}
        case = "CBB %s" % ll(bounds, lambda b: pl(fl(b[0]), fl(b[1])))
        if e is not None:
            errors[e] += 1
            if n >= 3:
                fail("BoxBehnkenGenerator raised %s for %d factors" % (e, n), inp, "bb")
            push("bb", case, "OErr %s" % nl(ERR.get(e, 9)), dict(inp, kind="bb", error=e, n=n), (tuple(bounds),), nontrivial=False)
            return
        rows = to_rows(out)
        oracle_bb(bounds, rows, inp)
        sizes["bb:%d" % n] += 1
        push("bb", case, rows_lit(rows), dict(inp, kind="bb", rows=len(rows), n=n), (tuple(bounds),))

    # ---- generalized subset designs -------------------------------------------------------
    def oracle_gsd(levels, reduction, designs, complete, inp, kind):
        full = set(itertools.product(*[range(L) for L in levels]))
        seen = set()
        for k, d in enumerate(designs):
            rows = [tuple(r) for r in d]
            if len(set(rows)) != len(rows):
                fail("generalized subset design %d contains a duplicated run" % k, inp, kind)
                return
            if not set(rows) <= full:
                fail("generalized subset design %d has a run outside the full factorial: %r" % (k, sorted(set(rows) - full)[:2]), inp, kind)
                return
            if seen & set(rows):
                fail("complementary designs overlap: run %r is in design %d and in an earlier one" % (sorted(seen & set(rows))[0], k), inp, kind)
                return
            seen |= set(rows)
        if complete and seen != full:
            fail("the %d complementary designs do not cover the full factorial: %d of %d runs, e.g. %r missing"
                 % (reduction, len(seen), len(full), sorted(full - seen)[:2]), inp, kind)

    def do_gsd(levels, reduction, n, shared=None, hist=None):
        """shared: the caller's own list object handed to build_gsd (a history on one list); levels is the harness's record"""
        arg = [int(x) for x in levels] if shared is None else shared
        out, e = call(lambda: doe.build_gsd(arg, int(reduction), int(n)))
        inp = {"function": "build_gsd", "levels": list(levels), "reduction": reduction, "n": n}
        if hist is not None:
            inp.update(hist)
        case = "CGSD %s %s %s" % (ll(levels, nl), nl(reduction), nl(n))
        key = (tuple(levels), reduction, n) + ((json.dumps(hist, sort_keys=True),) if hist is not None else ())
        if e is not None:
            errors[e] += 1
            push("gsd", case, "OErr %s" % nl(ERR.get(e, 9)), dict(inp, kind="gsd", error=e), key, nontrivial=False)
            return
        designs = [out] if n == 1 else list(out)
        designs = [[[int(x) for x in r] for r in d] for d in designs]
        if any(x < 0 for d in designs for r in d for x in r):
            fail("generalized subset design has a negative level index", inp, "gsd")
            designs = [[[max(x, 0) for x in r] for r in d] for d in designs]
        if n >= reduction and len(designs) != reduction:
            fail("build_gsd returned %d designs when all %d complementary designs were requested (n=%d)"
                 % (len(designs), reduction, n), inp, "gsd")
        oracle_gsd(levels, reduction, designs, n >= reduction, inp, "gsd")
        sizes["gsd:%d" % len(levels)] += 1
        push("gsd", case, designs_lit(designs), dict(inp, kind="gsd", rows=sum(len(d) for d in designs)), key)

    def oracle_gsd_gen(values, rows, inp):
        got = Counter(tuple(r) for r in rows)
        want = Counter(itertools.product(*values))
        if got - want:
            fail("GSDGenerator returns a run that is not in the full factorial (or more often than there): %r" % (list((got - want).keys())[:2],),
                 inp, "gsd_gen")

    def do_gsd_gen(values, reduction):
        g = ops.GSDGenerator(parameters=[{"name": "U_%d" % i} for i in range(len(values))])
        g.init([list(v) for v in values], reduction=reduction)
        out, e = call(g.generate)
        inp = {"generator": "GSDGenerator", "values": values, "reduction": reduction}
        case = "CGSDGen %s %s" % (ll(values, lambda v: ll(v, fl)), nl(reduction))
        key = (tuple(tuple(v) for v in values), reduction)
        if e is not None:
            errors[e] += 1
            push("gsd_gen", case, "OErr %s" % nl(ERR.get(e, 9)), dict(inp, kind="gsd_gen", error=e), key, nontrivial=False)
            return
        rows = to_rows(out)
        oracle_gsd_gen(values, rows, inp)
        sizes["gsd_gen:%d" % len(values)] += 1
        push("gsd_gen", case, rows_lit(rows), dict(inp, kind="gsd_gen", rows=len(rows)), key)

    # ---- corpus: boundary cases read off the code -----------------------------------------
    do_full(False, [])                                    # zero factors: np.prod([]) is a float -> TypeError
    do_full(False, [(-2.5, 5.0), (1.0, 3.4), (6.0, 10.0)])  # the test-suite parameters
    do_full(True, [(-2.5, 5.0), (1.0, 3.4), (6.0, 10.0)])
    do_full(True, [(1.0, 1.0)])
    do_full_levels([[0.0, 0.25, 0.5, 0.75, 1.0], [-90.0, -67.5, -45.0]], 2)
    do_full_levels([[1.0, 2.0], [], [5.0]], 3)            # an empty level list: no rows
    do_full_levels([[1.0, 2.0], [3.0, 4.0], [5.0]], 2)    # zip truncation
    do_full_levels([[1.0, 2.0]], 3)
    do_full_levels([], 0)
    do_full_levels([[2.0, 4.0, 3.0]], 1)
    for n in range(0, 28):                                # every size 0..27 (0 and 24..27 are rejected)
        do_pb(gen_bounds(rng, n, degenerate=0.0) if n != 3 else [(-2.5, 5.0), (1.0, 3.4), (6.0, 10.0)])
    for n in (28, 31, 32, 36, 40, 44, 47):                # beyond the property's range: doubling of the seeds, more rejections
        do_pb(gen_bounds(rng, n, degenerate=0.0))
    for n in range(0, 9):
        do_bb(gen_bounds(rng, n, degenerate=0.0) if n != 3 else [(-2.5, 5.0), (1.0, 3.4), (6.0, 10.0)])
    do_bb([(5.0, -2.5), (1.0, 1.0), (6.0, 10.0)])         # reversed and coincident bounds: list.sort()
    do_gsd_gen([[1.0, 3.0, 2.0], [6.0, 8.0, 4.0]], 2)     # the test-suite case
    do_gsd_gen([], 2)
    do_gsd_gen([[1.0, 2.0, 3.0]], 2)
    for lv, r, n in [([3, 4], 2, 2), ([3, 4, 6], 4, 1), ([2, 3], 5, 1), ([3], 2, 1), ([2, 2, 2], 3, 3), ([1, 3], 2, 1),
                     ([], 2, 1), ([3, 4], 2, 3), ([3, 4], 2, 0), ([3, 4], 1, 1), ([3, 4], 0, 1), ([2, 2], 2, 2),
                     ([3, 4, 6], 4, 4), ([5, 5], 5, 5), ([6, 2, 3], 3, 2), ([2, 2, 2, 2, 2], 2, 2), ([7, 3], 6, 6),
                     ([4, 4, 4], 4, 4), ([2, 2], 3, 3), ([0, 3], 2, 1), ([3, 3, 3], 3, 3)]:
        do_gsd(lv, r, n)

    # ---- level counts and run counts around the integer-width boundaries -------------------
    # (red team round 2: the index matrix of fullfact allocated as int8, so level indices >= 128 wrapped.)  Designs up to
    # about a thousand rows go through the ordinary complete comparison above; for every such design, and for the big
    # ones (level counts / run counts around 2^11, 2^15, 2^16), the run count and SAMPLED rows are compared with the
    # model through the proved closed form (row q = mixed-radix digits of q, C13_fullfact_row_closed_form), the sampled
    # positions covering the first / last rows, the run-count boundaries 2^k - 1, 2^k, 2^k + 1 and, per factor, the
    # level indices around 2^7, 2^8, 2^11, 2^15, 2^16 and the last level.  The direct oracle compares the WHOLE design
    # with itertools.product in Python.
    EDGE = [126, 127, 128, 129, 254, 255, 256, 257, 2046, 2047, 2048, 2049, 32766, 32767, 32768, 32769, 65534, 65535, 65536, 65537]

    def sample_positions(lens):
        n = 1
        for L in lens:
            n *= L
        pos = [0, 1, 2, n - 2, n - 1, n, n + 1]
        for k in (7, 8, 11, 15, 16, 17):
            pos += [2 ** k - 1, 2 ** k, 2 ** k + 1]
        stride = 1
        for L in lens:
            if L > 100:
                for d in EDGE + [L - 2, L - 1]:
                    if 0 <= d < L:
                        lo = rng.randrange(stride)
                        hi = rng.randrange(max(n // (stride * L), 1))
                        pos.append(lo + stride * (d + L * hi))
            stride *= L
        pos += [rng.randrange(max(n, 1)) for _ in range(12)]
        out = []
        for q in pos:
            if q >= 0 and q not in out:
                out.append(q)
        return n, out

    def as_index(x):
        """an entry of the index matrix as an integer; -1 for anything that is not an integral finite number"""
        try:
            x = float(x)
            return int(x) if x == int(x) else -1
        except (OverflowError, ValueError, TypeError):
            return -1

    def do_full_big(api, lens, center=False):
        lens = [int(x) for x in lens]
        k = len(lens)
        inp = {"function": api, "level_counts": lens}
        if api == "fullfact":
            values = [list(range(L)) for L in lens]
            out, e = call(lambda: doe.fullfact(list(lens)))
        else:
            if api == "FullFactorGenerator":
                bounds = [(float(i), float(i) + 0.5 + 0.25 * (i % 3)) for i in range(k)]
                values = [[b[0], (b[0] + b[1]) / 2.0, b[1]] if center else [b[0], b[1]] for b in bounds]
                assert lens == [len(v) for v in values]
                g = ops.FullFactorGenerator(parameters=params_of(bounds))
                g.init(center)
                inp.update(generator=api, center=bool(center), bounds=[list(b) for b in bounds])
                f = g.generate
            else:
                values = [[float(10 * i) + 0.5 * j for j in range(L)] for i, L in enumerate(lens)]
                inp.update(values="factor i has the levels 10 i + 0.5 j, j = 0 .. level_counts[i] - 1")
                if api == "FullFactorLevelsGenerator":
                    g = ops.FullFactorLevelsGenerator(parameters=[{"name": "U_%d" % i} for i in range(k)])
                    g.init([list(v) for v in values])
                    inp.update(generator=api)
                    f = g.generate
                else:
                    d = {"x_%d" % i: list(v) for i, v in enumerate(values)}
                    f = lambda: doe.build_full_fact(d)
            out, e = call(f)
        n, pos = sample_positions(lens)
        case = "CFullAt %s %s" % (ll(lens, lambda x: "%d%%N" % x), ll(pos, lambda x: "%d%%N" % x))
        key = (api, tuple(lens), bool(center))
        m = dict(inp, kind="full_big", sampled_positions=len(pos))
        if e is not None:
            errors[e] += 1
            fail("%s raised %s for the level counts %r" % (api, e, lens if k <= 6 else "%d x %d" % (k, lens[0])), inp, "fullfact_big")
            push("full_big", case, "OErr %s" % nl(ERR.get(e, 9)), dict(m, error=e), key, nontrivial=False)
            return
        rows = [tuple(r) for r in (out.tolist() if hasattr(out, "tolist") else out)]
        want = Counter(itertools.product(*values))
        got = Counter(rows)
        if got != want:
            missing = list((want - got).keys())[:2]
            extra = list((got - want).keys())[:2]
            fail("full factorial is not every level combination exactly once: %d rows for %d combinations, missing %r, surplus %r"
                 % (len(rows), sum(want.values()), missing, extra), inp, "fullfact_big")
        index = [{v: j for j, v in enumerate(vs)} for vs in values]
        sample = []
        for q in pos:
            if q < len(rows):
                sample.append([int(index[i].get(x, -1)) if api != "fullfact" else as_index(x) for i, x in enumerate(rows[q])])
            else:
                sample.append([])
        exp = "OSample %d%%N %s" % (len(rows), ll(sample, lambda r: ll(r, lambda x: "(%d)%%Z" % x)))
        sizes["full_big:%s:max level count %d:%d rows" % (api, max(lens), len(rows))] += 1
        push("full_big", case, exp, dict(m, rows=len(rows)), key)

    WIDTHS = [127, 128, 129, 255, 256, 257]
    for L in WIDTHS:
        vals = [float(j) * 0.25 - 3.0 for j in range(L)]
        do_full_levels([vals], 1)
        do_full_levels([[1.0, 2.0], vals], 2)
        do_full_levels([vals, [5.0, -1.0]], 2)
        if L in (129, 257):
            do_full_levels([[0.5], vals, [7.0, 8.0]], 3)
        for api in ("fullfact", "build_full_fact", "FullFactorLevelsGenerator"):
            do_full_big(api, [L])
            do_full_big(api, [L, 2])
            do_full_big(api, [2, L])
        do_full_big("fullfact", [3, L, 2])
        do_full_big("FullFactorLevelsGenerator", [2, L, 1, 2])
    do_full_big("fullfact", [129, 130])
    do_full_big("FullFactorLevelsGenerator", [257, 129])
    for L in (2047, 2048, 2049, 2050) + ctx.pick((32767, 32768, 32769), (32767, 32768, 32769, 65535, 65536, 65537)):
        do_full_big("fullfact", [L])
        do_full_big("fullfact", [2, L] if L % 2 else [L, 2])
        do_full_big("FullFactorLevelsGenerator", [L] if L % 2 == 0 else [L, 2])
        if L in (2049, 32769):
            do_full_big("build_full_fact", [2, L])
    if not ctx.thorough:
        do_full_big("fullfact", [65537])
        do_full_big("FullFactorLevelsGenerator", [65536])
    # many factors / many runs: run counts 2^7 .. 2^16 (+ 3^k) through FullFactorGenerator and fullfact
    for kf in ctx.pick((7, 8, 9, 11, 15), (7, 8, 9, 10, 11, 12, 13, 14, 15, 16)):
        do_full_big("FullFactorGenerator", [2] * kf)
        do_full_big("fullfact", [2] * kf)
    for kf in ctx.pick((5, 6, 9), (5, 6, 7, 8, 9, 10)):
        do_full_big("FullFactorGenerator", [3] * kf, center=True)
    do_full_big("fullfact", [2] * 16 if not ctx.thorough else [2] * 17)
    do_full_big("fullfact", [5, 5, 5, 9, 9, 9])                     # the design named in the red-team change
    do_full_big("FullFactorLevelsGenerator", [181, 3])              # an angle swept in 2-degree steps

    # ---- generated cases -------------------------------------------------------------------
    for _ in range(ctx.pick(40, 400)):
        k = rng.choice([1, 2, 2, 3, 3, 4, 5, 6, 7, 8])
        center = rng.random() < 0.5
        while (3 if center else 2) ** k * k > cap:
            k -= 1
        do_full(center, gen_bounds(rng, k))
    for _ in range(ctx.pick(60, 600)):
        k = rng.choice([1, 2, 3, 3, 4, 4, 5, 6, 7, 8])
        values = gen_levels(rng, k, 6, cap)
        if rng.random() < 0.05:
            values[rng.randrange(k)] = []
        r = rng.random()
        nparams = k if r < 0.8 else (k + 1 if r < 0.9 else max(k - 1, 0))
        do_full_levels(values, nparams)
    for _ in range(ctx.pick(30, 300)):
        n = rng.randint(1, 27)
        do_pb(gen_bounds(rng, n, degenerate=0.08))
    for _ in range(ctx.pick(24, 200)):
        n = rng.randint(3, ctx.pick(8, 12)) if rng.random() < 0.9 else rng.randint(0, 2)
        do_bb(gen_bounds(rng, n, degenerate=0.1))
    for _ in range(ctx.pick(90, 900)):
        k = rng.choice([2, 2, 3, 3, 4, 4, 5, 6, 7, 8]) if rng.random() < 0.93 else rng.choice([0, 1])
        while True:
            levels = [rng.choice([2, 2, 3, 3, 4, 5, 6, 7] if rng.random() < 0.95 else [1, 0]) for _ in range(k)]
            p = 1
            for x in levels:
                p *= x
            if p * max(k, 1) <= cap:
                break
        r = rng.choice([2, 2, 3, 3, 4, 5, 6]) if rng.random() < 0.95 else rng.choice([0, 1, 7, 8])
        q = rng.random()
        n = r if q < 0.6 else (1 if q < 0.75 else (rng.randint(2, max(r, 2)) if q < 0.92 else rng.choice([0, r + 1, r + 3])))
        do_gsd(levels, r, n)
    for _ in range(ctx.pick(40, 400)):
        k = rng.choice([2, 2, 3, 3, 4, 5, 6, 7, 8]) if rng.random() < 0.95 else rng.choice([0, 1])
        values = gen_levels(rng, k, 6, cap)
        do_gsd_gen(values, rng.choice([2, 2, 3, 3, 4, 5]))

    # =========================================================================================
    # histories: several generator runs on ONE shared parameter list / one Problem
    # =========================================================================================
    # The user's bounds / level lists are recorded by the harness as tuples that never reach artap (`ref_*`); the
    # generators get one shared mutable parameter list (and one shared list of level lists), as `problem.parameters`
    # is in normal use.  Every run of a history is compared with the model evaluated on the bounds / levels CURRENT at the
    # time of the call: what the user wrote down, followed through his own edits between runs (set_bounds / edit_values /
    # set_values update `ref_*`), never what artap may have done to the shared structures (the model is a function of
    # immutable inputs: a run cannot influence a later one there), the direct oracle evaluates the property clauses
    # against the same record, and the purity oracle requires the shared
    # structures to be bit-identical before and after every generate().
    import atexit
    import logging
    import shutil
    from artap.problem import Problem
    logging.disable(logging.CRITICAL)

    class DoeProblem(Problem):
        def set(self, **kwargs):
            self.name = "c13"
            self.parameters = kwargs["parameters"]
            self.costs = [{"name": "F", "criteria": "minimize"}]

        def evaluate(self, individual):
            return [0.0]

    hstat = Counter()
    adjacent = set()

    def snap(o):
        """bit-exact and type-exact description of a user-owned structure"""
        t = type(o)
        if t is float:
            return ("float", o.hex())
        if t is bool or t is int or t is str or o is None:
            return (t.__name__, o)
        if t is list or t is tuple:
            return (t.__name__, [snap(x) for x in o])
        if t is dict:
            return ("dict", [(snap(k), snap(v)) for k, v in o.items()])
        return ("%s.%s" % (t.__module__, t.__name__), repr(o))

    def unsnap(s):
        if s[0] == "float":
            return float.fromhex(s[1])
        if s[0] in ("list", "tuple"):
            return [unsnap(x) for x in s[1]]
        if s[0] == "dict":
            return {str(unsnap(k)): unsnap(v) for k, v in s[1]}
        return s[1]

    def snap_diff(a, b, path):
        """None when the snapshots agree, else a description of the first difference"""
        if a == b:
            return None
        if a[0] == b[0] and a[0] in ("list", "tuple") and len(a[1]) == len(b[1]):
            for i, (x, y) in enumerate(zip(a[1], b[1])):
                d = snap_diff(x, y, "%s[%d]" % (path, i))
                if d:
                    return d
        if a[0] == b[0] == "dict" and [k for k, _ in a[1]] == [k for k, _ in b[1]]:
            for (k, x), (_, y) in zip(a[1], b[1]):
                d = snap_diff(x, y, "%s[%r]" % (path, unsnap(k)))
                if d:
                    return d
        ta, tb = (a[0], b[0]) if a[0] != b[0] else ("", "")
        return "%s was %s%r and is now %s%r" % (path, ta and ta + " ", unsnap(a), tb and tb + " ", unsnap(b))

    def out_snap(out):
        try:
            return [[float(x).hex() for x in r] for r in out]
        except Exception as e:
            return "unreadable: %r" % (e,)

    def bounds_lit(bounds):
        return ll(bounds, lambda b: pl(fl(b[0]), fl(b[1])))

    GEN_CLASS = {"full": "FullFactorGenerator", "full_levels": "FullFactorLevelsGenerator", "pb": "PlackettBurmanGenerator",
                 "bb": "BoxBehnkenGenerator", "gsd_gen": "GSDGenerator"}

    def run_session(tag, bounds, values, steps, use_problem=False):
        ref_bounds = [(float(b[0]), float(b[1])) for b in bounds]          # the harness's record of what the user wrote down
        ref_values = [tuple(float(x) for x in v) for v in values]
        params = params_of(ref_bounds)                                       # the ONE parameter list of the session
        problem = None
        if use_problem:
            problem = DoeProblem(parameters=params)
            params = problem.parameters
            hstat["sessions on a real Problem (generators built from problem.parameters)"] += 1
        user_values = [list(v) for v in ref_values]                         # the ONE list of level lists of the session
        values_version = 0
        pool = {}             # generator class -> (object, configuration the user gave it last)
        history = []
        kept = []             # designs returned earlier which the user left alone: (object, snapshot, step)
        prev = None
        hstat["sessions"] += 1
        hstat["sessions:%s" % tag] += 1
        ngen = 0
        try:
            for idx, st in enumerate(steps):
                op = st["op"]
                history.append(st)
                if op == "set_bounds":                                       # the user changes a bound of the problem
                    i = st["index"] % max(len(params), 1)
                    if not params:
                        continue
                    lo, hi = float(st["bounds"][0]), float(st["bounds"][1])
                    if st["how"] == "rebind":
                        params[i]["bounds"] = [lo, hi]
                    elif st["how"] == "dict":                                # the dict inside the shared list is replaced
                        params[i] = dict(params[i], bounds=[lo, hi])
                    elif st["how"] == "gen_parameters":                      # a NEW list of NEW dicts of the same length, given to
                        params = [dict(q, bounds=list(q["bounds"])) for q in params]   # every generator object in use
                        params[i]["bounds"] = [lo, hi]
                        for g_, _cfg in pool.values():
                            g_.parameters = params
                        if problem is not None:
                            problem.parameters = params
                    else:
                        params[i]["bounds"][0] = lo
                        params[i]["bounds"][1] = hi
                    ref_bounds[i] = (lo, hi)
                    hstat["user edits of a bound between runs"] += 1
                    hstat["user edits of a bound between runs: %s" % st["how"]] += 1
                    continue
                if op == "edit_values":
                    # the user edits the SAME level-table object in place (the one he handed to init() before) and calls
                    # init() with it again before the next run (values_version changes, so the next run re-initialises)
                    if not user_values:
                        continue
                    i = st["index"] % len(user_values)
                    new = [float(x) for x in st["levels"]]
                    kind = st["kind"]
                    if kind == "append":
                        user_values[i].append(new[0])
                    elif kind == "replace_slice":
                        user_values[i][:] = new
                    elif kind == "replace_inner":
                        user_values[i] = list(new)
                    elif kind == "drop" and len(user_values[i]) > 2:
                        del user_values[i][-1]
                    elif kind == "set_item":
                        user_values[i][st.get("position", 0) % max(len(user_values[i]), 1)] = new[0]
                    elif kind == "swap_tables" and len(user_values) >= 2:
                        j = (i + 1) % len(user_values)
                        user_values[i], user_values[j] = user_values[j], user_values[i]
                    else:
                        user_values[i].insert(0, new[0])
                    ref_values = [tuple(float(x) for x in v) for v in user_values]
                    values_version += 1
                    hstat["user edits the level table object in place and re-initialises with it"] += 1
                    hstat["in-place edit of the level table: %s" % kind] += 1
                    continue
                if op == "set_values":                                       # the user supplies new level lists
                    ref_values = [tuple(float(x) for x in v) for v in st["values"]]
                    user_values = [list(v) for v in ref_values]
                    values_version += 1
                    hstat["user replaces the level lists between runs"] += 1
                    continue
                cls = GEN_CLASS[op]
                entry = pool.get(cls) if st.get("reuse") else None
                if entry is None:
                    g, cfg = getattr(ops, cls)(parameters=params), None
                else:
                    g, cfg = entry
                    hstat["runs on a generator object used before"] += 1
                n = len(ref_bounds)
                if op == "full":
                    want = ("center", bool(st["center"]))
                    if cfg != want or st.get("reinit"):
                        g.init(bool(st["center"]))
                elif op == "full_levels":
                    want = ("values", values_version)
                    if cfg != want or st.get("reinit"):
                        g.init(user_values)
                elif op == "gsd_gen":
                    want = ("values", values_version, st["reduction"])
                    if cfg != want or st.get("reinit"):
                        g.init(user_values, reduction=st["reduction"])
                else:
                    want = None
                if entry is not None and cfg == want and not st.get("reinit"):
                    hstat["runs repeated without init() in between"] += 1
                pool[cls] = (g, want)

                before_p, before_v = snap(params), snap(user_values)
                out, e = call(g.generate)
                after_p, after_v = snap(params), snap(user_values)
                ngen += 1
                hstat["generator runs"] += 1
                if prev is not None:
                    adjacent.add((prev, op if op != "full" else "full(center=%s)" % st["center"]))
                    hstat["runs after at least one other run on the same parameters"] += 1
                prev = op if op != "full" else "full(center=%s)" % st["center"]

                inp = {"generator": cls, "history": [dict(h) for h in history], "step": idx,
                       "shared": "problem.parameters of one Problem" if problem is not None else "one parameter list",
                       "bounds": [list(b) for b in ref_bounds]}
                if op in ("full_levels", "gsd_gen"):
                    inp["values"] = [list(v) for v in ref_values]
                hkey = (tag, json.dumps(history, sort_keys=True), tuple(ref_bounds), tuple(ref_values))

                # ---- purity oracle
                hstat["purity checks"] += 1
                d = snap_diff(before_p, after_p, "parameters")
                if d:
                    fail("%s.generate() modified the problem's parameters: %s; every later design for this problem is built from "
                         "the modified values" % (cls, d), inp, "purity")
                d = snap_diff(before_v, after_v, "values")
                if d:
                    fail("%s.generate() modified the level lists the user passed to init(): %s" % (cls, d), inp, "purity")
                if problem is not None and problem.parameters is not params:
                    fail("%s.generate() replaced problem.parameters" % cls, inp, "purity")
                for item in list(kept):
                    if out_snap(item[0]) != item[1]:
                        kept.remove(item)
                        fail("the design returned by step %d of the history was modified by the run of step %d (%s)"
                             % (item[2], idx, cls), inp, "purity")

                # ---- correspondence with the model on the recorded bounds / levels current at this call, and the property clauses on them
                if op == "full":
                    center = bool(st["center"])
                    case = "CFull %s %s" % (bl(center), bounds_lit(ref_bounds))
                    must = n >= 1
                    levels = [[b[0], (b[0] + b[1]) / 2.0, b[1]] if center else [b[0], b[1]] for b in ref_bounds]
                    okind, orc = "fullfact", (lambda rows: oracle_full(levels, rows, inp))
                elif op == "full_levels":
                    case = "CFullLevels %s %s" % (ll(ref_values, lambda v: ll(v, fl)), nl(n))
                    used = [list(v) for v in ref_values[:n]]
                    must = len(used) >= 1
                    okind, orc = "fullfact_levels", (lambda rows: oracle_full(used, rows, inp))
                elif op == "pb":
                    case = "CPB %s" % bounds_lit(ref_bounds)
                    must = 1 <= n <= 23
                    okind, orc = "pb", (lambda rows: oracle_pb(ref_bounds, rows, inp))
                elif op == "bb":
                    case = "CBB %s" % bounds_lit(ref_bounds)
                    must = n >= 3
                    okind, orc = "bb", (lambda rows: oracle_bb(ref_bounds, rows, inp))
                else:
                    case = "CGSDGen %s %s" % (ll(ref_values, lambda v: ll(v, fl)), nl(st["reduction"]))
                    must = False
                    okind, orc = "gsd_gen", (lambda rows: oracle_gsd_gen([list(v) for v in ref_values], rows, inp))
                m = dict(inp, kind="hist:" + op)
                if e is not None:
                    errors[e] += 1
                    if must:
                        fail("%s raised %s" % (cls, e), inp, okind)
                    push("hist:" + op, case, "OErr %s" % nl(ERR.get(e, 9)), dict(m, error=e), hkey, nontrivial=False)
                    continue
                try:
                    rows = to_rows(out)
                except Exception as ex:
                    fail("%s returned something that is not a list of rows of numbers: %r" % (cls, ex), inp, okind)
                    push("hist:" + op, case, "OErr 9", dict(m, error="unreadable"), hkey, nontrivial=False)
                    continue
                orc(rows)
                sizes["hist:%s:%d" % (op, n)] += 1
                push("hist:" + op, case, rows_lit(rows), dict(m, rows=len(rows)), hkey)
                if st.get("scramble") and type(out) is list:
                    # the user overwrites the vectors he got (they are his): a later run must not hand them out again.  Should
                    # this very object (or its rows) also be a design returned earlier, the change below is the user's own, not a
                    # later run's: it is dropped from the watch list (a generator handing out a stale object shows up as a wrong design)
                    rows_ids = set(id(r) for r in out)
                    kept[:] = [it for it in kept if it[0] is not out and not (type(it[0]) is list and any(id(r) in rows_ids for r in it[0]))]
                    for r in out:
                        if type(r) is list:
                            r[:] = [-12345.0] * len(r)
                    del out[1:]
                    hstat["returned designs overwritten by the user afterwards"] += 1
                else:
                    kept.append((out, out_snap(out), idx))
        finally:
            hstat["session length %d" % ngen] += 1
            if problem is not None:
                atexit.unregister(problem.cleanup)
                shutil.rmtree(problem.working_dir, ignore_errors=True)

    K6 = [dict(op="full", center=False), dict(op="full", center=True), dict(op="full_levels"), dict(op="pb"), dict(op="bb"),
          dict(op="gsd_gen", reduction=2)]
    CONFIGS = ["full(center=False)", "full(center=True)", "full_levels", "pb", "bb", "gsd_gen"]
    TS_BOUNDS = [(-2.5, 5.0), (1.0, 3.4), (6.0, 10.0)]                    # the test-suite problem
    TS_VALUES = [[1.0, 3.0, 2.0], [6.0, 8.0, 4.0], [0.25, 0.5]]

    def gen_values_h(k):
        """k level lists for the histories: mostly 2..4 levels (GSD needs >= 2), product of the lengths bounded"""
        while True:
            lens = [rng.choice([2, 2, 3, 3, 4]) if rng.random() < 0.93 else 1 for _ in range(k)]
            p = 1
            for x in lens:
                p *= x
            if p <= 150:
                break
        return [[float(x) for x in (rng.sample(GRID, L) if rng.random() < 0.9 else [rng.choice(GRID[:4]) for _ in range(L)])]
                for L in lens]

    def gen_step():
        st = dict(rng.choice(K6))
        if st["op"] == "gsd_gen":
            st["reduction"] = rng.choice([2, 2, 3])
        st["reuse"] = rng.random() < 0.7
        if rng.random() < 0.3:
            st["reinit"] = True
        if rng.random() < 0.3:
            st["scramble"] = True
        return st

    # every ordered pair of generator configurations (a generator followed by itself included: once on the same object,
    # once on a new object), on the test-suite problem and on a generated one
    for i, a in enumerate(K6):
        for j, b in enumerate(K6):
            run_session("pair", TS_BOUNDS, TS_VALUES, [dict(a), dict(b, reuse=(a["op"] == b["op"]))],
                        use_problem=((i * 6 + j) % 9 == 0))
            k = rng.choice([3, 3, 4, 5])
            run_session("pair", gen_bounds(rng, k, degenerate=0.05), gen_values_h(k), [dict(a), dict(b, reuse=False, scramble=(rng.random() < 0.3))])
    # a generator object run again after the user changed what it is given: a bound of the problem (rebound list / item
    # assignment), the level lists (init with new lists), the centre flag
    for a in K6:
        for how in ("rebind", "item"):
            for rnd in (False, True):
                k = rng.choice([3, 3, 4]) if rnd else 3
                bnds = gen_bounds(rng, k, degenerate=0.0) if rnd else TS_BOUNDS
                vals = gen_values_h(k) if rnd else TS_VALUES
                if a["op"] in ("full_levels", "gsd_gen"):
                    change = dict(op="set_values", values=gen_values_h(k if how == "rebind" else max(k - 1, 2)))
                else:
                    lo = float(rng.choice(GRID))
                    change = dict(op="set_bounds", index=rng.randrange(k), how=how, bounds=[lo, lo + rng.choice([0.5, 2.0, 7.5])])
                steps = [dict(a), change, dict(a, reuse=True)]
                if a["op"] == "full":
                    steps.append(dict(a, center=not a["center"], reuse=True))
                run_session("rerun", bnds, vals, steps)
    # red-team round 3 (rule 9): ONE long-lived generator object; between two runs the configuration changes in every way a
    # caller can change it - for the generators reading bounds: item assignment, list rebinding, dict replacement, a new
    # same-length parameter list on the generator object (with and without init() before the next run); for the generators
    # taking level tables: the SAME table object edited in place (a level appended / dropped / overwritten, the levels of a
    # factor replaced by slice or by a new inner list, two tables swapped) and handed to init() again
    def edit_step():
        kind = rng.choice(EDIT_KINDS)
        return dict(op="edit_values", kind=kind, index=rng.randrange(8), position=rng.randrange(4),
                    levels=[float(x) for x in rng.sample(GRID, rng.choice([2, 3, 4]))])

    EDIT_KINDS = ["append", "replace_slice", "replace_inner", "drop", "set_item", "swap_tables", "insert"]
    for a in K6:
        if a["op"] in ("full_levels", "gsd_gen"):
            for kind in EDIT_KINDS:
                for rnd in (False, True):
                    k = rng.choice([2, 3, 3]) if rnd else 3
                    e1 = dict(edit_step(), kind=kind)
                    steps = [dict(a), e1, dict(a, reuse=True), edit_step(), dict(a, reuse=True), dict(a, reuse=True)]
                    run_session("edit_in_place", gen_bounds(rng, k, degenerate=0.0) if rnd else TS_BOUNDS,
                                gen_values_h(k) if rnd else TS_VALUES, steps)
        else:
            for how in ("item", "rebind", "dict", "gen_parameters"):
                for reinit in (False, True):
                    k = 3 if a["op"] != "pb" else rng.choice([3, 5, 7])
                    lo, lo2 = float(rng.choice(GRID)), float(rng.choice(GRID))
                    steps = [dict(a), dict(op="set_bounds", index=rng.randrange(k), how=how, bounds=[lo, lo + rng.choice([0.5, 2.0, 7.5])]),
                             dict(a, reuse=True, reinit=reinit),
                             dict(op="set_bounds", index=rng.randrange(k), how=how, bounds=[lo2, lo2 + rng.choice([1.0, 2.4])]),
                             dict(a, reuse=True, reinit=not reinit)]
                    run_session("edit_in_place", gen_bounds(rng, k, degenerate=0.0), gen_values_h(k), steps, use_problem=(how == "dict" and reinit))
    # the three problems of the red-team demonstration: Box-Behnken first, then the others, on one Problem
    for bnds in ([(-2.5, 5.0), (1.0, 3.4), (6.0, 10.0)], [(0.0, 1.0), (10.0, 20.0), (-4.0, 4.0), (2.0, 3.0), (100.0, 300.0)], [(0.0, 8.0)] * 7):
        run_session("corpus", bnds, gen_values_h(len(bnds)),
                    [dict(op="pb"), dict(op="full", center=False), dict(op="bb"), dict(op="pb"), dict(op="full", center=False),
                     dict(op="bb", reuse=True), dict(op="full", center=len(bnds) < 5, reuse=True), dict(op="pb", reuse=True)],
                    use_problem=True)
    # random histories: 2..5 runs over all generator classes, objects reused or new, the user editing bounds / level lists
    # and overwriting returned vectors in between
    for s in range(ctx.pick(60, 500)):
        k = rng.choice([3, 3, 3, 4, 4, 5, 5, 6, 2, 1, 7])
        steps = []
        for t in range(rng.randint(2, 5)):
            if t > 0 and rng.random() < 0.2:
                a = float(rng.choice(GRID))
                steps.append(dict(op="set_bounds", index=rng.randrange(k), how=rng.choice(["rebind", "item", "dict", "gen_parameters"]),
                                  bounds=[a, a + rng.choice([0.5, 1.0, 2.0, 2.4, 7.5])]))
            if t > 0 and rng.random() < 0.1:
                steps.append(dict(op="set_values", values=gen_values_h(k if rng.random() < 0.8 else max(k - 1, 1))))
            if t > 0 and rng.random() < 0.2:
                steps.append(edit_step())
            st = gen_step()
            if t > 0 and rng.random() < 0.3:                                 # the generator class used just before, again
                st["op"] = [x for x in steps if x["op"] in GEN_CLASS][-1]["op"]
                st.setdefault("center", rng.random() < 0.5)
                st.setdefault("reduction", rng.choice([2, 3]))
            if k >= 5 and st["op"] == "full":
                st["center"] = False
            steps.append(st)
        run_session("random", gen_bounds(rng, k, degenerate=0.08), gen_values_h(k), steps, use_problem=(s % 12 == 0))

    # ---- the same at the level of doe.py: one dict of level lists / one list of level counts handed to several functions
    # What the unchanged functions do to their argument (measured below, reported in the evidence): build_full_fact,
    # fullfact and build_gsd leave it alone; build_plackett_burman leaves two-element lists alone (longer ones are
    # overwritten: lst[1] = lst[-1], and the dict entry is rebound to lst[:2]); build_box_behnken leaves three-element lists
    # alone and turns a two-element list IN PLACE into the sorted [l, mid, u].  The Generator classes shield the
    # problem from both in-place effects by building fresh [l_b, u_b] lists - which the purity oracle above asserts.
    effects = Counter()

    def run_doe_session(shape, bounds, steps):
        ref = [(float(a), float(b)) for a, b in bounds]
        n = len(ref)
        if shape == 3:
            lists = [[a, (a + b) / 2, b] for a, b in ref]                  # sorted: a <= b by construction
        else:
            lists = [[a, b] for a, b in ref]
        ref_lists = [tuple(v) for v in lists]
        d = {"x_%d" % i: v for i, v in enumerate(lists)}
        history = []
        hstat["doe-level sessions"] += 1
        for idx, op in enumerate(steps):
            history.append(op)
            if op == "edit":
                # the caller changes a lower level of his own lists in place (same dict, same list objects) between two calls
                i = rng.randrange(n)
                a, b = ref[i]
                a2 = a - rng.choice([0.5, 1.0, 2.0])
                if shape == 3:
                    lists[i][0], lists[i][1] = a2, (a2 + b) / 2
                else:
                    lists[i][0] = a2
                ref[i] = (a2, b)
                ref_lists = [tuple(v) for v in lists]
                history[-1] = "edit: level list %d now %r" % (i, list(ref_lists[i]))
                hstat["doe-level: caller edits his level lists in place between two calls"] += 1
                continue
            f = {"doe_full": doe.build_full_fact, "doe_pb": doe.build_plackett_burman, "doe_bb": doe.build_box_behnken}[op]
            before = snap(d)
            out, e = call(lambda: f(d))
            after = snap(d)
            hstat["doe-level runs"] += 1
            inp = {"function": f.__name__, "history": list(history), "step": idx, "shared": "one dict of level lists",
                   "level_lists": [list(v) for v in ref_lists]}
            hkey = ("doe", shape, tuple(history), tuple(ref_lists))
            in_place = (op == "doe_bb" and shape == 2)
            if in_place:
                # today's documented in-place effect; nothing is run on this dict afterwards
                want = snap({"x_%d" % i: sorted([a, b, (a + b) / 2]) for i, (a, b) in enumerate(ref)})
                effects["build_box_behnken on two-element lists: caller's lists are afterwards the sorted [l, mid, u]: %s"
                        % ("yes" if after == want else ("unchanged" if after == before else "other"))] += 1
            else:
                dd = snap_diff(before, after, "factor_level_ranges")
                effects["%s on %d-element lists: argument unchanged: %s" % (f.__name__, shape, "no" if dd else "yes")] += 1
                if dd:
                    fail("doe.%s modified the level lists it was given (%s); callers that pass their own lists (FullFactorLevelsGenerator "
                         "passes the user's) see other levels afterwards" % (f.__name__, dd), inp, "purity")
            if op == "doe_full":
                case = "CFullLevels %s %s" % (ll(ref_lists, lambda v: ll(v, fl)), nl(n))
                must = n >= 1
                okind, orc = "fullfact_levels", (lambda rows: oracle_full([list(v) for v in ref_lists], rows, inp))
            elif op == "doe_pb":
                case = "CPB %s" % bounds_lit(ref)
                must = 1 <= n <= 23
                okind, orc = "pb", (lambda rows: oracle_pb(ref, rows, inp))
            else:
                case = "CBB %s" % bounds_lit(ref)
                must = n >= 3
                okind, orc = "bb", (lambda rows: oracle_bb(ref, rows, inp))
            m = dict(inp, kind="hist:" + op)
            if e is not None:
                errors[e] += 1
                if must:
                    fail("doe.%s raised %s" % (f.__name__, e), inp, okind)
                push("hist:" + op, case, "OErr %s" % nl(ERR.get(e, 9)), dict(m, error=e), hkey, nontrivial=False)
                continue
            rows = to_rows(out)
            orc(rows)
            push("hist:" + op, case, rows_lit(rows), dict(m, rows=len(rows)), hkey)

    for s in range(ctx.pick(24, 240)):
        shape = rng.choice([2, 3])
        k = rng.choice([3, 3, 4, 4, 5, 2, 6]) if shape == 2 else rng.choice([3, 3, 4, 4, 5])
        if shape == 2:
            steps = [rng.choice(["doe_full", "doe_pb", "doe_full", "doe_pb", "edit"]) for _ in range(rng.randint(2, 5))]
            steps += ["doe_bb"] * rng.choice([0, 0, 1, 2])               # only at the end: it rewrites two-element lists in place
            bounds = gen_bounds(rng, k, degenerate=0.08)
        else:
            steps = [rng.choice(["doe_full", "doe_bb", "doe_full", "doe_bb", "edit"]) for _ in range(rng.randint(2, 6))]
            bounds = gen_bounds(rng, k, degenerate=0.0)
            if rng.random() < 0.2:
                i = rng.randrange(k)
                bounds[i] = (bounds[i][0], bounds[i][0])                   # coincident levels
        run_doe_session(shape, bounds, steps)
    # one list of level counts handed to fullfact and build_gsd repeatedly
    for s in range(ctx.pick(16, 160)):
        k = rng.choice([2, 2, 3, 3, 4])
        L = [rng.choice([2, 2, 3, 3, 4, 5]) for _ in range(k)]
        refL = tuple(L)
        hstat["doe-level sessions"] += 1
        hsteps = []
        for t in range(rng.randint(2, 5)):
            if t > 0 and rng.random() < 0.3:                              # the caller changes a level count of his list in place
                L[rng.randrange(k)] = rng.choice([2, 3, 4, 5])
                refL = tuple(L)
                hsteps.append("levels edited in place: %r" % (list(refL),))
                hstat["doe-level: caller edits his level lists in place between two calls"] += 1
            before = snap(L)
            if rng.random() < 0.4:
                hsteps.append("fullfact")
                out, e = call(lambda: doe.fullfact(L))
                inp = {"function": "fullfact", "levels": list(refL), "history": list(hsteps), "shared": "one list of level counts"}
                idx_lists = [[float(x) for x in range(c)] for c in refL]
                case = "CFullLevels %s %s" % (ll(idx_lists, lambda v: ll(v, fl)), nl(k))
                hkey = ("doe", "fullfact", tuple(hsteps), refL)
                if e is not None:
                    errors[e] += 1
                    fail("doe.fullfact raised %s" % e, inp, "fullfact")
                    push("hist:fullfact", case, "OErr %s" % nl(ERR.get(e, 9)), dict(inp, kind="hist:fullfact", error=e), hkey, nontrivial=False)
                else:
                    rows = to_rows(out)
                    oracle_full(idx_lists, rows, inp)
                    push("hist:fullfact", case, rows_lit(rows), dict(inp, kind="hist:fullfact", rows=len(rows)), hkey)
                name = "fullfact"
            else:
                r = rng.choice([2, 2, 3])
                nn = rng.choice([1, r, r, 2])
                hsteps.append("build_gsd(r=%d,n=%d)" % (r, nn))
                do_gsd(refL, r, nn, shared=L, hist={"history": list(hsteps), "shared": "one list of level counts"})
                name = "build_gsd"
            hstat["doe-level runs"] += 1
            dd = snap_diff(before, snap(L), "levels")
            effects["%s: argument unchanged: %s" % (name, "no" if dd else "yes")] += 1
            if dd:
                fail("doe.%s modified the list of level counts it was given (%s)" % (name, dd),
                     {"function": name, "levels": list(refL), "history": list(hsteps), "shared": "one list of level counts"}, "purity")
    # ---- red-team round 5 (rule 11): every input SHAPE the doe.py entry points named by the property accept ----------------
    # The Generator classes only ever hand fresh Python lists of exactly the shape they build to the doe.py functions, so
    # (a) build_plackett_burman was never called with a factor given as MORE than two levels ("only min and max values of
    # the range are required": the unchanged code takes the first entry as the low and the END POINT as the high level), and
    # (b) level containers were always Python lists.  Here the doe.py functions, FullFactorLevelsGenerator and GSDGenerator
    # are called directly with factors of 2..5 levels and with every container representation the unchanged code accepts
    # (measured on the unchanged tree: list, tuple, numpy arrays of float64 / float32 / int, np.linspace / np.arange, range,
    # lists of numpy scalars; level COUNTS as list / tuple / range / integer arrays / lists of numpy integers - build_gsd
    # insists on Python ints, so it gets list / tuple / range only; a tuple is accepted by build_plackett_burman only
    # with two entries and by build_box_behnken only with three, because the other shapes are rewritten in place).  The
    # model is evaluated on the float values the container HOLDS (read by the harness before the call); for
    # Plackett-Burman on (first, last) of each level list.
    def mk(kind, vals):
        """a level container of representation `kind` built from the floats vals, and the list of floats it holds"""
        vals = [float(x) for x in vals]
        if kind == "list":
            c = list(vals)
        elif kind == "tuple":
            c = tuple(vals)
        elif kind == "ndarray":
            c = np.array(vals, dtype=float)
        elif kind == "ndarray_f32":
            c = np.array(vals, dtype=np.float32)
        elif kind == "np_scalars":
            c = [np.float64(x) for x in vals]
        elif kind == "linspace":
            c = np.linspace(vals[0], vals[-1], len(vals))
        elif kind == "int_list":
            c = [int(x) for x in vals]
        elif kind == "int_ndarray":
            c = np.array([int(x) for x in vals], dtype=int)
        elif kind == "range":
            c = range(int(vals[0]), int(vals[0]) + len(vals))
        elif kind == "arange":
            c = np.arange(int(vals[0]), int(vals[0]) + len(vals))
        else:
            raise AssertionError(kind)
        return c, [float(x) for x in c]

    def safe_rows(out):
        try:
            return [[float(x) for x in r] for r in out], None
        except Exception as ex:
            return None, "%s: %s" % (type(ex).__name__, ex)

    REPR_KINDS = ["list", "tuple", "ndarray", "ndarray_f32", "np_scalars", "linspace", "int_list", "int_ndarray", "range", "arange"]
    shapes = Counter()

    def do_levels_repr(api, vals, kinds, outer="list", reduction=2):
        """build_full_fact / FullFactorLevelsGenerator / GSDGenerator on level containers of the given representations"""
        made = [mk(kd, v) for kd, v in zip(kinds, vals)]
        conts = [c for c, _ in made]
        held = [h for _, h in made]
        k = len(held)
        inp = {"level_containers": list(kinds), "values": [list(h) for h in held]}
        if api == "build_full_fact":
            d = {"x_%d" % i: c for i, c in enumerate(conts)}
            inp["function"] = api
            f = lambda: doe.build_full_fact(d)
        else:
            arg = tuple(conts) if outer == "tuple" else list(conts)
            inp.update(generator=api, outer_container=outer)
            g = getattr(ops, api)(parameters=[{"name": "U_%d" % i} for i in range(k)])
            if api == "GSDGenerator":
                g.init(arg, reduction=reduction)
                inp["reduction"] = reduction
            else:
                g.init(arg)
            f = g.generate
        out, e = call(f)
        for kd in set(kinds):
            shapes["%s: level container %s" % (api, kd)] += 1
        after = [[float(x) for x in c] for c in conts]
        if after != held:
            fail("%s modified a level container it was given: %r -> %r" % (api, held, after), inp, "purity")
        if api == "GSDGenerator":
            knd, okind = "gsd_gen", "gsd_gen"
            case = "CGSDGen %s %s" % (ll(held, lambda v: ll(v, fl)), nl(reduction))
            key = ("repr", tuple(kinds), outer, tuple(tuple(v) for v in held), reduction)
        else:
            knd, okind = "full_levels", "fullfact_levels"
            case = "CFullLevels %s %s" % (ll(held, lambda v: ll(v, fl)), nl(k))
            key = ("repr", api, tuple(kinds), outer, tuple(tuple(v) for v in held))
        m = dict(inp, kind="repr:" + knd)
        if e is not None:
            errors[e] += 1
            if api != "GSDGenerator" and k >= 1:
                fail("%s raised %s" % (api, e), inp, okind)
            push("repr:" + knd, case, "OErr %s" % nl(ERR.get(e, 9)), dict(m, error=e), key, nontrivial=False)
            return
        rows, bad = safe_rows(out)
        if bad is not None:
            fail("%s returned something that is not a list of rows of level values (%s): %d rows, first row %r"
                 % (api, bad, len(out), [repr(x)[:60] for x in out[0]] if len(out) else None), inp, okind)
            push("repr:" + knd, case, "OErr 9", dict(m, error="unreadable"), key, nontrivial=False)
            return
        if api == "GSDGenerator":
            oracle_gsd_gen(held, rows, inp)
        else:
            oracle_full(held, rows, inp)
        push("repr:" + knd, case, rows_lit(rows), dict(m, rows=len(rows)), key, nontrivial=len(rows) > 1)

    def do_counts_repr(api, lens, kind, r=2, n=2):
        """fullfact / build_gsd on a list of level COUNTS of the given representation"""
        lens = [int(x) for x in lens]
        if kind == "list":
            arg = list(lens)
        elif kind == "tuple":
            arg = tuple(lens)
        elif kind == "range":
            lens = lens[:3]
            arg = range(min(lens[0], 3), min(lens[0], 3) + len(lens))
            lens = list(arg)
        elif kind == "np_ints":
            arg = [np.int64(x) for x in lens]
        elif kind == "ndarray_i32":
            arg = np.array(lens, dtype=np.int32)
        else:
            arg = np.array(lens, dtype=np.int64)
        shapes["%s: level counts as %s" % (api, kind)] += 1
        if api == "build_gsd":
            do_gsd(lens, r, n, shared=arg, hist={"level_counts_container": kind})
            return
        out, e = call(lambda: doe.fullfact(arg))
        inp = {"function": "fullfact", "levels": list(lens), "level_counts_container": kind}
        idx_lists = [[float(x) for x in range(c)] for c in lens]
        case = "CFullLevels %s %s" % (ll(idx_lists, lambda v: ll(v, fl)), nl(len(lens)))
        key = ("repr", "fullfact", kind, tuple(lens))
        if e is not None:
            errors[e] += 1
            fail("doe.fullfact raised %s" % e, inp, "fullfact")
            push("repr:fullfact", case, "OErr %s" % nl(ERR.get(e, 9)), dict(inp, kind="repr:fullfact", error=e), key, nontrivial=False)
            return
        rows = to_rows(out)
        oracle_full(idx_lists, rows, inp)
        push("repr:fullfact", case, rows_lit(rows), dict(inp, kind="repr:fullfact", rows=len(rows)), key)

    def monotone(v):
        return all(a <= b for a, b in zip(v, v[1:])) or all(a >= b for a, b in zip(v, v[1:]))

    def do_doe_pb(vals, kinds):
        """doe.build_plackett_burman on factors given with 2 or more levels: the design is over (first level, end point)"""
        made = [mk(kd, v) for kd, v in zip(kinds, vals)]
        held = [h for _, h in made]
        d = {"x_%d" % i: c for i, (c, _) in enumerate(made)}
        ref = [(h[0], h[-1]) for h in held]
        n = len(ref)
        out, e = call(lambda: doe.build_plackett_burman(d))
        inp = {"function": "build_plackett_burman", "level_lists": [list(h) for h in held], "level_containers": list(kinds)}
        for h, kd in zip(held, kinds):
            shapes["build_plackett_burman: factor with %d levels" % len(h)] += 1
            shapes["build_plackett_burman: level container %s" % kd] += 1
        case = "CPB %s" % bounds_lit(ref)
        key = ("repr", tuple(kinds), tuple(tuple(h) for h in held))
        m = dict(inp, kind="repr:pb", n=n)
        if e is not None:
            errors[e] += 1
            if 1 <= n <= 23:
                fail("doe.build_plackett_burman raised %s for the supported size %d" % (e, n), inp, "pb")
            push("repr:pb", case, "OErr %s" % nl(ERR.get(e, 9)), dict(m, error=e), key, nontrivial=False)
            return
        rows, bad = safe_rows(out)
        if bad is not None:
            fail("doe.build_plackett_burman returned something that is not a list of rows of level values (%s)" % bad, inp, "pb")
            push("repr:pb", case, "OErr 9", dict(m, error="unreadable"), key, nontrivial=False)
            return
        if all(monotone(h) for h in held):
            # the two bounds of a factor given as an ascending or descending range are its first level and its end point;
            # for a level list in no order the property text does not say which two values are meant: correspondence only
            oracle_pb(ref, rows, inp)
        else:
            shapes["build_plackett_burman: designs with a level list in no order (correspondence only)"] += 1
        push("repr:pb", case, rows_lit(rows), dict(m, rows=len(rows)), key)

    def do_doe_bb(bounds, kinds, shape):
        """doe.build_box_behnken on three-level containers [l, mid, u] (l <= u) resp. two-level lists"""
        ref = [(float(a), float(b)) for a, b in bounds]
        made = [mk(kd, [a, (a + b) / 2, b] if shape == 3 else [a, b]) for kd, (a, b) in zip(kinds, ref)]
        if any(h[0] != a or h[-1] != b or (shape == 3 and h[1] != (a + b) / 2) for (_, h), (a, b) in zip(made, ref)):
            return                                                    # a representation that does not hold the values exactly
        d = {"x_%d" % i: c for i, (c, _) in enumerate(made)}
        n = len(ref)
        out, e = call(lambda: doe.build_box_behnken(d))
        inp = {"function": "build_box_behnken", "level_lists": [list(h) for _, h in made], "level_containers": list(kinds)}
        for kd in set(kinds):
            shapes["build_box_behnken: %d-level container %s" % (shape, kd)] += 1
        case = "CBB %s" % bounds_lit(ref)
        key = ("repr", shape, tuple(kinds), tuple(ref))
        m = dict(inp, kind="repr:bb", n=n)
        if e is not None:
            errors[e] += 1
            if n >= 3:
                fail("doe.build_box_behnken raised %s for %d factors" % (e, n), inp, "bb")
            push("repr:bb", case, "OErr %s" % nl(ERR.get(e, 9)), dict(m, error=e), key, nontrivial=False)
            return
        rows, bad = safe_rows(out)
        if bad is not None:
            fail("doe.build_box_behnken returned something that is not a list of rows of level values (%s)" % bad, inp, "bb")
            push("repr:bb", case, "OErr 9", dict(m, error="unreadable"), key, nontrivial=False)
            return
        oracle_bb(ref, rows, inp)
        push("repr:bb", case, rows_lit(rows), dict(m, rows=len(rows)), key)

    # values every representation holds exactly: small integers (range / arange / int containers), quarters (float32)
    def vals_for(kind, L):
        if kind in ("range", "arange"):
            a = rng.randrange(-3, 6)
            return [float(a + j) for j in range(L)]
        if kind in ("int_list", "int_ndarray"):
            return [float(x) for x in rng.sample(range(-6, 12), L)]
        if kind == "ndarray_f32":
            return [float(x) for x in rng.sample([-2.5, -1.0, 0.0, 0.25, 0.5, 0.75, 1.0, 1.5, 2.0, 3.0, 6.0, 10.0, 100.0], L)]
        if kind == "linspace":
            a = float(rng.choice(GRID[:10]))
            return [a + j * rng.choice([0.5, 1.0, 0.25]) for j in range(L)] if L > 1 else [a]
        return [float(x) for x in rng.sample(GRID, L)]

    # Plackett-Burman: the red-team case first, then factors with 2..5 levels in ascending / descending / no order
    do_doe_pb([[50.0, 60.0, 70.0], [290.0, 320.0, 350.0], [0.9, 1.0]], ["list", "list", "list"])
    do_doe_pb([[0.0, 5.0, 10.0], [3.0, 2.0, 1.0], [1.0, 2.0, 3.0, 4.0]], ["list", "ndarray", "np_scalars"])
    do_doe_pb([[1.0, 5.0, 3.0], [0.5, 0.1, 0.2, 0.9], [2.0, 2.0, 2.0]], ["list", "list", "list"])
    do_doe_pb([[1.0, 2.0], [4.0, 3.0]], ["tuple", "ndarray"])
    PB_KINDS = ["list", "list", "list", "ndarray", "np_scalars", "ndarray_f32", "linspace", "int_list", "int_ndarray", "arange"]
    for s in range(ctx.pick(36, 300)):
        n = rng.choice([1, 2, 3, 3, 4, 5, 7, 8, 11, 12]) if s % 6 else rng.randint(1, 23)
        vals, kds = [], []
        for _ in range(n):
            kd = rng.choice(PB_KINDS)
            L = rng.choice([2, 3, 3, 3, 4, 4, 5])
            if rng.random() < 0.15 and L == 2:
                kd = "tuple"
            v = vals_for(kd, L)
            q = rng.random()
            if kd not in ("linspace", "arange"):
                v = sorted(v) if q < 0.5 else (sorted(v, reverse=True) if q < 0.75 else v)
            vals.append(v)
            kds.append(kd)
        do_doe_pb(vals, kds)
    # Box-Behnken: three-level containers of every representation, two-level lists
    for s in range(ctx.pick(12, 100)):
        n = rng.choice([3, 3, 4, 5])
        shape = 3 if s % 3 else 2
        bounds = [(a, b) for a, b in gen_bounds(rng, n, degenerate=0.0)]
        pool_k = ["list", "tuple", "ndarray", "np_scalars"] if shape == 3 else ["list", "np_scalars"]
        do_doe_bb(bounds, [rng.choice(pool_k) for _ in range(n)], shape)
    # full factorial over level containers: the red-team cases, each representation alone, then mixtures
    do_levels_repr("FullFactorLevelsGenerator", [[0.0, 0.25, 0.5, 0.75, 1.0], [10.0, 20.0, 30.0]], ["linspace", "list"])
    do_levels_repr("build_full_fact", [[50.0, 60.0, 70.0], [290.0, 320.0, 350.0], [0.9, 1.0]], ["ndarray", "ndarray", "ndarray"])
    for api in ("build_full_fact", "FullFactorLevelsGenerator", "GSDGenerator"):
        for kd in REPR_KINDS:
            Ls = [rng.choice([2, 3, 4]), rng.choice([2, 3]), rng.choice([2, 3, 5])][:rng.choice([2, 3])]
            do_levels_repr(api, [vals_for(kd, L) for L in Ls], [kd] * len(Ls), outer=rng.choice(["list", "tuple"]))
    for s in range(ctx.pick(30, 300)):
        api = rng.choice(["build_full_fact", "FullFactorLevelsGenerator", "GSDGenerator"])
        k = rng.choice([1, 2, 2, 3, 3, 4]) if api != "GSDGenerator" else rng.choice([2, 2, 3, 3, 4])
        kds = [rng.choice(REPR_KINDS) for _ in range(k)]
        Ls = [rng.choice([1, 2, 2, 3, 3, 4, 5] if api != "GSDGenerator" else [2, 2, 3, 3, 4, 5]) for _ in range(k)]
        do_levels_repr(api, [vals_for(kd, L) for kd, L in zip(kds, Ls)], kds, outer=rng.choice(["list", "tuple"]),
                       reduction=rng.choice([2, 2, 3]))
    # level counts: fullfact on list / tuple / range / integer arrays / numpy integers, build_gsd on list / tuple / range
    for s in range(ctx.pick(18, 150)):
        k = rng.choice([1, 2, 2, 3, 3, 4])
        lens = [rng.choice([2, 2, 3, 3, 4, 5]) for _ in range(k)]
        do_counts_repr("fullfact", lens, rng.choice(["list", "tuple", "range", "np_ints", "ndarray_i32", "ndarray_i64"]))
        if k >= 2:
            r = rng.choice([2, 2, 3])
            do_counts_repr("build_gsd", lens, rng.choice(["tuple", "range", "tuple", "list"]), r=r, n=rng.choice([1, r]))

    # the in-place effect of build_plackett_burman on lists that do not have two elements (never reached through the Generator
    # classes, which pass fresh two-element lists): measured for the record
    for lst in ([1.0, 2.0, 3.0], [0.5, 0.1, 0.2, 0.9]):
        dpb = {"a": list(lst), "b": list(lst), "c": list(lst)}
        keep = dpb["a"]
        call(lambda: doe.build_plackett_burman(dpb))
        effects["build_plackett_burman on %d-element lists: caller's list overwritten (lst[1] = lst[-1]) and dict entry rebound to lst[:2]: %s"
                % (len(lst), "yes" if (keep == [lst[0], lst[-1]] + lst[2:] and dpb["a"] == [lst[0], lst[-1]]) else "no")] += 1

    # ---- red-team round 6 (rule 11 payload shapes, rule 8 numeric scale): levels and bounds as OBJECTS of mixed kinds ------
    # Every stream above hands float levels (or containers of one numeric dtype) to the generators and reads the design back
    # through float(): a design that returns a COERCED level (the entry of an array built from the level list: numbers next
    # to a string become strings, a Python int above 2**53 next to a float becomes the nearest double, so two neighbouring
    # integers collapse into one level) was invisible.  Here the level lists / bounds of ONE factor mix kinds: strings next
    # to numbers, numeric strings next to the numbers they spell, Python ints beyond 2**53 / 2**63 / 2**64 next to floats
    # and next to each other, bools, None, Fractions, Decimals, numpy scalars of several dtypes, tuples as levels.  The
    # design must consist of the GIVEN levels: cells are compared with Python's == after separating str from number by type
    # (lkey: 0 and 0.0 are the same level; '1' and 1, 2**53+1 and 9007199254740992.0, (1, 2) and [1, 2] are not).  For the
    # model the levels of a factor are opaque symbols: level j stands as float(index of the first level equal to it), and a
    # returned cell is looked up among the given levels of its factor (-1.0 = not one of them).
    from fractions import Fraction
    from decimal import Decimal
    mixed = Counter()

    def lkey(v):
        """a level as the property sees it: hashable, equal exactly when the two objects are the same level"""
        if isinstance(v, np.generic):
            try:
                v = v.item()
            except Exception:
                pass
        if isinstance(v, str):
            return ("s", str(v))
        if v is None:
            return ("none",)
        if isinstance(v, (bool, int, float, Fraction, Decimal)):
            return ("n", v)
        if isinstance(v, tuple):
            return ("t", tuple(lkey(x) for x in v))
        if isinstance(v, list):
            return ("l", tuple(lkey(x) for x in v))
        if isinstance(v, np.ndarray):
            return ("a", str(v.dtype), repr(v.tolist()))
        return ("o", type(v).__name__, repr(v))

    def sym(levels):
        """the levels of one factor as opaque symbols: index list for the model, lookup table for the returned cells"""
        table, idx = {}, []
        for j, v in enumerate(levels):
            idx.append(table.setdefault(lkey(v), float(j)))
        return idx, table

    def show(levels):
        return [repr(v) for v in levels]

    def key_rows(rows):
        return [[lkey(x) for x in r] for r in rows]

    def oracle_full_obj(levels, rows, inp, kind, subset=False):
        want, got, rep = Counter(), Counter(), {}
        for c in itertools.product(*levels):
            kc = tuple(lkey(v) for v in c)
            want[kc] += 1
            rep.setdefault(kc, list(c))
        for r in rows:
            kr = tuple(lkey(x) for x in r)
            got[kr] += 1
            rep.setdefault(kr, list(r))
        if subset:
            if got - want:
                fail("GSDGenerator returns a run that is not a combination of the GIVEN levels (or more often than the full factorial "
                     "has it): %r (cells are compared with == and, str against number, by type)"
                     % ([rep[q] for q in list((got - want).keys())[:2]],), inp, kind)
        elif got != want:
            fail("full factorial is not every combination of the GIVEN levels exactly once: %d rows for %d combinations, missing %r, "
                 "surplus %r (cells are compared with == and, str against number, by type)"
                 % (len(rows), sum(want.values()), [rep[q] for q in list((want - got).keys())[:2]],
                    [rep[q] for q in list((got - want).keys())[:2]]), inp, kind)

    def oracle_bb_obj(bounds, rows, inp):
        n = len(bounds)
        if n < 3:
            return
        mid = [lkey((lb + ub) / 2) for lb, ub in bounds]
        want = Counter()
        for i, j in itertools.combinations(range(n), 2):
            for a in bounds[i]:
                for b in bounds[j]:
                    r = list(mid)
                    r[i], r[j] = lkey(a), lkey(b)
                    want[tuple(r)] += 1
        want[tuple(mid)] += 1
        got = Counter(tuple(r) for r in key_rows(rows))
        if got != want:
            fail("Box-Behnken design for %d factors is not the +/- corners of every factor pair (the GIVEN bounds) plus one centre run: "
                 "%d rows (expected %d), missing %r, surplus %r"
                 % (n, len(rows), sum(want.values()), list((want - got).keys())[:2], list((got - want).keys())[:2]), inp, "bb")

    def finish_mixed(knd, okind, api, case, key, inp, out, e, must, tables, orc):
        m = dict(inp, kind="mixed:" + knd)
        if e is not None:
            errors[e] += 1
            if must:
                fail("%s raised %s on levels of mixed kinds" % (api, e), inp, okind)
            if case is not None:
                push("mixed:" + knd, case, "OErr %s" % nl(ERR.get(e, 9)), dict(m, error=e), key, nontrivial=False)
            return
        try:
            rows = [list(r) for r in out]
        except Exception as ex:
            fail("%s returned something that is not a list of rows: %r" % (api, ex), inp, okind)
            if case is not None:
                push("mixed:" + knd, case, "OErr 9", dict(m, error="unreadable"), key, nontrivial=False)
            return
        orc(rows)
        if case is None:
            del pending[:]
            mixed["%s: direct oracle only (a computed mid level equals a bound: no symbol order for the model)" % api] += 1
            return
        k = len(tables)
        obs = [[tables[i].get(lkey(x), -1.0) if i < k else -1.0 for i, x in enumerate(r)] for r in rows]
        push("mixed:" + knd, case, rows_lit(obs), dict(m, rows=len(rows)), key, nontrivial=len(rows) > 1)

    def do_mixed_levels(api, levels, flavours, outer="list", inner="list", reduction=2):
        """build_full_fact / FullFactorLevelsGenerator / GSDGenerator on level lists whose entries are objects of mixed kinds"""
        k = len(levels)
        conts = [tuple(lv) if inner == "tuple" else list(lv) for lv in levels]
        inp = {"levels": [show(lv) for lv in levels], "level_kinds": list(flavours), "level_container": inner}
        syms = [sym(lv) for lv in levels]
        idx, tables = [s[0] for s in syms], [s[1] for s in syms]
        if api == "build_full_fact":
            d = {"x_%d" % i: c for i, c in enumerate(conts)}
            inp["function"] = api
            f = lambda: doe.build_full_fact(d)
        else:
            arg = tuple(conts) if outer == "tuple" else list(conts)
            inp.update(generator=api, outer_container=outer)
            g = getattr(ops, api)(parameters=[{"name": "U_%d" % i} for i in range(k)])
            if api == "GSDGenerator":
                g.init(arg, reduction=reduction)
                inp["reduction"] = reduction
            else:
                g.init(arg)
            f = g.generate
        before = [[lkey(v) for v in c] for c in conts]
        out, e = call(f)
        for fv in set(flavours):
            mixed["%s: factor with levels of kind %s" % (api, fv)] += 1
        if [[lkey(v) for v in c] for c in conts] != before or any(a is not b for c, lv in zip(conts, levels) for a, b in zip(c, lv)):
            fail("%s modified a level list it was given" % api, inp, "purity")
        key = ("mixed", api, outer, inner, reduction, tuple(tuple(s) for s in inp["levels"]))
        if api == "GSDGenerator":
            case = "CGSDGen %s %s" % (ll(idx, lambda v: ll(v, fl)), nl(reduction))
            finish_mixed("gsd_gen", "gsd_gen", api, case, key, inp, out, e, False, tables,
                         lambda rows: oracle_full_obj(levels, rows, inp, "gsd_gen", subset=True))
        else:
            case = "CFullLevels %s %s" % (ll(idx, lambda v: ll(v, fl)), nl(k))
            finish_mixed("full_levels", "fullfact_levels", api, case, key, inp, out, e, k >= 1, tables,
                         lambda rows: oracle_full_obj(levels, rows, inp, "fullfact_levels"))

    def do_mixed_bounds(api, bounds, flavours, center=False, inner="list"):
        """the generators that read the parameters' bounds, and build_plackett_burman / build_box_behnken on two- resp.
        three-level lists, with bounds that are objects of mixed kinds (Box-Behnken and center=True: numbers only)"""
        n = len(bounds)
        inp = {"bounds": [show(b) for b in bounds], "bound_kinds": list(flavours)}
        params = [{"name": "x_%d" % i, "bounds": [b[0], b[1]]} for i, b in enumerate(bounds)]
        key = ("mixed", api, bool(center), inner, tuple(tuple(s) for s in inp["bounds"]))
        for fv in set(flavours):
            mixed["%s: factor with bounds of kind %s" % (api, fv)] += 1
        if api in ("FullFactorGenerator", "PlackettBurmanGenerator", "BoxBehnkenGenerator"):
            inp["generator"] = api
            g = getattr(ops, api)(parameters=params)
            if api == "FullFactorGenerator":
                g.init(center)
                inp["center"] = bool(center)
            f = g.generate
        else:
            inp.update(function=api, level_container=inner)
            if api == "build_plackett_burman":
                lists = [[b[0], b[1]] for b in bounds]
            else:
                lists = [sorted([b[0], (b[0] + b[1]) / 2, b[1]]) for b in bounds]
                inp["level_lists"] = [show(v) for v in lists]
            d = {"x_%d" % i: (tuple(v) if inner == "tuple" else v) for i, v in enumerate(lists)}
            f = lambda: getattr(doe, api)(d)
        out, e = call(f)
        if any(p["bounds"][0] is not b[0] or p["bounds"][1] is not b[1] or len(p["bounds"]) != 2 for p, b in zip(params, bounds)):
            fail("%s modified the bounds of the parameters it was given" % api, inp, "purity")
        if api == "FullFactorGenerator":
            levels = [[b[0], (b[0] + b[1]) / 2.0, b[1]] if center else [b[0], b[1]] for b in bounds]
            syms = [sym(lv) for lv in levels]
            case = "CFullLevels %s %s" % (ll([s[0] for s in syms], lambda v: ll(v, fl)), nl(n))
            finish_mixed("full", "fullfact", api, case, key, inp, out, e, n >= 1, [s[1] for s in syms],
                         lambda rows: oracle_full_obj(levels, rows, inp, "fullfact"))
        elif api in ("PlackettBurmanGenerator", "build_plackett_burman"):
            syms = [sym([b[0], b[1]]) for b in bounds]
            case = "CPB %s" % ll([s[0] for s in syms], lambda v: pl(fl(v[0]), fl(v[1])))
            kb = [(lkey(b[0]), lkey(b[1])) for b in bounds]
            finish_mixed("pb", "pb", api, case, key, inp, out, e, 1 <= n <= 23, [s[1] for s in syms],
                         lambda rows: oracle_pb(kb, key_rows(rows), inp))
        else:
            tables, sb = [], []
            for lo, hi in bounds:
                md = (lo + hi) / 2
                if lo < md < hi:
                    sb.append((0.0, 2.0))
                elif lo > md > hi:
                    sb.append((2.0, 0.0))
                else:
                    sb = None
                    break
                tables.append({lkey(lo): sb[-1][0], lkey(md): 1.0, lkey(hi): sb[-1][1]})
            case = None if sb is None else "CBB %s" % ll(sb, lambda v: pl(fl(v[0]), fl(v[1])))
            finish_mixed("bb", "bb", api, case, key, inp, out, e, n >= 3, tables, lambda rows: oracle_bb_obj(bounds, rows, inp))

    M_SMALL = [0, 1, 2, 3, -1, 7, 10, 0.5, 1.5, -2.5, 0.1, 1e-9, 1e6, 3.0, 0.30000000000000004, 1e300, 5e-324]
    M_FLOATS = [0.5, 1.5, -2.5, 0.1, 0.25, 1e6, 1e-9, 3.0]
    M_STRS = ["off", "on", "auto", "a", "bcd", "1", "2.0", "", "None", "nan", "low", "high", "0.5", "x" * 30]
    M_BASES = [2 ** 53, 2 ** 53, 2 ** 54, 10 ** 17, 2 ** 62, 2 ** 63 - 2, 2 ** 63, 2 ** 64 - 2, 2 ** 64, 10 ** 30, -(2 ** 53) - 4, -(2 ** 63) - 2]
    M_TUPLES = [(0, 1), (1, 0), (1, 1), (0, 0), (0.5, "a"), (2,), (1, 2, 3), ((1, 2), 3), (), ("x", None), (2 ** 53 + 1, 0.5)]
    M_FRACS = [Fraction(1, 3), Fraction(2, 3), Fraction(5, 2), Fraction(-7, 4), Fraction(2 ** 53 + 1, 1), Fraction(1, 10)]
    M_DECS = [Decimal("0.1"), Decimal("2.50"), Decimal("1E+3"), Decimal("-0.75"), Decimal("9007199254740993")]
    M_NP = [np.float32(0.1), np.float32(2.5), np.float16(0.1), np.float64(0.3), np.int64(2 ** 53 + 1), np.int64(3), np.int8(-3),
            np.uint8(200), np.int64(2 ** 62 + 1), np.bool_(True), np.str_("np"), np.uint64(2 ** 64 - 1)]
    M_NP_NUM = [np.float32(0.1), np.float32(2.5), np.float64(0.3), np.int64(2 ** 53 + 1), np.int64(3), np.int32(-3)]      # no float16 among BOUNDS: (l + u) / 2 overflows there (1e6 + float16 -> inf under numpy 2 promotion), outside the binary64 assumption

    def distinct(vals):
        seen, out = set(), []
        for v in vals:
            if lkey(v) not in seen:
                seen.add(lkey(v))
                out.append(v)
        return out

    def mixed_factor(flavour, L):
        """L level objects of one factor (distinct as levels, except now and then); the first two are also used as bounds"""
        def some(pool, cnt):
            return rng.sample(pool, cnt) if cnt <= len(pool) else [rng.choice(pool) for _ in range(cnt)]
        a = rng.randint(1, L - 1) if L > 1 else 1
        b = max(L - a, 0)
        if flavour == "str+num":
            v = some(M_STRS, a) + some(M_SMALL, b)
        elif flavour == "str":
            v = some(M_STRS, L)
        elif flavour in ("bigint+float", "bigint"):
            base = rng.choice(M_BASES)
            ints = [base + dlt for dlt in some([0, 1, 2, 3, 5], a if flavour == "bigint+float" else L)]
            v = ints + (some(M_FLOATS, b) if flavour == "bigint+float" else [])
            if flavour == "bigint" and rng.random() < 0.3 and L > 1:
                v[-1] = rng.choice([-1, 0, 1, -(2 ** 53) - 1])
        elif flavour == "int+float":
            v = some([0, 1, 2, 3, -1, 7, 10, 2 ** 31, 2 ** 53 - 1], a) + some(M_FLOATS, b)
        elif flavour == "bool+num":
            v = some([True, False], min(a, 2)) + some([0.5, 2, 3, -1, 2.5, 7], L - min(a, 2))
        elif flavour == "none+num":
            v = [None] + some(M_SMALL, L - 1)
        elif flavour == "fraction+num":
            v = some(M_FRACS, a) + some(M_SMALL[:13], b)
        elif flavour == "decimal+int":
            v = some(M_DECS, a) + some([0, 1, 2, 3, -1, 7, 2 ** 53 + 2], b)
        elif flavour == "np_scalars":
            v = some(M_NP, a) + some(M_SMALL[:13], b)
        elif flavour == "np_numbers":
            v = some(M_NP_NUM, a) + some(M_FLOATS, b)
        elif flavour == "tuple":
            v = some(M_TUPLES, L)
        else:
            v = some(M_FLOATS, L)
        v = v[:L]
        if rng.random() < 0.9:
            v = distinct(v)
            while len(v) < L:                                  # top up with fresh plain numbers
                v = distinct(v + [rng.choice([11, 12, 13, 14, 15, 16.5, 17.5, 18.5])])
        rng.shuffle(v)
        return v

    M_ANY = ["str+num", "str", "bigint+float", "bigint", "int+float", "bool+num", "none+num", "fraction+num", "decimal+int",
             "np_scalars", "np_numbers", "tuple", "float"]
    M_NUM = ["bigint+float", "bigint", "int+float", "bool+num", "fraction+num", "np_numbers", "float"]   # closed under (l + u) / 2, ordered

    def numeric_bounds(flavour):
        """two distinct numbers of the given kind whose binary64 mid level (l + u) / 2 does not fall outside [l, u]: two integers
        beyond 2**53 that are closer than one ulp (10**17 + 1, 10**17 + 2: mid 1e17) have no representable mid level at all, and
        list.sort() in build_box_behnken then takes the rounded mid for the low level - a rounding effect of the mid level, outside
        the float assumption of this check and nothing to do with which level OBJECTS are returned; counted, not used"""
        while True:
            lo, hi = mixed_factor(flavour, 2)
            if lkey(lo) == lkey(hi):
                continue
            md = (lo + hi) / 2
            if min(lo, hi) <= md <= max(lo, hi):
                return (lo, hi)
            mixed["bounds not used: the binary64 mid level of two large integers lies outside the bounds"] += 1

    # the cases the idea is usually met in, first (a switch-like factor; two neighbouring large integers next to a float)
    for api in ("build_full_fact", "FullFactorLevelsGenerator"):
        do_mixed_levels(api, [["off", 1, 2], [0.5, 1.5]], ["str+num", "float"])
        do_mixed_levels(api, [[2 ** 53, 2 ** 53 + 1, 0.5], [0, 1]], ["bigint+float", "int+float"])
        do_mixed_levels(api, [[1, 2, 3], [0.5, 1.5], ["a", "b"]], ["int+float", "float", "str"])
        do_mixed_levels(api, [[0, 0.5, 1], [True, 2.5]], ["int+float", "bool+num"], inner="tuple")
    do_mixed_levels("GSDGenerator", [["off", 1, 2], [2 ** 53 + 1, 2 ** 53 + 2, 0.5]], ["str+num", "bigint+float"])
    do_mixed_bounds("PlackettBurmanGenerator", [(0.5, 2 ** 53 + 1), (0, 3), (1.5, 2.5)], ["bigint+float", "int+float", "float"])
    do_mixed_bounds("build_plackett_burman", [("off", 1), (2 ** 53 + 1, 0.5), ("lo", "hi")], ["str+num", "bigint+float", "str"])
    do_mixed_bounds("FullFactorGenerator", [(0.5, 2 ** 53 + 1), (0, 3)], ["bigint+float", "int+float"], center=False)
    do_mixed_bounds("FullFactorGenerator", [(0.5, 2 ** 53 + 1), (0, 3)], ["bigint+float", "int+float"], center=True)
    do_mixed_bounds("BoxBehnkenGenerator", [(0.5, 2 ** 53 + 1), (0, 3), (2 ** 54 + 2, 1.5)], ["bigint+float", "int+float", "bigint+float"])
    do_mixed_bounds("build_box_behnken", [(0.5, 2 ** 53 + 1), (0, 3), (1.5, 2 ** 54 + 2)], ["bigint+float", "int+float", "bigint+float"], inner="tuple")
    # every kind once per entry point (so that each run of the check covers all of them), next to a plain factor
    for fv in M_ANY:
        for api in ("build_full_fact", "FullFactorLevelsGenerator", "GSDGenerator"):
            L = rng.choice([2, 3, 3, 4])
            lv = [mixed_factor(fv, L), mixed_factor(rng.choice(["float", "int+float"]), rng.choice([2, 3]))]
            fvs = [fv, "plain"]
            if rng.random() < 0.5:
                lv.reverse()
                fvs.reverse()
            do_mixed_levels(api, lv, fvs, outer=rng.choice(["list", "tuple"]), inner=rng.choice(["list", "list", "tuple"]),
                            reduction=2)
        pair = tuple(distinct(mixed_factor(fv, 2))[:2])
        if len(pair) == 2:
            others = [tuple(mixed_factor("float", 2)) for _ in range(rng.choice([1, 2, 4]))]
            for api in ("PlackettBurmanGenerator", "build_plackett_burman", "FullFactorGenerator"):
                do_mixed_bounds(api, [pair] + others, [fv] + ["float"] * len(others))
    for fv in M_NUM:
        bnds = [numeric_bounds(fv), numeric_bounds(rng.choice(M_NUM)), numeric_bounds("float")]
        rng.shuffle(bnds)
        do_mixed_bounds("FullFactorGenerator", bnds[:2], [fv, "numbers"], center=True)
        do_mixed_bounds("BoxBehnkenGenerator", bnds, [fv, "numbers", "float"])
        do_mixed_bounds("build_box_behnken", bnds, [fv, "numbers", "float"], inner=rng.choice(["list", "tuple"]))
    # generated: 1..4 factors, every factor of its own kind
    for s in range(ctx.pick(40, 400)):
        api = rng.choice(["build_full_fact", "FullFactorLevelsGenerator", "FullFactorLevelsGenerator", "GSDGenerator"])
        k = rng.choice([1, 2, 2, 3, 3, 4]) if api != "GSDGenerator" else rng.choice([2, 2, 3, 3])
        fvs = [rng.choice(M_ANY) for _ in range(k)]
        Ls = [rng.choice([1, 2, 2, 3, 3, 4] if api != "GSDGenerator" else [2, 2, 3, 3, 4]) for _ in range(k)]
        do_mixed_levels(api, [mixed_factor(fv, L) for fv, L in zip(fvs, Ls)], fvs, outer=rng.choice(["list", "tuple"]),
                        inner=rng.choice(["list", "list", "tuple"]), reduction=rng.choice([2, 2, 3]))
    for s in range(ctx.pick(30, 300)):
        api = rng.choice(["PlackettBurmanGenerator", "build_plackett_burman", "FullFactorGenerator", "FullFactorGenerator",
                          "BoxBehnkenGenerator", "build_box_behnken"])
        if api in ("PlackettBurmanGenerator", "build_plackett_burman"):
            n = rng.choice([1, 2, 3, 3, 4, 5, 7, 8, 11, 12])
        elif api == "FullFactorGenerator":
            n = rng.choice([1, 2, 2, 3, 4])
        else:
            n = rng.choice([3, 3, 4, 5])
        center = api == "FullFactorGenerator" and rng.random() < 0.5
        if center or api in ("BoxBehnkenGenerator", "build_box_behnken"):
            fvs = [rng.choice(M_NUM) for _ in range(n)]
            bnds = [numeric_bounds(fv) for fv in fvs]
        else:
            fvs = [rng.choice(M_ANY) for _ in range(n)]
            bnds = [tuple(mixed_factor(fv, 2)) for fv in fvs]
        do_mixed_bounds(api, bnds, fvs, center=center, inner=rng.choice(["list", "tuple"]) if api == "build_box_behnken" else "list")

    bad = ctx.coq_compare("c13", HEADER, "c13_case", "c13_obs", "c13_run", "c13_obs_eqb", cases, expected, meta, shard=ctx.pick(24, 60))
    n_assert = sum(1 for x in expected if x.startswith("OErr 1"))
    ctx.extra["comparisons_in_which_the_code_raised_AssertionError"] = n_assert
    if not OPT:
        ctx.notes.append("%d comparisons of this pass are inputs the code rejects with an `assert` (the model answers Err EAssert, compared "
                         "here); in the second pass under python -O, where assert statements do not exist, the comparisons whose model "
                         "answer is Err EAssert are skipped and counted, with the direct-oracle entries of the same case" % n_assert)
    elif bad:
        show = sorted(set(bad))[:800]
        try:
            vals = ctx.coq_eval("c13_opt", HEADER, ["c13_run (%s)" % cases[i] for i in show], timeout=600)
        except RuntimeError as ex:               # fail closed: every mismatch stays
            vals = []
            ctx.notes.append("python -O: the model answers of the mismatching cases could not be evaluated (%r); nothing skipped" % (ex,))
        vals = [v.replace("%nat", "").strip() for v in vals]
        # build_gsd validates its arguments by `try: assert ... except AssertionError: raise ValueError` (reduction > 1, n > 0):
        # assert statements as well, whose rejection reaches the caller (and the model) as a ValueError
        rejected = set(i for i, v in zip(show, vals)
                       if v == "OErr 1" or (v == "OErr 2" and meta[i].get("function") == "build_gsd"
                                            and (meta[i].get("reduction", 2) < 2 or meta[i].get("n", 1) < 1)))
        drop = set(id(f) for i in rejected for f, kd in owner.get(i, []) if kd != "purity")
        n_m, n_f = len(ctx.mismatches), len(ctx.oracle_failures)
        ctx.mismatches[:] = [m for m in ctx.mismatches if not (m.get("correspondence") == "c13" and m.get("case_index") in rejected)]
        ctx.oracle_failures[:] = [f for f in ctx.oracle_failures if id(f) not in drop]
        ctx.extra["python_O_skipped"] = {"comparisons_whose_model_answer_is_the_assert_rejection": n_m - len(ctx.mismatches),
                                         "direct_oracle_entries_of_those_cases": n_f - len(ctx.oracle_failures)}
        ctx.notes.append("python -O: %d comparisons whose model answer is Err EAssert (an input only an assert rejects) and %d direct-oracle "
                         "entries of those cases skipped" % (n_m - len(ctx.mismatches), n_f - len(ctx.oracle_failures)))
    ctx.rule = ("generator runs for factor counts 0..8 (Plackett-Burman 0..27 plus a few sizes up to 47, Box-Behnken up to %d), bounds and level "
                "lists over a value grid with reversed / coincident bounds and repeated level values, reductions 0..8 and 0..r+3 complementary "
                "designs; plus HISTORIES on one shared parameter list / one Problem (every ordered pair of the six generator configurations, "
                "random sequences of 2..5 runs with generator objects reused or new, user edits of bounds / level lists and overwriting of "
                "returned vectors in between; one long-lived generator object per class whose configuration changes between two runs in "
                "every way a caller can change it: bounds by item assignment / list rebinding / dict replacement / a new same-length "
                "gen.parameters, with and without init() before the next run; level tables by editing the SAME table object in place - "
                "level appended, inserted, dropped, overwritten, levels replaced by slice or by a new inner list, tables swapped - and "
                "init() with it again) and on one dict / list handed repeatedly to the doe.py functions (edited in place between calls); "
                "direct calls of build_plackett_burman with factors of 2..5 levels (ascending, descending, no order; the model is evaluated on "
                "first level and end point), of build_box_behnken with two- and three-level containers, and of build_full_fact / "
                "FullFactorLevelsGenerator / GSDGenerator / fullfact / build_gsd with level containers and level-count containers of every "
                "representation the unchanged code accepts (list, tuple, float64 / float32 / integer arrays, linspace, arange, range, lists "
                "of numpy scalars); level lists and bounds whose entries are OBJECTS of mixed kinds (strings next to numbers, Python "
                "ints beyond 2**53 / 2**63 / 2**64 next to floats and to each other, bools, None, Fractions, Decimals, numpy scalars, "
                "tuples as levels) through build_full_fact, FullFactorLevelsGenerator, GSDGenerator, FullFactorGenerator, "
                "PlackettBurmanGenerator / build_plackett_burman and (numbers only) BoxBehnkenGenerator / build_box_behnken, the returned "
                "cells compared with the GIVEN level objects (==, str against number by type) and, as level indices, with the model: "
                "every run of a history is compared with the model on the bounds / levels the user's structures hold at the time of the "
                "call (the harness's own record, which follows the user's edits and never reaches artap), and the shared structures must be bit-identical before and after every run; a case is non-trivial when the implementation returned a design (rejected sizes are compared too but not "
                "counted); distinct = distinct (generator, parameters) resp. (history so far, parameters)") % ctx.pick(8, 12)
    ordered_pairs = sorted("%s -> %s" % ab for ab in adjacent)
    ctx.extra.update({"case_kinds": dict(kinds), "exceptions_compared": dict(errors), "sizes": dict(sorted(sizes.items())),
                      "rows_compared": sum(m.get("rows", 0) for m in meta),
                      "comparisons_sent_to_coq": len(cases),
                      "histories": dict(sorted(hstat.items())),
                      "ordered_pairs_of_generator_configurations_seen_adjacent": "%d of 36" % len(adjacent),
                      "ordered_pairs_missing": sorted("%s -> %s" % (a, b) for a in CONFIGS for b in CONFIGS if (a, b) not in adjacent),
                      "doe_argument_effects_observed": dict(sorted(effects.items())),
                      "input_shapes_of_direct_doe_calls": dict(sorted(shapes.items())),
                      "levels_and_bounds_of_mixed_kinds": dict(sorted(mixed.items()))})


LEVEL_TEXT = ("Machine-checked Coq theorems over an executable model of fullfact/construct_df, pbdesign, bbdesign and build_gsd with its "
              "helpers: the full factorial is duplicate-free and is exactly the Cartesian product for every factor count >= 1 and all level "
              "counts (induction); the Plackett-Burman construction (seed matrices, Kronecker doubling, column selection, flip) yields for "
              "every size 1..23 the stated run count, +/-1 entries, balanced and pairwise orthogonal columns (kernel computation over the "
              "whole family) and rejects 0 and 24..27; the Box-Behnken design for every n >= 3 is duplicate-free and consists exactly of the +/- "
              "corners of every factor pair with the other factors at mid level plus one centre run; for every reduction r >= 2 and every "
              "list of level counts >= 2 (induction over the column-augmentation loop, no size bound) the complementary generalized subset "
              "designs are duplicate-free, pairwise disjoint subsets of the full factorial and the r of them cover it, whenever build_gsd "
              "does not raise (it provably does not for >= 2 factors with r <= every level count). The model is tied to the Generator "
              "classes and doe.build_gsd on every run by comparing complete row lists, in order, for generated parameter sets - single runs "
              "on fresh parameters and histories of runs on one shared parameter list / one Problem, each run compared with the model on "
              "the bounds and levels the user's structures hold at the time of the call (the harness's own record, which follows the user's edits between runs), with a purity oracle on the shared structures.")
LEVEL_NOTE = ("Full (no partial theorem). Trusted: Coq kernel + vm_compute; the hand-written model and the Python harness. Correspondence is "
              "sampled (corpus + generated cases); the theorems are unbounded except pb_structure, whose bound 1..23 is the property's own. "
              "The model's designs are functions of immutable inputs (lists of level values), so in the model a run cannot influence a later "
              "run, nor change the problem, by construction; that the code behaves like that - generate() leaves the parameter dicts, bounds "
              "lists and level lists bit-identical, and every run of a sequence on one parameter list equals the model on the "
              "bounds and levels current at the time of the call (the user's, followed through his own edits) - is not a theorem but is checked on every run of the check by the history correspondence and the purity oracle "
              "(sampled: all ordered pairs of generator configurations, directed rerun / edit_in_place sessions on one long-lived generator object, three eight-run sessions on a real Problem, plus random sequences of 2..5 runs). doe.build_box_behnken and "
              "doe.build_plackett_burman do rewrite caller-supplied lists in place (two-element resp. non-two-element lists); the Generator "
              "classes shield the problem by passing fresh lists, which is what the purity oracle asserts.")
