"""C01 - dominance comparators: correspondence with Model/Dominance.v and direct oracle."""
import itertools
import math

from harness.core import fl, zl, ll, pl, optl

PROP = "C01"
THEOREMS = {"Artap.Props.C01": [
    "C01_marker_precedence", "C01_pareto_spec", "C01_range", "C01_irreflexive", "C01_antisymmetric",
    "C01_transitive", "C01_eps_agrees", "C01_eps_names_loser", "C01_eps_identical_rejects",
    "C01_float_order", "C01_float_transitive"]}
from harness.core import FLOAT_AXIOMS, translated_specs
AXIOMS_OK = FLOAT_AXIOMS
# second tie to the code: the comparators' source is translated to Gallina on every run (tools/py2coq.py)
# and the committed proofs GenProofs/DominanceEquiv.v, GenProofs/EpsDominanceEquiv.v show the result equal to Model/Dominance.v
TRANSLATED = translated_specs("DominanceGen", "EpsDominanceGen")
TRUSTED = [
    "Coq 8.16.1 kernel, vm_compute for model evaluation (no native_compute)",
    "FloatAxioms.ltb_spec / eqb_spec and the primitive float operations (standard library) for the float order instance",
    "hand-written model Model/Dominance.v tied to operators.py by this correspondence run",
    "math.pow results of the epsilon tie-break are an oracle tape (arguments checked bit for bit by the model)",
    "feasibility markers modelled as integers (bool/int as produced by artap); float-valued markers not modelled",
]
ASSUMPTIONS = ["cost values are non-NaN binary64 floats; Python `<` on them equals PrimFloat.ltb (IEEE-754)"]

HEADER = "From Artap Require Import Run.C01Run.\nFrom Coq Require Import List ZArith Floats.\nImport ListNotations.\nOpen Scope float_scope.\n"

GRID = [0.0, 1.0, 2.0, 3.0, 0.5, 1.5, -1.0, -2.5, 1e-9, 1.0 + 2 ** -52, 1.0 - 2 ** -53, 1e300, -1e300, 5e-324, -0.0,
        0.1, 0.2, 0.30000000000000004, 0.3, 7.25, -7.25]
SMALL = [0.0, 1.0, 2.0, 3.0]
MARKERS = [False, True, 0, 1, 2, -1, -2]
EPS_CHOICES = [[0.1], [0.5], [1.0], [1e-3], [2.0, 0.25], [3], [0.1, 0.1], [0.05, 10.0, 1.0], [0], [1e-9], [1e6]]


def swap(v):
    return {1: 2, 2: 1}.get(v, 0)


def textbook(p, pm, q, qm):
    """The property's definition, written independently of the code."""
    if abs(pm) < abs(qm):
        return 1
    if abs(qm) < abs(pm):
        return 2
    n = min(len(p), len(q))
    p_le = all(p[i] <= q[i] for i in range(n))
    q_le = all(q[i] <= p[i] for i in range(n))
    p_lt = any(p[i] < q[i] for i in range(n))
    q_lt = any(q[i] < p[i] for i in range(n))
    if p_le and p_lt:
        return 1
    if q_le and q_lt:
        return 2
    return 0


class PowTape:
    """Stands in for the `math` module inside artap.operators and records pow calls."""

    def __init__(self):
        self.tape = []

    def __getattr__(self, name):
        return getattr(math, name)

    def pow(self, x, y):
        r = math.pow(x, y)
        assert y == 2.0
        self.tape.append((x, r))
        return r


def gen_vec(rng, m, grid):
    return [rng.choice(grid) for _ in range(m)]


def gen_pair(rng):
    m = rng.choice([1, 1, 2, 2, 3, 3, 4, 6])
    grid = SMALL if rng.random() < 0.6 else GRID
    p = gen_vec(rng, m, grid)
    r = rng.random()
    if r < 0.15:
        q = list(p)
    elif r < 0.5:          # perturb a few coordinates
        q = list(p)
        for _ in range(rng.choice([1, 1, 2])):
            q[rng.randrange(m)] = rng.choice(grid)
    elif r < 0.6:          # adjacent floats
        q = [math.nextafter(x, rng.choice([-math.inf, math.inf])) if rng.random() < 0.5 else x for x in p]
    else:
        q = gen_vec(rng, m, grid)
    if rng.random() < 0.05 and m > 1:   # unequal lengths: zip truncation
        q = q[:-1]
    pm = rng.choice(MARKERS)
    qm = pm if rng.random() < 0.6 else rng.choice(MARKERS)
    return p, pm, q, qm


def run(ctx):
    import artap.operators as ops
    rng = ctx.rng
    n_pairs = ctx.pick(3000, 120000)
    n_triples = ctx.pick(1000, 30000)
    pareto = ops.ParetoDominance()
    shim = PowTape()
    real_math = ops.math
    cases, expected, meta = [], [], []
    hist = {0: 0, 1: 0, 2: 0}
    kinds = {"pareto": 0, "eps": 0, "tie_break": 0, "marker_decides": 0, "identical": 0, "unequal_len": 0,
             "same_list_object_as_both_arguments": 0}

    def impl(eps, p, pm, q, qm, same=False):
        shim.tape = []
        ops.math = shim
        try:
            a = list(p) + [pm]
            b = a if same else list(q) + [qm]     # same: ONE list object offered as both arguments (red-team round 5)
            if eps is None:
                v = pareto.compare(a, b)
            else:
                v = ops.EpsilonDominance(eps if len(eps) != 1 or ctx.rng.random() < 0.5 else eps[0]).compare(a, b)
        finally:
            ops.math = real_math
        return v, list(shim.tape)

    # history mode: the model is a function of the two cost vectors, so the verdict of the implementation must not
    # depend on what a comparator object was asked before, nor on the identity of the list objects it is given
    # (archives and selectors keep ONE comparator and artap updates costs_signed lists in place).  Long-lived
    # comparators are fed re-used list objects overwritten in place; the verdict must equal the fresh call's.
    persist, bufs = {}, {}
    kinds_hist = {"history_calls": 0}

    def impl_history(eps, p, pm, q, qm, same=False):
        key = None if eps is None else tuple(eps)
        if key not in persist:
            persist[key] = pareto if eps is None else ops.EpsilonDominance(list(eps))
        bp = bufs.setdefault(("p", len(p)), [0.0] * (len(p) + 1))
        bq = bufs.setdefault(("q", len(q)), [0.0] * (len(q) + 1))
        bp[:] = list(p) + [pm]
        bq[:] = list(q) + [qm]
        ops.math = shim
        try:
            return persist[key].compare(bp, bp if same else bq)
        finally:
            ops.math = real_math

    def add_case(eps, p, pm, q, qm, same=False):
        """same=True: q, qm are p, pm and the implementation is given ONE list object as both arguments (an individual
        offered to an archive twice, a particle and its personal best held by reference, a copy sharing costs_signed);
        the model is evaluated on (p, p): a function of the values only."""
        assert not same or (q == p and qm is pm)
        try:
            v, tape = impl(eps, p, pm, q, qm, same)
        except ZeroDivisionError:
            if eps is not None and any(float(e) == 0 for e in eps):
                return None       # eps = 0 is outside the property (positive epsilons); the code divides by it in the tie-break
            raise
        vh = impl_history(eps, p, pm, q, qm, same)
        kinds_hist["history_calls"] += 1
        if vh != v:
            what = ("comparator verdict depends on call history / object identity: %d from a long-lived comparator given re-used "
                    "list objects updated in place, %d from a fresh comparator on fresh lists" % (vh, v))
            ctx.oracle_failures.append({"what": what, "input": {"eps": eps, "p": p + [pm], "q": q + [qm]},
                                        "match": {"kind": "history_dependence", "p": p + [pm], "q": q + [qm], "eps": eps}})
            ctx.mismatches.append({"what": "implementation is not a function of the two vectors (the model is): " + what,
                                   "correspondence": "c01-history", "case": {"eps": eps, "p": p + [pm], "q": q + [qm]}})
        cases.append("{| c1_eps := %s; c1_p := %s; c1_pm := %s; c1_q := %s; c1_qm := %s; c1_tape := %s |}" % (
            optl(eps, lambda e: ll(e, fl)), ll(p, fl), zl(pm), ll(q, fl), zl(qm),
            ll(tape, lambda t: pl(fl(t[0]), fl(t[1])))))
        expected.append("%d%%nat" % v)
        m = {"comparator": "pareto" if eps is None else "epsilon", "eps": eps, "p": p, "pm": pm, "q": q, "qm": qm,
             "pow_tape": tape, "verdict": v}
        if same:
            m["same_list_object_as_both_arguments"] = True
            kinds["same_list_object_as_both_arguments"] += 1
        meta.append(m)
        hist[v] = hist.get(v, 0) + 1
        kinds["pareto" if eps is None else "eps"] += 1
        if tape:
            kinds["tie_break"] += 1
        if abs(pm) != abs(qm):
            kinds["marker_decides"] += 1
        if p == q:
            kinds["identical"] += 1
        if len(p) != len(q):
            kinds["unequal_len"] += 1
        ctx.count((eps is None, tuple(p), pm, tuple(q), qm, tuple(eps or ()), same), nontrivial=(p != q or pm != qm))
        if len(ctx.samples) < 4 and (len(p) > 1):
            ctx.sample(m)
        return v

    def oracle_pair(eps, p, pm, q, qm, v, same=False):
        if len(p) != len(q):
            return
        note = {"same_list_object_as_both_arguments": True} if same else {}
        if eps is None:
            want = textbook(p, pm, q, qm)
            if v != want:
                ctx.oracle_failures.append({"what": "Pareto comparator verdict %d, textbook definition %d" % (v, want),
                                            "input": dict(note, p=p + [pm], q=q + [qm]), "match": {"kind": "pareto_pair", "p": p + [pm], "q": q + [qm]}})
        else:
            ef = [float(e) if float(e) != 0 else 1e-3 for e in eps]
            sep = all(((p[i] < q[i]) == (p[i] / ef[i % len(ef)] < q[i] / ef[i % len(ef)])) and
                      ((q[i] < p[i]) == (q[i] / ef[i % len(ef)] < p[i] / ef[i % len(ef)])) for i in range(len(p)))
            identical = all(p[i] == q[i] for i in range(len(p))) and abs(pm) == abs(qm)
            if identical:
                if v not in (1, 2):
                    ctx.oracle_failures.append({"what": "epsilon comparator names no loser for identical vectors (verdict %d)" % v,
                                                "input": dict(note, eps=eps, p=p + [pm], q=q + [qm]),
                                                "match": {"kind": "eps_identical", "p": p + [pm], "eps": eps}})
            elif sep:
                want = textbook(p, pm, q, qm)
                if v != want:
                    ctx.oracle_failures.append({"what": "epsilon comparator verdict %d differs from Pareto verdict %d on vectors that differ by more than rounding" % (v, want),
                                                "input": {"eps": eps, "p": p + [pm], "q": q + [qm]},
                                                "match": {"kind": "eps_pair", "p": p + [pm], "q": q + [qm], "eps": eps}})

    # corpus: boundary cases read off the code
    corpus = [
        (None, [1.0, 2.0], 1, [1.0, 2.0], 1), (None, [1.0], 0, [2.0], 1), (None, [5.0], 1, [2.0], 0),
        (None, [1.0], -1, [2.0], 1), (None, [2.0], -1, [1.0], 1), (None, [1.0], 2, [0.0], 1), (None, [1.0], 1, [0.0], -2),
        (None, [1.0, 2.0], True, [2.0, 1.0], True), (None, [1.0, 1.0, 2.0], False, [1.0, 1.0, 3.0], False),
        (None, [0.0], True, [-0.0], True), (None, [1.0, 3.0, 2.0], True, [2.0, 1.0, 2.0], True),
        ([0.1], [1.0, 2.0], True, [1.0, 2.0], True), ([0.1, 0.1], [0.3], True, [0.30000000000000004], True),
        ([1e6], [1.0], True, [2.0], True), ([0.5], [1.0, 2.0], 0, [2.0, 1.0], 0),
        ([3], [1.0, 5.0], True, [1.0, 6.0], True), ([0.1], [1.0], True, [1.0], 2),
    ]
    def self_pair(eps, p, pm):
        """compare(v, v) with ONE list object: Pareto must answer 0, the epsilon comparator must still name a loser (2)"""
        vs = add_case(eps, p, pm, p, pm, same=True)
        if vs is None:
            return
        oracle_pair(eps, p, pm, p, pm, vs, same=True)
        if eps is None and vs != 0:
            ctx.oracle_failures.append({"what": "irreflexivity fails: compare(v, v)=%d for one list object v" % vs,
                                        "input": {"p": p + [pm], "same_list_object_as_both_arguments": True},
                                        "match": {"kind": "irrefl", "p": p + [pm]}})
        if eps is not None and vs != 2:
            ctx.oracle_failures.append({"what": "epsilon comparator does not reject a duplicate: compare(v, v)=%d for one list object v "
                                                "(an individual offered to an archive again)" % vs,
                                        "input": {"eps": eps, "p": p + [pm], "same_list_object_as_both_arguments": True},
                                        "match": {"kind": "eps_dup", "p": p + [pm], "eps": eps}})

    for c in corpus:
        v = add_case(*c)
        if v is not None:
            oracle_pair(c[0], c[1], c[2], c[3], c[4], v)
        self_pair(c[0], c[1], c[2])
        self_pair(c[0], c[3], c[4])

    for _ in range(n_pairs):
        p, pm, q, qm = gen_pair(rng)
        eps = None if rng.random() < 0.5 else rng.choice(EPS_CHOICES)
        v = add_case(eps, p, pm, q, qm)
        if v is None:
            continue
        oracle_pair(eps, p, pm, q, qm, v)
        if rng.random() < 0.3:   # the reversed pair and the reflexive pair: antisymmetry / irreflexivity on the implementation
            v2 = add_case(eps, q, qm, p, pm)
            vr = add_case(eps, p, pm, p, pm)
            self_pair(eps, p, pm)                 # and the very same list object as both arguments
            if rng.random() < 0.5:
                self_pair(eps, q, qm)
            if eps is None:
                if v2 != swap(v):
                    ctx.oracle_failures.append({"what": "antisymmetry fails: compare(p,q)=%d compare(q,p)=%d" % (v, v2),
                                                "input": {"p": p + [pm], "q": q + [qm]}, "match": {"kind": "antisym", "p": p + [pm], "q": q + [qm]}})
                if vr != 0:
                    ctx.oracle_failures.append({"what": "irreflexivity fails: compare(p,p)=%d" % vr,
                                                "input": {"p": p + [pm]}, "match": {"kind": "irrefl", "p": p + [pm]}})
            else:
                if vr != 2 and vr is not None:
                    ctx.oracle_failures.append({"what": "epsilon comparator does not reject a duplicate: compare(p,p)=%d" % vr,
                                                "input": {"eps": eps, "p": p + [pm]}, "match": {"kind": "eps_dup", "p": p + [pm], "eps": eps}})

    # triples: transitivity on the implementation
    trans_checked = 0
    for _ in range(n_triples):
        m = rng.choice([1, 2, 2, 3, 3, 4])
        grid = SMALL if rng.random() < 0.8 else GRID
        a = gen_vec(rng, m, grid)
        b = [x if rng.random() < 0.5 else rng.choice(grid) for x in a]
        c = [x if rng.random() < 0.5 else rng.choice(grid) for x in b]
        ms = [rng.choice([True, True, False, 2, -1]) for _ in range(3)]
        vab = add_case(None, a, ms[0], b, ms[1])
        vbc = add_case(None, b, ms[1], c, ms[2])
        vac = add_case(None, a, ms[0], c, ms[2])
        if vab == 1 and vbc == 1:
            trans_checked += 1
            if vac != 1:
                ctx.oracle_failures.append({"what": "transitivity fails: a>b, b>c but compare(a,c)=%d" % vac,
                                            "input": {"a": a + [ms[0]], "b": b + [ms[1]], "c": c + [ms[2]]},
                                            "match": {"kind": "trans", "a": a + [ms[0]], "b": b + [ms[1]], "c": c + [ms[2]]}})

    ctx.coq_compare("c01", HEADER, "c01_case", "nat", "c01_run", "Nat.eqb", cases, expected, meta, shard=500)
    ctx.rule = ("pairs/triples over value grids with ties, adjacent floats, huge/tiny magnitudes, markers from %r, epsilon lists %r; "
                "reflexive pairs both as two equal lists and as ONE list object passed as both arguments (fresh and long-lived comparator); "
                "a case is non-trivial when the two arguments are not the same vector+marker; distinct = distinct (comparator, p, q, markers, eps)") % (MARKERS, EPS_CHOICES)
    ctx.extra.update({"verdict_histogram": hist, "case_kinds": kinds, "transitivity_premises_met": trans_checked,
                      "history_mode_calls": kinds_hist["history_calls"]})

LEVEL_TEXT = ("Machine-checked Coq theorems over a model of both comparators, for every vector length, every value of any "
              "strictly-weakly-ordered cost type (instantiated at binary64 with the order proved from the IEEE spec) and every "
              "integer marker: marker precedence, the textbook iff-characterisation of verdicts 0/1/2, irreflexivity, antisymmetry, "
              "transitivity, agreement of the epsilon comparator on separated vectors, and loser-naming on identical vectors. "
              "The model is tied to operators.py on every run by evaluating it in Coq on thousands of generated pairs/triples and "
              "comparing verdicts exactly.")
LEVEL_NOTE = ("Trusted: Coq kernel + vm_compute; FloatAxioms.ltb_spec/eqb_spec; the hand-written model and the Python harness; "
              "math.pow results are an oracle tape; the translator tools/py2coq.py (second tie: the source of both compare methods is "
              "translated on every run and proved equal to the model for all inputs). Correspondence is sampled (generated + corpus cases, "
              "each also run on a long-lived comparator with re-used list objects updated in place), the theorems are unbounded; the "
              "epsilon/Pareto agreement theorem has the separation of the scaled coordinates as a hypothesis.")
