#!/bin/bash
# Builds the Coq development from files on disk only (offline).  Full .vo build, no -vos.
# `make -k`: a file that does not compile does not stop the files of other properties from
# being built; the exit status is non-zero iff a file needed by a check registered in
# MANIFEST.json failed to build (each ./check re-runs the incremental make for its own targets
# and reports a build failure of its own files as a proof failure).
cd "$(dirname "$0")"
export PYTHONPATH="$(pwd)"
/venv/bin/python - <<'PY'
import importlib, json, os, sys
from harness import core
rc, log = core.build(keep_going=True)
print(log[-3000:])
man = json.load(open(os.path.join(core.VERIF, "MANIFEST.json")))
missing = []
for c in man["checks"]:
    mod = importlib.import_module("harness." + c["property_id"].lower())
    for t in core.targets_of(mod):
        if not os.path.exists(os.path.join(core.COQ, t)):
            missing.append(t)
if missing:
    print("setup: targets of registered checks that did not build:", missing)
    sys.exit(1)
if rc != 0:
    print("setup: note: some files outside the registered checks did not build (see log above)")
sys.exit(0)
PY
