#!/bin/bash
# Builds the Coq development from files on disk only (offline).  Full .vo build, no -vos.
set -e
cd "$(dirname "$0")"
export PYTHONPATH="$(pwd)"
/venv/bin/python - <<'PY'
import sys
from harness import core
rc, log = core.build()
print(log[-3000:])
sys.exit(rc)
PY
