(* Selector.individual and Selector.fast_nondominated_sorting (artap/operators.py), translated WHOLE on this run
   by tools/py2coq_heap.py (object store: one function per written field; see notes/TRANSLATOR.md, phase 5), equal
   the hand-written model Model/Fnds.v for all inputs.  An individual is its POSITION in the population
   (individuals = seq 0 n: position = identity, i.e. the members of the list are pairwise distinct objects);
   id and costs_signed are the accessors idf / costf read off the model's population. *)
From Coq Require Import List ZArith Bool Arith Lia.
From Artap Require Import Model.Fnds Proofs.HeapGenLemmas.
From ArtapGen Require Import GenTactics FndsGen.
Import ListNotations.

(* the generated prelude is convertible with its copy in Proofs/HeapGenLemmas.v *)
Ltac to_g :=
  change @h_next with @g_next in *; change @h_ret with @g_ret in *; change @h_exc with @g_exc in *;
  change @h_stuck with @g_stuck in *; change @h_bind with @g_bind in *; change @h_get with @g_get in *;
  change @h_call with @g_call in *; change @h_for with @g_for in *; change @h_upd with @g_upd in *;
  change @h_is_none with @g_is_none in *; change @h_zindex with @g_zindex in *; change @h_nth_z with @g_nth_z in *;
  change @h_modify_z with @g_modify_z in *; change @h_same_cell with @g_same_cell in *; change @h_pop with @g_pop in *;
  change @h_mapm with @g_mapm in *; change @h_sort_by with @g_sort_by in *.

Lemma nth_error_seq' a n j : j < n -> nth_error (seq a n) j = Some (a + j).
Proof. intros H. rewrite (nth_error_nth' _ 0) by (rewrite seq_length; exact H). rewrite seq_nth by exact H. reflexivity. Qed.

(* ---- Selector.individual: the linear search for the first member with the id ------------------------------- *)
Lemma individual_gen_find (f : nat -> nat) (refs : list nat) (id : nat) :
  individual_gen f refs id = g_ret (find (fun r => f r =? id) refs).
Proof.
  unfold individual_gen. to_g.
  change (g_for (individual_l1_body f id)) with
    (g_for (R := option nat) (fun (_ : unit) x => if (fun r => f r =? id) x then g_ret (Some x) else g_next tt)).
  rewrite g_for_find. destruct (find _ refs); reflexivity.
Qed.

Section FndsEquiv.
  Context {T E : Type} (cmp : list T -> list T -> nat) (pop : list (ind (list T))).
  Let n := length pop.
  Definition idf (r : nat) : nat := match nth_error pop r with Some x => iid x | None => 0 end.
  Definition costf (r : nat) : list T := match nth_error pop r with Some x => cost x | None => [] end.

  Lemma find_seq_find_from id : forall (l : list (ind (list T))) k,
    (forall j x, nth_error l j = Some x -> nth_error pop (k + j) = Some x) ->
    find (fun r => idf r =? id) (seq k (length l)) = find_from l k id.
  Proof.
    induction l as [|x l IH]; intros k H; cbn; [reflexivity|].
    unfold idf at 1. rewrite <- (Nat.add_0_r k) at 1. rewrite (H 0 x eq_refl).
    destruct (iid x =? id); [reflexivity|]. apply IH. intros j y Hy.
    replace (S k + j) with (k + S j) by lia. apply H. exact Hy.
  Qed.

  Theorem individual_gen_eq_model : forall id,
    individual_gen idf (seq 0 (length pop)) id = h_ret (find_pos pop id).
  Proof.
    intros id. rewrite individual_gen_find. unfold find_pos.
    rewrite (find_seq_find_from id pop 0); [reflexivity|]. intros j x H. exact H.
  Qed.

  Lemma find_from_bounds id : forall (l : list (ind (list T))) k q, find_from l k id = Some q -> k <= q < k + length l.
  Proof.
    induction l as [|x l IH]; intros k q H; cbn in H; [discriminate|].
    destruct (iid x =? id); [inversion H; subst; cbn; lia|]. apply IH in H. cbn. lia.
  Qed.
  Lemma find_from_member : forall (l : list (ind (list T))) k x, In x l -> exists q, find_from l k (iid x) = Some q.
  Proof.
    induction l as [|y l IH]; intros k x H; [contradiction|]. cbn.
    destruct (Nat.eqb_spec (iid y) (iid x)) as [_|Hne]; [eexists; reflexivity|].
    destruct H as [->|H]; [congruence|]. apply IH. exact H.
  Qed.
  Lemma find_pos_lt id q : find_pos pop id = Some q -> q < n.
  Proof. intros H. apply find_from_bounds in H. unfold n. lia. Qed.

  (* ---- the store agrees with the model's tables on the positions of the population ------------------------- *)
  Definition agr {V : Type} (h f : nat -> V) : Prop := forall i, i < n -> h i = f i.
  Lemma agr_upd {V} (h f : nat -> V) r v : agr h f -> agr (g_upd h r v) (upd f r v).
  Proof. intros H i Hi. unfold g_upd, upd. destruct (i =? r); [reflexivity|apply H; exact Hi]. Qed.

  (* every id in a dominated-list is the id of a member: the lookup of phase 2 never fails *)
  Definition ids_ok (d : nat -> list nat) : Prop := forall p id, p < n -> In id (d p) -> exists q, find_pos pop id = Some q.
  Lemma ids_ok_upd d r x : ids_ok d -> In x pop -> ids_ok (upd d r (d r ++ [iid x])).
  Proof.
    intros H Hx p id Hp Hin. unfold upd in Hin. destruct (p =? r) eqn:Epr; [|eapply H; eassumption].
    apply Nat.eqb_eq in Epr. subst r. apply in_app_or in Hin. destruct Hin as [Hin|[<-|[]]]; [eapply H; eassumption|].
    apply find_from_member. exact Hx.
  Qed.

  (* ---- lines 1177-1180: the reset loop ------------------------------------------------------------------- *)
  Lemma reset_spec (hc : nat -> Z) (hf : nat -> option nat) (hd : nat -> list nat) :
    exists hc' hf' hd', g_for (fnds_l1_body (E := E)) (seq 0 n) (hc, hf, hd) = g_next (hc', hf', hd') /\
                        agr hc' (cnt st0) /\ agr hf' (frt st0) /\ agr hd' (dom st0).
  Proof.
    destruct (g_for_inv (fnds_l1_body (E := E))
                (fun pre (s : (nat -> Z) * (nat -> option nat) * (nat -> list nat)) =>
                   forall i, In i pre -> fst (fst s) i = 0%Z /\ snd (fst s) i = None /\ snd s i = [])
                (seq 0 n) (hc, hf, hd)) as [[[hc' hf'] hd'] [E1 P1]].
    - intros i [].
    - intros pre x post [[a b] c] _ Hp. eexists. split; [unfold fnds_l1_body; to_g; reflexivity|].
      intros i Hi. cbn [fst snd]. unfold g_upd. destruct (Nat.eqb_spec i x) as [->|Hne]; [auto|].
      apply in_app_or in Hi. destruct Hi as [Hi|[Hi|[]]]; [apply (Hp i Hi)|congruence].
    - exists hc', hf', hd'. split; [exact E1|].
      repeat split; intros i Hi; apply (P1 i); apply in_seq; lia.
  Qed.

  (* ---- lines 1183-1191: the body of the pair loop ------------------------------------------------------------ *)
  Lemma l3_spec i j (hd : nat -> list nat) (hc : nat -> Z) (s : st) : i < n -> j < n ->
    agr hd (dom s) -> agr hc (cnt s) -> ids_ok (dom s) ->
    exists hd' hc', fnds_l3_body (E := E) cmp idf costf (seq 0 n) i (hd, hc) j = g_next (hd', hc') /\
      agr hd' (dom (pair_step cmp pop i j s)) /\ agr hc' (cnt (pair_step cmp pop i j s)) /\
      frt (pair_step cmp pop i j s) = frt s /\ ids_ok (dom (pair_step cmp pop i j s)).
  Proof.
    intros Hi Hj Hd Hc Hok. unfold fnds_l3_body. to_g. cbv beta iota zeta.
    rewrite (nth_error_seq' 0 n j Hj). cbn [g_get Nat.add].
    unfold pair_step, idf, costf.
    destruct (nth_error pop i) as [p|] eqn:Ep; [|apply nth_error_None in Ep; fold n in Ep; lia].
    destruct (nth_error pop j) as [q|] eqn:Eq; [|apply nth_error_None in Eq; fold n in Eq; lia].
    assert (Inp : In p pop) by (eapply nth_error_In; eassumption).
    assert (Inq : In q pop) by (eapply nth_error_In; eassumption).
    destruct (cmp (cost p) (cost q)) as [|[|[|k]]]; cbn [Nat.eqb].
    - eexists _, _. repeat split; auto.
    - eexists _, _. split; [reflexivity|]. cbn [cnt dom frt]. rewrite (Hd i Hi), (Hc j Hj).
      repeat split; [apply agr_upd; exact Hd|apply agr_upd; exact Hc|apply ids_ok_upd; assumption].
    - eexists _, _. split; [reflexivity|]. cbn [cnt dom frt]. rewrite (Hd j Hj), (Hc i Hi).
      repeat split; [apply agr_upd; exact Hd|apply agr_upd; exact Hc|apply ids_ok_upd; assumption].
    - eexists _, _. repeat split; auto.
  Qed.

  (* ---- lines 1182-1196: one row, then the front-1 test --------------------------------------------------------- *)
  Definition rel1 (g : (nat -> list nat) * (nat -> Z) * (nat -> option nat) * list (list nat)) (sf : st * list nat) : Prop :=
    let '(hd, hc, hf, pf) := g in
    agr hd (dom (fst sf)) /\ agr hc (cnt (fst sf)) /\ agr hf (frt (fst sf)) /\ pf = [snd sf] /\
    Forall (fun q => q < n) (snd sf) /\ ids_ok (dom (fst sf)).

  Lemma l2_spec i g sf : i < n -> rel1 g sf ->
    exists g', fnds_l2_body (E := E) cmp idf costf (seq 0 n) 1 g (i, i) = g_next g' /\ rel1 g' (row cmp pop n i sf).
  Proof.
    intros Hi. destruct g as [[[hd hc] hf] pf]. destruct sf as [s fr]. intros (Hd & Hc & Hf & Hpf & Hfr & Hok).
    cbn [fst snd] in *. subst pf. unfold fnds_l2_body. to_g. cbv beta iota zeta.
    rewrite seq_length. replace (i + 1) with (S i) by lia.
    destruct (g_for_fold
                (fun (g : (nat -> list nat) * (nat -> Z)) (s' : st) =>
                   agr (fst g) (dom s') /\ agr (snd g) (cnt s') /\ frt s' = frt s /\ ids_ok (dom s'))
                (fnds_l3_body (E := E) cmp idf costf (seq 0 n) i) (fun s' j => pair_step cmp pop i j s')
                (seq (S i) (n - S i))) with (s := (hd, hc)) (m := s) as [[hd1 hc1] [E1 (Hd1 & Hc1 & Hf1 & Hok1)]].
    - intros [hd0 hc0] m j Hj (H1 & H2 & H3 & H4). cbn [fst snd] in *. apply in_seq in Hj.
      destruct (l3_spec i j hd0 hc0 m Hi ltac:(lia) H1 H2 H4) as (hd' & hc' & E' & A1 & A2 & A3 & A4).
      exists (hd', hc'). split; [exact E'|]. cbn [fst snd]. repeat split; try assumption. congruence.
    - cbn [fst snd]. auto.
    - rewrite E1, g_bind_next. cbv beta iota zeta. cbn [fst snd] in *. unfold row. cbn [fst snd].
      set (s1 := fold_left (fun s' j => pair_step cmp pop i j s') (seq (S i) (n - S i)) s) in *.
      rewrite (Hc1 i Hi). rewrite ?(Z.eqb_sym 0 (cnt s1 i)). destruct (cnt s1 i =? 0)%Z.
      + cbn. eexists. split; [reflexivity|]. cbn [fst snd cnt dom frt].
        repeat split; try assumption.
        * rewrite Hf1. apply agr_upd. exact Hf.
        * apply Forall_app. split; [exact Hfr|]. constructor; [exact Hi|constructor].
      + eexists. split; [reflexivity|]. unfold rel1. cbn [fst snd]. repeat split; try assumption.
        rewrite Hf1. exact Hf.
  Qed.

  Lemma phase1_spec hd hc hf : agr hd (dom st0) -> agr hc (cnt st0) -> agr hf (frt st0) ->
    exists g', g_for (fnds_l2_body (E := E) cmp idf costf (seq 0 n) 1) (combine (seq 0 n) (seq 0 n)) (hd, hc, hf, [[]]) = g_next g' /\
               rel1 g' (phase1 cmp pop).
  Proof.
    intros Hd Hc Hf. unfold phase1. fold n.
    rewrite <- (fold_left_combine_same (fun sf i => row cmp pop n i sf) (seq 0 n)).
    apply (g_for_fold rel1).
    - intros g m [i p] Hin Hr. apply in_combine_seq_same in Hin. destruct Hin as [<- Hi].
      apply (l2_spec i); [lia|exact Hr].
    - cbn. repeat split; try assumption; [constructor|]. intros p id _ [].
  Qed.

  (* ---- lines 1203-1208: one dominated id (lookup, decrement, test, number, append to the next front) ------------ *)
  Lemma l5_spec fnum (pre : list (list nat)) nxt hc hf (s : st) id q :
    fnum = S (length pre) -> agr hc (cnt s) -> agr hf (frt s) -> find_pos pop id = Some q -> Forall (fun r => r < n) nxt ->
    exists hc' hf',
      fnds_l5_body (E := E) idf (seq 0 n) fnum (hc, hf, pre ++ [nxt]) id =
        g_next (hc', hf', pre ++ [snd (dec_step pop fnum (s, nxt) id)]) /\
      agr hc' (cnt (fst (dec_step pop fnum (s, nxt) id))) /\ agr hf' (frt (fst (dec_step pop fnum (s, nxt) id))) /\
      dom (fst (dec_step pop fnum (s, nxt) id)) = dom s /\
      Forall (fun r => r < n) (snd (dec_step pop fnum (s, nxt) id)).
  Proof.
    intros Hfn Hc Hf Hq Hnx. assert (Hqn := find_pos_lt id q Hq).
    unfold fnds_l5_body. cbv beta iota zeta. unfold n. rewrite individual_gen_eq_model. fold n. to_g.
    rewrite g_call_ret, Hq, g_get_some. cbv beta iota zeta.
    unfold dec_step. rewrite Hq. cbn [fst snd].
    rewrite g_upd_same, (Hc q Hqn), (Hf q Hqn). change @g_is_none with @is_none.
    change (Z.of_nat fnum - 1)%Z with (Z.of_nat fnum - Z.of_nat 1)%Z.
    rewrite ?(g_modify_z_app _ pre nxt [] fnum 1) by lia. rewrite ?g_get_some.
    rewrite ?(Z.eqb_sym 0 (cnt s q - 1)).
    destruct (cnt s q - 1 =? 0)%Z; destruct (is_none (frt s q)); cbn [andb];
      (eexists _, _; split; [reflexivity|]; cbn [fst snd cnt dom frt];
       repeat split; first [apply agr_upd; assumption | assumption | idtac];
       try (apply Forall_app; split; [exact Hnx|]; constructor; [exact Hqn|constructor])).
  Qed.

  Definition rel2 (d0 : nat -> list nat) (pre : list (list nat))
             (g : (nat -> Z) * (nat -> option nat) * list (list nat)) (sf : st * list nat) : Prop :=
    let '(hc, hf, pf) := g in
    agr hc (cnt (fst sf)) /\ agr hf (frt (fst sf)) /\ dom (fst sf) = d0 /\ pf = pre ++ [snd sf] /\
    Forall (fun r => r < n) (snd sf).

  Lemma dec_loop_spec fnum pre d0 (ids : list nat) : fnum = S (length pre) ->
    (forall id, In id ids -> exists q, find_pos pop id = Some q) ->
    forall g sf, rel2 d0 pre g sf ->
    exists g', g_for (fnds_l5_body (E := E) idf (seq 0 n) fnum) ids g = g_next g' /\
               rel2 d0 pre g' (fold_left (dec_step pop fnum) ids sf).
  Proof.
    intros Hfn Hids. apply (g_for_fold (rel2 d0 pre)).
    intros [[hc hf] pf] [s nxt] id Hin (Hc & Hf & Hd & Hpf & Hnx). cbn [fst snd] in *. subst pf.
    destruct (Hids id Hin) as [q Hq].
    destruct (l5_spec fnum pre nxt hc hf s id q Hfn Hc Hf Hq Hnx) as (hc' & hf' & E1 & A1 & A2 & A3 & A4).
    eexists. split; [exact E1|]. unfold rel2. repeat split; try assumption. congruence.
  Qed.

  (* ---- lines 1201-1208: one pass over the members of the current front ------------------------------------------ *)
  Lemma pass_spec fnum pre (cur : list nat) hd hc hf (s : st) : fnum = S (length pre) ->
    agr hc (cnt s) -> agr hf (frt s) -> agr hd (dom s) -> ids_ok (dom s) -> Forall (fun r => r < n) cur ->
    exists g', g_for (fnds_l4_body (E := E) idf (seq 0 n) fnum hd) cur (hc, hf, pre ++ [[]]) = g_next g' /\
               rel2 (dom s) pre g' (pass pop fnum cur s).
  Proof.
    intros Hfn Hc Hf Hd Hok Hcur. unfold pass.
    apply (g_for_fold (rel2 (dom s) pre)).
    - intros g sf p Hp Hr. rewrite Forall_forall in Hcur. assert (Hpn := Hcur p Hp).
      unfold fnds_l4_body. to_g. cbv beta iota zeta.
      assert (Hdp : dom (fst sf) p = hd p).
      { destruct g as [[a b] c]. destruct Hr as (_ & _ & Hd' & _). rewrite Hd'. symmetry. apply Hd. exact Hpn. }
      rewrite Hdp.
      destruct (dec_loop_spec fnum pre (dom s) (hd p) Hfn) with (g := g) (sf := sf) as [g' [E1 R1]].
      + intros id Hin. apply (Hok p id Hpn). rewrite <- (Hd p Hpn). exact Hin.
      + destruct g as [[a b] c]. exact Hr.
      + destruct g as [[a b] c]. cbv beta iota zeta. rewrite E1, g_bind_next. destruct g' as [[a' b'] c'].
        eexists. split; [reflexivity|exact R1].
    - cbn. repeat split; try assumption. constructor.
  Qed.

  (* ---- lines 1198-1208: the peeling loop; the generated fuel is the model's fuel ----------------------------------- *)
  Lemma peel_spec : forall fuel fn (cur : list nat) (s : st) (acc : list (list nat)) hc hf hd,
    fn = S (length acc) -> agr hc (cnt s) -> agr hf (frt s) -> agr hd (dom s) -> ids_ok (dom s) ->
    Forall (fun r => r < n) cur ->
    match peel fuel pop fn cur s acc with
    | None => fnds_w1 (E := E) idf (seq 0 n) hd fuel (fn, acc ++ [cur], hc, hf) = g_stuck
    | Some (s', fronts) =>
        exists hc' hf', fnds_w1 (E := E) idf (seq 0 n) hd fuel (fn, acc ++ [cur], hc, hf) =
                          g_next (S (length fronts), fronts ++ [[]], hc', hf') /\
                        agr hc' (cnt s') /\ agr hf' (frt s') /\ dom s' = dom s
    end.
  Proof.
    induction fuel as [|fuel IH]; intros fn cur s acc hc hf hd Hfn Hc Hf Hd Hok Hcur; [reflexivity|].
    cbn [peel fnds_w1]. to_g. cbv beta iota zeta.
    change 1%Z with (Z.of_nat 1). rewrite g_nth_z_sub by lia.
    replace (fn - 1) with (length acc) by lia. rewrite nth_error_app_mid, g_get_some.
    destruct cur as [|c0 cur'].
    - cbn [length Nat.ltb Nat.leb]. exists hc, hf. subst fn. repeat split; assumption.
    - cbn [length Nat.ltb Nat.leb]. set (cur := c0 :: cur') in *.
      rewrite Nat.add_1_r.
      change 2%Z with (Z.of_nat 2). rewrite g_nth_z_sub by lia.
      rewrite <- app_assoc. cbn [app].
      replace (S fn - 2) with (length acc) by lia. rewrite nth_error_app_mid, g_get_some.
      rewrite !g_zindex_sub by lia. cbn [g_same_cell].
      replace (S fn - 2 =? S fn - 1) with false by (symmetry; apply Nat.eqb_neq; lia).
      change (acc ++ cur :: [[]]) with (acc ++ [cur] ++ [[]]). rewrite app_assoc.
      destruct (pass_spec (S fn) (acc ++ [cur]) cur hd hc hf s) as [[[hc1 hf1] pf1] [E1 R1]]; try assumption.
      { rewrite app_length. cbn. lia. }
      rewrite E1, g_bind_next. cbv beta iota zeta. rewrite g_bind_next.
      destruct R1 as (Hc1 & Hf1 & Hd1 & Hpf1 & Hnx1). subst pf1.
      specialize (IH (S fn) (snd (pass pop (S fn) cur s)) (fst (pass pop (S fn) cur s)) (acc ++ [cur]) hc1 hf1 hd).
      destruct (peel fuel pop (S fn) (snd (pass pop (S fn) cur s)) (fst (pass pop (S fn) cur s)) (acc ++ [cur]))
        as [[s' fronts]|].
      + destruct IH as (hc' & hf' & E2 & A1 & A2 & A3); try assumption.
        * rewrite app_length. cbn. lia.
        * rewrite Hd1. exact Hd.
        * rewrite Hd1. exact Hok.
        * exists hc', hf'. repeat split; try assumption. congruence.
      + apply IH; try assumption.
        * rewrite app_length. cbn. lia.
        * rewrite Hd1. exact Hd.
        * rewrite Hd1. exact Hok.
  Qed.

  (* ---- the whole function ------------------------------------------------------------------------------------------ *)
  Context (ltb : T -> T -> bool) (sub div : T -> T -> T) (e_inf : E) (e_inj : T -> E) (e_add : E -> E -> E) (c_0 : T).

  (* lines 1211-1212: crowding_distance(sub_front) for every front, in order, on the crowding-distance cells *)
  Definition crowd_fronts (fronts : list (list nat)) (hcd : nat -> E) :=
    h_for (fnds_l6_body ltb sub div e_inf e_inj e_add c_0 costf) fronts hcd.

  Theorem fnds_gen_eq_model : forall hc0 hf0 hd0 (hcd0 : nat -> E) fuel,
    match peel fuel pop 1 (snd (phase1 cmp pop)) (fst (phase1 cmp pop)) [] with
    | None =>
        fnds_gen ltb sub div e_inf e_inj e_add c_0 cmp idf costf (seq 0 (length pop)) hc0 hf0 hd0 hcd0 fuel = h_stuck
    | Some (s, fronts) =>
        exists hc hf hd,
          fnds_gen ltb sub div e_inf e_inj e_add c_0 cmp idf costf (seq 0 (length pop)) hc0 hf0 hd0 hcd0 fuel =
            h_bind (crowd_fronts fronts hcd0) (fun hcd => h_ret (tt, hc, hf, hd, hcd)) /\
          (forall i, i < length pop -> hc i = cnt s i /\ hf i = frt s i /\ hd i = dom s i)
    end.
  Proof.
    intros hc0 hf0 hd0 hcd0 fuel. unfold crowd_fronts, fnds_gen. fold n. to_g. cbv beta iota zeta. rewrite seq_length.
    destruct (reset_spec hc0 hf0 hd0) as (hc1 & hf1 & hd1 & E1 & Ac1 & Af1 & Ad1).
    rewrite E1, g_bind_next. cbv beta iota zeta.
    destruct (phase1_spec hd1 hc1 hf1 Ad1 Ac1 Af1) as [[[[hd2 hc2] hf2] pf2] [E2 R2]].
    rewrite E2, g_bind_next. cbv beta iota zeta.
    destruct R2 as (Hd2 & Hc2 & Hf2 & Hpf2 & Hfr2 & Hok2). subst pf2.
    assert (P := peel_spec fuel 1 (snd (phase1 cmp pop)) (fst (phase1 cmp pop)) [] hc2 hf2 hd2 eq_refl Hc2 Hf2 Hd2 Hok2 Hfr2).
    cbn [app] in P.
    destruct (peel fuel pop 1 (snd (phase1 cmp pop)) (fst (phase1 cmp pop)) []) as [[s fronts]|].
    - destruct P as (hc3 & hf3 & E3 & Ac3 & Af3 & Ad3). rewrite E3, g_bind_next. cbv beta iota zeta.
      change 1%Z with (Z.of_nat 1). rewrite g_nth_z_sub by lia.
      replace (S (length fronts) - 1) with (length fronts) by lia.
      rewrite nth_error_app_mid, g_get_some. cbn [length Nat.eqb].
      rewrite g_pop_last, g_get_some, g_bind_next.
      exists hc3, hf3, hd2. split; [reflexivity|].
      intros i Hi. repeat split; [apply Ac3|apply Af3|rewrite Ad3; apply Hd2]; exact Hi.
    - rewrite P. reflexivity.
  Qed.

  (* with the model's fuel: the three features after the call are the model's tables, position by position; the
     function raises exactly when one of the trailing crowding_distance calls does *)
  Theorem fnds_gen_front_numbers : forall hc0 hf0 hd0 (hcd0 hcd : nat -> E) fr cn dm,
    fnds cmp pop = Some fr -> fnds_counters cmp pop = Some cn -> fnds_dominate cmp pop = Some dm ->
    (forall fronts, fnds_fronts cmp pop = Some fronts -> crowd_fronts fronts hcd0 = h_next hcd) ->
    exists hc hf hd,
      fnds_gen ltb sub div e_inf e_inj e_add c_0 cmp idf costf (seq 0 (length pop)) hc0 hf0 hd0 hcd0 (S (length pop)) =
        h_ret (tt, hc, hf, hd, hcd) /\
      map hf (seq 0 (length pop)) = fr /\ map hc (seq 0 (length pop)) = cn /\ map hd (seq 0 (length pop)) = dm.
  Proof.
    intros hc0 hf0 hd0 hcd0 hcd fr cn dm. unfold fnds, fnds_counters, fnds_dominate, fnds_fronts, fnds_run.
    assert (P := fnds_gen_eq_model hc0 hf0 hd0 hcd0 (S (length pop))).
    destruct (peel (S (length pop)) pop 1 (snd (phase1 cmp pop)) (fst (phase1 cmp pop)) []) as [[s fronts]|];
      [|discriminate].
    intros Hfr Hcn Hdm Hcrowd. inversion Hfr; inversion Hcn; inversion Hdm; subst.
    destruct P as (hc & hf & hd & E1 & A). exists hc, hf, hd.
    rewrite E1, (Hcrowd fronts eq_refl). split; [reflexivity|].
    repeat split; apply map_ext_in; intros i Hi; apply in_seq in Hi; apply A; lia.
  Qed.
End FndsEquiv.

(* the binary64 instance the translator builds from the operator NAMES: pins `<`, `-`, `/`, `+`, inf and 0.0 of the
   crowding part to their positions in the Section context *)
From Coq Require Import Floats.
Theorem fnds_gen_f_pins :
  fnds_gen_f = @fnds_gen float float PrimFloat.ltb PrimFloat.sub PrimFloat.div infinity (fun x => x) PrimFloat.add 0%float.
Proof. reflexivity. Qed.
