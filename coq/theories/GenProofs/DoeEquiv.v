(* The definitions generated from artap/doe.py (fullfact, ff2n) by tools/py2coq_np.py on THIS run are the
   hand-written models of Model/Doe.v, for every list of level counts / every number of factors.

   Reading of the translator (notes/TRANSLATOR.md, "numpy front-end"): a numpy 2-d array is the list of its rows,
   its elements (floats holding small integers) are in Z, `H[:, i] = rng` is the functional column update
   np_setcol, `lvl * k` / `[j] * k` is list_rep, `np.prod` is the left fold of Nat.mul, integers are nat.
   The model builds the columns by structural recursion (ff_cols) and transposes them (rows_of_cols); the code
   runs an index loop over range(n) that threads (range_repeat, level_repeat, H) and writes column i of the
   zero matrix: the proofs below relate the two for all inputs.
   Compiled per run against the freshly generated ArtapGen.DoeGen. *)
From Coq Require Import List ZArith QArith Qround Bool Arith Lia ZifyBool.
From Artap Require Import Model.Doe Proofs.DoeFullfact Proofs.DoeBB.
From ArtapGen Require Import GenTactics DoeGen.
Import ListNotations.
Local Open Scope nat_scope.

(* ---- lists ------------------------------------------------------------------------------ *)
Lemma list_rep_single {A} (j : A) k : list_rep [j] k = repeat j k.
Proof. unfold list_rep. induction k as [|k IH]; [reflexivity|]. cbn. now rewrite IH. Qed.

Lemma fold_app_flat_map {A B} (g : B -> list A) (l : list B) : forall acc,
  fold_left (fun acc j => acc ++ g j) l acc = acc ++ flat_map g l.
Proof.
  induction l as [|j l IH]; intros acc; cbn; [now rewrite app_nil_r|].
  rewrite IH. now rewrite <- app_assoc.
Qed.

(* the inner loop: lvl = []; for j in range(L): lvl += [j] * level_repeat *)
Lemma lvl_loop lr L : fold_left (fun lvl j => lvl ++ list_rep [j] lr) (seq 0 L) [] = ff_lvl L lr.
Proof.
  rewrite fold_app_flat_map. cbn [app]. unfold ff_lvl.
  apply flat_map_ext. intros j. apply list_rep_single.
Qed.

Lemma np_prod_eq l : np_prod l = prod_list l.
Proof.
  unfold np_prod, prod_list. apply fold_symmetric; intros; lia.
Qed.

Lemma list_upd_app {A} (l1 : list A) x y l2 : list_upd (length l1) x (l1 ++ y :: l2) = l1 ++ x :: l2.
Proof. induction l1 as [|a l1 IH]; cbn; [reflexivity|]. now rewrite IH. Qed.

Lemma combine_seq_map {A} (F : nat -> A) N : forall a,
  combine (seq a N) (map F (seq a N)) = map (fun t => (t, F t)) (seq a N).
Proof. induction N as [|N IH]; intros a; cbn; [reflexivity|]. now rewrite IH. Qed.

(* a column store on a matrix given row by row *)
Lemma np_setcol_map {A} (d : A) (F : nat -> list A) N i v :
  np_setcol d (map F (seq 0 N)) i v = map (fun t => list_upd i (nth t v d) (F t)) (seq 0 N).
Proof.
  unfold np_setcol. rewrite map_length, seq_length, combine_seq_map, map_map. reflexivity.
Qed.

Lemma repeat_map_seq {A} (x : A) N : forall a, repeat x N = map (fun _ => x) (seq a N).
Proof. induction N as [|N IH]; intros a; cbn; [reflexivity|]. now rewrite <- IH. Qed.

(* ---- the column stores ------------------------------------------------------------------ *)
Definition setcols (k : nat) (cols : list (list nat)) (H : list (list Z)) : list (list Z) :=
  fold_left (fun H p => np_setcol 0%Z H (fst p) (map Z.of_nat (snd p))) (combine (seq k (length cols)) cols) H.

Lemma setcols_cons k c rest H :
  setcols k (c :: rest) H = setcols (S k) rest (np_setcol 0%Z H k (map Z.of_nat c)).
Proof. reflexivity. Qed.

Definition cell (t : nat) (c : list nat) : Z := Z.of_nat (nth t c 0).

Lemma setcols_rows N : forall rest done,
  setcols (length done) rest (map (fun t => map (cell t) done ++ repeat 0%Z (length rest)) (seq 0 N))
  = map (fun t => map (cell t) (done ++ rest)) (seq 0 N).
Proof.
  induction rest as [|c rest IH]; intros done.
  - cbn. apply map_ext. intros t. now rewrite !app_nil_r.
  - rewrite setcols_cons, np_setcol_map. cbn [length].
    replace (map (fun t => list_upd (length done) (nth t (map Z.of_nat c) 0%Z)
                                    (map (cell t) done ++ repeat 0%Z (S (length rest)))) (seq 0 N))
      with (map (fun t => map (cell t) (done ++ [c]) ++ repeat 0%Z (length rest)) (seq 0 N)).
    + replace (S (length done)) with (length (done ++ [c])) by (rewrite app_length; cbn; lia).
      rewrite IH. apply map_ext. intros t. now rewrite <- app_assoc.
    + apply map_ext. intros t. cbn [repeat].
      rewrite <- (map_length (cell t) done). rewrite list_upd_app.
      rewrite map_app, <- app_assoc. cbn [map app]. unfold cell at 2.
      change 0%Z with (Z.of_nat 0) at 2. now rewrite map_nth.
Qed.

Lemma ff_cols_length levels : forall lr rr, length (ff_cols levels lr rr) = length levels.
Proof. induction levels as [|L levels IH]; intros; cbn; [reflexivity|]. now rewrite IH. Qed.

(* ---- the loop over the factors ---------------------------------------------------------- *)
Lemma ff_loop (levels : list nat) (f : nat * nat * list (list Z) -> nat -> nat * nat * list (list Z)) :
  (forall rr lr H i, f (rr, lr, H) i =
     (rr / nth i levels 0, lr * nth i levels 0,
      np_setcol 0%Z H i (map Z.of_nat (concat (repeat (ff_lvl (nth i levels 0) lr) (rr / nth i levels 0)))))) ->
  forall rest pre rr lr H, levels = pre ++ rest ->
  exists rr' lr', fold_left f (seq (length pre) (length rest)) (rr, lr, H)
                  = (rr', lr', setcols (length pre) (ff_cols rest lr rr) H).
Proof.
  intros Hstep. induction rest as [|L rest IH]; intros pre rr lr H Hl.
  - exists rr, lr. reflexivity.
  - cbn [length seq fold_left]. rewrite Hstep.
    assert (HL : nth (length pre) levels 0 = L) by (subst levels; apply nth_middle).
    rewrite HL.
    replace (S (length pre)) with (length (pre ++ [L])) by (rewrite app_length; cbn; lia).
    destruct (IH (pre ++ [L]) (rr / L) (lr * L)
                 (np_setcol 0%Z H (length pre) (map Z.of_nat (concat (repeat (ff_lvl L lr) (rr / L))))))
      as (rr' & lr' & Heq).
    { subst levels. now rewrite <- app_assoc. }
    exists rr', lr'. rewrite Heq. cbn [ff_cols]. rewrite setcols_cons.
    rewrite app_length. cbn [length]. replace (length pre + 1) with (S (length pre)) by lia. reflexivity.
Qed.

(* ---- fullfact --------------------------------------------------------------------------- *)
Theorem fullfact_gen_eq_model : forall levels : list nat,
  fullfact_gen levels = map (map Z.of_nat) (fullfact_rows levels).
Proof.
  intros levels. unfold fullfact_gen. cbv zeta.
  match goal with |- context [fold_left ?f (seq 0 (length levels)) (?rr0, ?lr0, ?H0)] =>
    assert (Hstep : forall rr lr H i, f (rr, lr, H) i =
       (rr / nth i levels 0, lr * nth i levels 0,
        np_setcol 0%Z H i (map Z.of_nat (concat (repeat (ff_lvl (nth i levels 0) lr) (rr / nth i levels 0))))));
    [ intros; cbv beta iota zeta; rewrite lvl_loop; reflexivity
    | destruct (ff_loop levels f Hstep levels [] rr0 lr0 H0 eq_refl) as (rr' & lr' & Heq) ]
  end.
  cbn [length] in Heq. rewrite Heq. clear Heq Hstep.
  unfold fullfact_rows. cbv zeta. rewrite rows_of_cols_spec, np_prod_eq.
  set (N := prod_list levels). set (cols := ff_cols levels 1 N).
  unfold np_zeros2. rewrite (repeat_map_seq (repeat 0%Z (length levels)) N 0).
  pose proof (setcols_rows N cols []) as HS. cbn [length map app] in HS.
  assert (Hlen : length cols = length levels) by apply ff_cols_length. rewrite Hlen in HS.
  rewrite HS. rewrite map_map. apply map_ext. intros t. rewrite map_map. reflexivity.
Qed.

(* with the result type of the model: np.prod([]) is the float 1.0 and np.zeros((1.0, 0)) raises TypeError,
   which the model has and the translated definition (integers only) has not *)
Theorem fullfact_gen_eq_model_res : forall levels : list nat, levels <> [] ->
  exists rows, fullfact levels = Ok rows /\ fullfact_gen levels = map (map Z.of_nat) rows.
Proof.
  intros levels Hl. exists (fullfact_rows levels). split; [|apply fullfact_gen_eq_model].
  destruct levels; [congruence|reflexivity].
Qed.

(* ---- ff2n(n) = 2 * fullfact([2] * n) - 1 ------------------------------------------------- *)
Theorem ff2n_gen_eq_model : forall n : nat, ff2n_gen n = ff2n n.
Proof.
  intros n. unfold ff2n_gen, ff2n. rewrite list_rep_single, fullfact_gen_eq_model.
  rewrite !map_map. apply map_ext. intros row. rewrite !map_map. apply map_ext. intros x.
  cbn [Z.of_nat Pos.of_succ_nat Pos.succ]. lia.
Qed.

(* ---- repeat_center, bbdesign ------------------------------------------------------------- *)
Theorem repeat_center_gen_eq_model : forall n k : nat, repeat_center_gen n k = repeat (repeat 0%Z n) k.
Proof. reflexivity. Qed.

Lemma list_upd_upd {A} (v : A) : forall l i, list_upd i v l = upd i v l.
Proof. induction l as [|h t IH]; intros [|i]; cbn; try reflexivity. Qed.

(* H[a:b, i] = v on a matrix given as the rows before a, the rows a .. b-1 and the rows from b *)
Section RowStore.
  Context {A : Type} (d : A) (a b i : nat) (v : list A).
  Definition rs_fun (p : nat * list A) : list A :=
    if (a <=? fst p) && (fst p <? b) then list_upd i (nth (fst p - a) v d) (snd p) else snd p.
  Definition rs (s : nat) (H : list (list A)) : list (list A) := map rs_fun (combine (seq s (length H)) H).

  Lemma rs_app : forall H1 s H2, rs s (H1 ++ H2) = rs s H1 ++ rs (s + length H1) H2.
  Proof.
    induction H1 as [|r H1 IH]; intros s H2.
    - cbn. now rewrite Nat.add_0_r.
    - unfold rs in *. cbn [app length seq combine map]. rewrite IH.
      replace (S s + length H1) with (s + S (length H1)) by lia. reflexivity.
  Qed.

  Lemma rs_out : forall H s, (forall r, s <= r < s + length H -> r < a \/ b <= r) -> rs s H = H.
  Proof.
    induction H as [|row H IH]; intros s Hr; [reflexivity|].
    unfold rs in *. cbn [length seq combine map]. unfold rs_fun at 1. cbn [fst snd].
    assert (C : (a <=? s) && (s <? b) = false).
    { assert (Hs : s <= s < s + length (row :: H)) by (cbn [length]; lia).
      destruct (Hr s Hs) as [L|L].
      - apply andb_false_intro1. apply Nat.leb_gt. lia.
      - apply andb_false_intro2. apply Nat.ltb_ge. lia. }
    rewrite C. f_equal. apply IH. intros r L. apply Hr. cbn [length]. lia.
  Qed.

  Lemma rs_in : forall H k, a + k + length H <= b ->
    rs (a + k) H = map (fun p => list_upd i (nth (fst p) v d) (snd p)) (combine (seq k (length H)) H).
  Proof.
    induction H as [|row H IH]; intros k L; [reflexivity|].
    unfold rs in *. cbn [length seq combine map]. unfold rs_fun at 1. cbn [fst snd]. cbn [length] in L.
    replace ((a <=? a + k) && (a + k <? b)) with true
      by (symmetry; apply andb_true_intro; split; [apply Nat.leb_le|apply Nat.ltb_lt]; lia).
    replace (a + k - a) with k by lia. f_equal.
    replace (S (a + k)) with (a + S k) by lia. apply IH. lia.
  Qed.
End RowStore.

Lemma setrows_mid {A} (d : A) (D M R : list (list A)) a b i v :
  a = length D -> b = a + length M ->
  np_setcol_rows d (D ++ M ++ R) a b i v
  = D ++ map (fun p => list_upd i (nth (fst p) v d) (snd p)) (combine (seq 0 (length M)) M) ++ R.
Proof.
  intros Ha Hb. change (np_setcol_rows d (D ++ M ++ R) a b i v) with (rs d a b i v 0 (D ++ M ++ R)).
  rewrite !rs_app. cbn [Nat.add]. f_equal; [|f_equal].
  - apply rs_out. intros r L. lia.
  - replace (length D) with (a + 0) by lia. apply rs_in. lia.
  - apply rs_out. intros r L. lia.
Qed.

(* one pass of the inner loop: the four rows of the pair (i, j) *)
Lemma bb_step n i j k (D : list (list Z)) m : length D = 4 * k -> 4 <= m ->
  np_setcol_rows 0%Z
    (np_setcol_rows 0%Z (D ++ repeat (repeat 0%Z n) m) (py_max_nat [0; (k + 1 - 1) * 4]) ((k + 1) * 4) i [-1; 1; -1; 1]%Z)
    (py_max_nat [0; (k + 1 - 1) * 4]) ((k + 1) * 4) j [-1; -1; 1; 1]%Z
  = (D ++ bb_block n i j) ++ repeat (repeat 0%Z n) (m - 4).
Proof.
  intros HD Hm.
  replace (py_max_nat [0; (k + 1 - 1) * 4]) with (4 * k) by (cbn [py_max_nat fold_left]; lia).
  replace m with (4 + (m - 4)) at 1 by lia. rewrite repeat_app.
  rewrite (setrows_mid 0%Z D (repeat (repeat 0%Z n) 4) _ (4 * k) ((k + 1) * 4)) by (cbn [repeat length]; lia).
  cbn [repeat length seq combine map fst snd nth].
  match goal with |- np_setcol_rows _ (D ++ ?M ++ ?R) _ _ _ _ = _ =>
    rewrite (setrows_mid 0%Z D M R (4 * k) ((k + 1) * 4)) by (cbn [length]; lia)
  end.
  cbn [length seq combine map fst snd nth].
  rewrite bb_block_corners. unfold corner. rewrite !list_upd_upd. rewrite <- app_assoc. reflexivity.
Qed.

Lemma blocks_length n i js : length (flat_map (bb_block n i) js) = 4 * length js.
Proof. induction js as [|j js IH]; cbn [flat_map length]; [reflexivity|]. rewrite app_length, block_length, IH. lia. Qed.

Lemma bb_inner n i (f : nat * list (list Z) -> nat -> nat * list (list Z)) :
  (forall k H j, f (k, H) j =
     (k + 1,
      np_setcol_rows 0%Z
        (np_setcol_rows 0%Z H (py_max_nat [0; (k + 1 - 1) * 4]) ((k + 1) * 4) i [-1; 1; -1; 1]%Z)
        (py_max_nat [0; (k + 1 - 1) * 4]) ((k + 1) * 4) j [-1; -1; 1; 1]%Z)) ->
  forall js k D m, length D = 4 * k -> 4 * length js <= m ->
  fold_left f js (k, D ++ repeat (repeat 0%Z n) m)
  = (k + length js, (D ++ flat_map (bb_block n i) js) ++ repeat (repeat 0%Z n) (m - 4 * length js)).
Proof.
  intros Hf. induction js as [|j js IH]; intros k D m HD Hm.
  - cbn [fold_left length flat_map]. rewrite app_nil_r, Nat.add_0_r, Nat.mul_0_r, Nat.sub_0_r. reflexivity.
  - cbn [fold_left length flat_map] in *. rewrite Hf, (bb_step n i j k D m HD) by lia.
    rewrite IH by (try rewrite app_length, block_length; lia).
    f_equal; [lia|]. rewrite <- !app_assoc. repeat (f_equal; try lia).
Qed.

Lemma bb_outer n (js : nat -> list nat) (g : nat * list (list Z) -> nat -> nat * list (list Z)) :
  (forall k D m i, length D = 4 * k -> 4 * length (js i) <= m ->
     g (k, D ++ repeat (repeat 0%Z n) m) i
     = (k + length (js i), (D ++ flat_map (bb_block n i) (js i)) ++ repeat (repeat 0%Z n) (m - 4 * length (js i)))) ->
  forall is_ k D m, length D = 4 * k ->
  length (flat_map (fun i => flat_map (bb_block n i) (js i)) is_) <= m ->
  exists k', fold_left g is_ (k, D ++ repeat (repeat 0%Z n) m)
             = (k', (D ++ flat_map (fun i => flat_map (bb_block n i) (js i)) is_)
                    ++ repeat (repeat 0%Z n) (m - length (flat_map (fun i => flat_map (bb_block n i) (js i)) is_))).
Proof.
  intros Hg. induction is_ as [|i is_ IH]; intros k D m HD Hm.
  - exists k. cbn [fold_left flat_map length]. now rewrite app_nil_r, Nat.sub_0_r.
  - cbn [fold_left flat_map] in *. rewrite app_length, blocks_length in Hm.
    rewrite Hg by lia.
    destruct (IH (k + length (js i)) (D ++ flat_map (bb_block n i) (js i)) (m - 4 * length (js i))) as (k' & E).
    { rewrite app_length, blocks_length. lia. }
    { lia. }
    exists k'. rewrite E. rewrite app_length, blocks_length. rewrite <- !app_assoc. repeat (f_equal; try lia).
Qed.

(* int((0.5 * n * (n - 1)) * 4), the float arithmetic read as exact rational arithmetic *)
Lemma bb_nb_lines n :
  Z.to_nat (Qfloor ((((1 # 2) * inject_Z (Z.of_nat n)) * inject_Z (Z.of_nat (n - 1))) * inject_Z (Z.of_nat 4))%Q)
  = 2 * n * (n - 1).
Proof.
  assert (E : ((((1 # 2) * inject_Z (Z.of_nat n)) * inject_Z (Z.of_nat (n - 1))) * inject_Z (Z.of_nat 4)
               == inject_Z (Z.of_nat (2 * n * (n - 1))))%Q).
  { unfold Qeq, Qmult, inject_Z. cbn [Qnum Qden]. rewrite !Nat2Z.inj_mul.
    change (Z.of_nat 4) with 4%Z. change (Z.of_nat 2) with 2%Z. cbn [Pos.mul]. ring. }
  rewrite (Qfloor_comp _ _ E), Qfloor_Z. apply Nat2Z.id.
Qed.

Theorem bbdesign_gen_eq_model : forall n center : nat,
  bbdesign_gen n center = match bbdesign n center with Ok rows => Some rows | Err _ => None end.
Proof.
  intros n center. unfold bbdesign_gen, bbdesign. cbv zeta.
  destruct (n <? 3) eqn:E3;
    (match goal with |- (if ?c then _ else _) = _ => destruct c eqn:Ec end); try lia; try reflexivity.
  rewrite ff2n_gen_eq_model, ff2n_2.
  change (length [[-1; -1]; [1; -1]; [-1; 1]; [1; 1]]%Z) with 4.
  change (np_col 0%Z [[-1; -1]; [1; -1]; [-1; 1]; [1; 1]]%Z 0) with [-1; 1; -1; 1]%Z.
  change (np_col 0%Z [[-1; -1]; [1; -1]; [-1; 1]; [1; 1]]%Z 1) with [-1; -1; 1; 1]%Z.
  rewrite bb_nb_lines, !repeat_center_gen_eq_model.
  match goal with |- context [fold_left ?g (seq 0 (n - 1)) (0, ?H0)] =>
    destruct (bb_outer n (fun i => seq (i + 1) (n - (i + 1))) g) with (is_ := seq 0 (n - 1)) (k := 0)
      (D := @nil (list Z)) (m := 2 * n * (n - 1)) as (k' & E)
  end.
  - intros k D m i HD Hm. cbv beta iota zeta.
    match goal with |- context [fold_left ?f (seq (i + 1) (n - (i + 1))) _] =>
      rewrite (bb_inner n i f) by (try (intros; cbv beta iota zeta; reflexivity); assumption)
    end.
    reflexivity.
  - reflexivity.
  - change (flat_map (fun i => flat_map (bb_block n i) (seq (i + 1) (n - (i + 1)))) (seq 0 (n - 1))) with (bb_pairs_rows n). rewrite pairs_rows_length. lia.
  - cbn [app] in E. rewrite E. change (flat_map (fun i => flat_map (bb_block n i) (seq (i + 1) (n - (i + 1)))) (seq 0 (n - 1))) with (bb_pairs_rows n). rewrite pairs_rows_length, Nat.sub_diag.
    cbn [repeat]. rewrite app_nil_r. rewrite bb_rows_split. reflexivity.
Qed.

(* ---- pbdesign: the size arithmetic and the tail (slices; the classification by np.frexp and the seed matrices
   in between are NOT translated: they enter the composite theorem as the premise on pb_select) ----------------- *)
Lemma iter_shift {A} (f : A -> A) n : forall a, Nat.iter n f (f a) = f (Nat.iter n f a).
Proof.
  induction n as [|n IH]; intros a; [reflexivity|].
  change (Nat.iter (S n) f (f a)) with (f (Nat.iter n f (f a))). now rewrite IH.
Qed.

Lemma fold_left_iter {A B} (f : A -> A) (l : list B) : forall a,
  fold_left (fun a _ => f a) l a = Nat.iter (length l) f a.
Proof.
  induction l as [|x l IH]; intros a; cbn [fold_left length]; [reflexivity|].
  rewrite IH. apply iter_shift.
Qed.

Lemma fold_left_ext_all {A B} (f g : A -> B -> A) : (forall a b, f a b = g a b) ->
  forall l a, fold_left f l a = fold_left g l a.
Proof. intros E l; induction l as [|x l IH]; intros a; cbn; [reflexivity|]. now rewrite E, IH. Qed.

Lemma np_hstack_eq : forall X Y : list (list Z), np_hstack X Y = hstack X Y.
Proof. induction X as [|a X IH]; intros [|b Y]; cbn; try reflexivity. now rewrite IH. Qed.

(* keep = int(n); n = 4 * (int(n / 4) + 1), the float quotient read as an exact rational *)
Theorem pbdesign_size_gen_eq_model : forall n : nat, pbdesign_size_gen n = (n, 4 * (n / 4 + 1)).
Proof.
  intros n. unfold pbdesign_size_gen. cbv zeta.
  (* `int(n / 4)`; the spelling `n // 4` is already the model's quotient *)
  try (change (Z.of_nat 4) with 4%Z;
       replace (Qfloor (inject_Z (Z.of_nat n) / inject_Z 4)) with (Z.of_nat n / 4)%Z
         by (unfold Qdiv, Qmult, Qinv, inject_Z, Qfloor; cbn [Qnum Qden Pos.mul]; now rewrite Z.mul_1_r);
       change 4%Z with (Z.of_nat 4); rewrite <- Nat2Z.inj_div, Nat2Z.id).
  reflexivity.
Qed.

(* for i in range(e): H = vstack(hstack(H, H), hstack(H, -H));  H = H[:, 1:(keep + 1)];  return np.flipud(H) *)
Theorem pbdesign_tail_gen_eq_model : forall (H : list (list Z)) (e keep : nat),
  pbdesign_tail_gen H e keep = rev (map (fun row => firstn keep (skipn 1 row)) (Nat.iter e kron_double H)).
Proof.
  intros H e keep. unfold pbdesign_tail_gen. cbv zeta. f_equal.
  match goal with |- context [fold_left ?f (seq 0 e) H] =>
    rewrite (fold_left_ext_all f (fun a _ => kron_double a))
      by (intros; cbv beta; unfold kron_double, vstack, mneg; rewrite !np_hstack_eq; reflexivity)
  end.
  rewrite fold_left_iter, seq_length. apply map_ext. intros row. now rewrite Nat.add_sub.
Qed.

(* the two slices put together with the model's own classification *)
Theorem pbdesign_gen_compose : forall (n : nat) (H : list (list Z)) (e : nat), n <> 0 ->
  pb_select (snd (pbdesign_size_gen n)) = Some (H, e) ->
  pbdesign n = Ok (pbdesign_tail_gen H e (fst (pbdesign_size_gen n))).
Proof.
  intros n H e Hn Hs. rewrite pbdesign_size_gen_eq_model in *. cbn [fst snd] in *.
  unfold pbdesign. replace (n =? 0) with false by (symmetry; now apply Nat.eqb_neq).
  cbv zeta. rewrite Hs, pbdesign_tail_gen_eq_model. reflexivity.
Qed.

(* the docstring examples, computed from the translated definitions *)
Example fullfact_gen_doc : fullfact_gen [2; 4; 3] = map (map Z.of_nat)
  [[0;0;0];[1;0;0];[0;1;0];[1;1;0];[0;2;0];[1;2;0];[0;3;0];[1;3;0];
   [0;0;1];[1;0;1];[0;1;1];[1;1;1];[0;2;1];[1;2;1];[0;3;1];[1;3;1];
   [0;0;2];[1;0;2];[0;1;2];[1;1;2];[0;2;2];[1;2;2];[0;3;2];[1;3;2]].
Proof. vm_compute. reflexivity. Qed.

Example bbdesign_gen_doc : bbdesign_gen 3 3 = Some
  [[-1;-1;0];[1;-1;0];[-1;1;0];[1;1;0];[-1;0;-1];[1;0;-1];[-1;0;1];[1;0;1];
   [0;-1;-1];[0;1;-1];[0;-1;1];[0;1;1];[0;0;0];[0;0;0];[0;0;0]]%Z.
Proof. vm_compute. reflexivity. Qed.

(* pbdesign(3) of the docstring: size 4 = 1 * 2^2, seed ones(1, 1) *)
Example pbdesign_gen_doc : pbdesign_size_gen 3 = (3, 4) /\ pbdesign_tail_gen [[1%Z]] 2 3 = [[-1;-1;1];[1;-1;-1];[-1;1;-1];[1;1;1]]%Z.
Proof. vm_compute. split; reflexivity. Qed.

Example ff2n_gen_doc : ff2n_gen 3 =
  [[-1;-1;-1];[1;-1;-1];[-1;1;-1];[1;1;-1];[-1;-1;1];[1;-1;1];[-1;1;1];[1;1;1]]%Z.
Proof. vm_compute. reflexivity. Qed.

(* Print Assumptions of the theorems above is run by harness/core.py translated_obligations (qualified names, whitelist) *)
