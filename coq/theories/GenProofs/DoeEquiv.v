(* The definitions generated from artap/doe.py (fullfact, ff2n) by tools/py2coq_np.py on THIS run are the
   hand-written models of Model/Doe.v, for every list of level counts / every number of factors.

   Reading of the translator (notes/TRANSLATOR.md, "numpy front-end"): a numpy 2-d array is the list of its rows,
   its elements (floats holding small integers) are in Z, `H[:, i] = rng` is the functional column update
   np_setcol, `lvl * k` / `[j] * k` is list_rep, `np.prod` is the left fold of Nat.mul, integers are nat.
   The model builds the columns by structural recursion (ff_cols) and transposes them (rows_of_cols); the code
   runs an index loop over range(n) that threads (range_repeat, level_repeat, H) and writes column i of the
   zero matrix: the proofs below relate the two for all inputs.
   Compiled per run against the freshly generated ArtapGen.DoeGen. *)
From Coq Require Import List ZArith Bool Arith Lia.
From Artap Require Import Model.Doe Proofs.DoeFullfact.
From ArtapGen Require Import GenTactics DoeGen.
Import ListNotations.
Local Open Scope nat_scope.

(* ---- lists ------------------------------------------------------------------------------ *)
Lemma list_rep_single {A} (j : A) k : list_rep [j] k = repeat j k.
Proof. unfold list_rep. induction k as [|k IH]; [reflexivity|]. cbn. now rewrite IH. Qed.

Lemma fold_app_flat_map {A B} (g : B -> list A) (l : list B) : forall acc,
  fold_left (fun acc j => acc ++ g j) l acc = acc ++ flat_map g l.
Proof.
  induction l as [|j l IH]; intros acc; cbn; [now rewrite app_nil_r|].
  rewrite IH. now rewrite <- app_assoc.
Qed.

(* the inner loop: lvl = []; for j in range(L): lvl += [j] * level_repeat *)
Lemma lvl_loop lr L : fold_left (fun lvl j => lvl ++ list_rep [j] lr) (seq 0 L) [] = ff_lvl L lr.
Proof.
  rewrite fold_app_flat_map. cbn [app]. unfold ff_lvl.
  apply flat_map_ext. intros j. apply list_rep_single.
Qed.

Lemma np_prod_eq l : np_prod l = prod_list l.
Proof.
  unfold np_prod, prod_list. apply fold_symmetric; intros; lia.
Qed.

Lemma list_upd_app {A} (l1 : list A) x y l2 : list_upd (length l1) x (l1 ++ y :: l2) = l1 ++ x :: l2.
Proof. induction l1 as [|a l1 IH]; cbn; [reflexivity|]. now rewrite IH. Qed.

Lemma combine_seq_map {A} (F : nat -> A) N : forall a,
  combine (seq a N) (map F (seq a N)) = map (fun t => (t, F t)) (seq a N).
Proof. induction N as [|N IH]; intros a; cbn; [reflexivity|]. now rewrite IH. Qed.

(* a column store on a matrix given row by row *)
Lemma np_setcol_map {A} (d : A) (F : nat -> list A) N i v :
  np_setcol d (map F (seq 0 N)) i v = map (fun t => list_upd i (nth t v d) (F t)) (seq 0 N).
Proof.
  unfold np_setcol. rewrite map_length, seq_length, combine_seq_map, map_map. reflexivity.
Qed.

Lemma repeat_map_seq {A} (x : A) N : forall a, repeat x N = map (fun _ => x) (seq a N).
Proof. induction N as [|N IH]; intros a; cbn; [reflexivity|]. now rewrite <- IH. Qed.

(* ---- the column stores ------------------------------------------------------------------ *)
Definition setcols (k : nat) (cols : list (list nat)) (H : list (list Z)) : list (list Z) :=
  fold_left (fun H p => np_setcol 0%Z H (fst p) (map Z.of_nat (snd p))) (combine (seq k (length cols)) cols) H.

Lemma setcols_cons k c rest H :
  setcols k (c :: rest) H = setcols (S k) rest (np_setcol 0%Z H k (map Z.of_nat c)).
Proof. reflexivity. Qed.

Definition cell (t : nat) (c : list nat) : Z := Z.of_nat (nth t c 0).

Lemma setcols_rows N : forall rest done,
  setcols (length done) rest (map (fun t => map (cell t) done ++ repeat 0%Z (length rest)) (seq 0 N))
  = map (fun t => map (cell t) (done ++ rest)) (seq 0 N).
Proof.
  induction rest as [|c rest IH]; intros done.
  - cbn. apply map_ext. intros t. now rewrite !app_nil_r.
  - rewrite setcols_cons, np_setcol_map. cbn [length].
    replace (map (fun t => list_upd (length done) (nth t (map Z.of_nat c) 0%Z)
                                    (map (cell t) done ++ repeat 0%Z (S (length rest)))) (seq 0 N))
      with (map (fun t => map (cell t) (done ++ [c]) ++ repeat 0%Z (length rest)) (seq 0 N)).
    + replace (S (length done)) with (length (done ++ [c])) by (rewrite app_length; cbn; lia).
      rewrite IH. apply map_ext. intros t. now rewrite <- app_assoc.
    + apply map_ext. intros t. cbn [repeat].
      rewrite <- (map_length (cell t) done). rewrite list_upd_app.
      rewrite map_app, <- app_assoc. cbn [map app]. unfold cell at 2.
      change 0%Z with (Z.of_nat 0) at 2. now rewrite map_nth.
Qed.

Lemma ff_cols_length levels : forall lr rr, length (ff_cols levels lr rr) = length levels.
Proof. induction levels as [|L levels IH]; intros; cbn; [reflexivity|]. now rewrite IH. Qed.

(* ---- the loop over the factors ---------------------------------------------------------- *)
Lemma ff_loop (levels : list nat) (f : nat * nat * list (list Z) -> nat -> nat * nat * list (list Z)) :
  (forall rr lr H i, f (rr, lr, H) i =
     (rr / nth i levels 0, lr * nth i levels 0,
      np_setcol 0%Z H i (map Z.of_nat (concat (repeat (ff_lvl (nth i levels 0) lr) (rr / nth i levels 0)))))) ->
  forall rest pre rr lr H, levels = pre ++ rest ->
  exists rr' lr', fold_left f (seq (length pre) (length rest)) (rr, lr, H)
                  = (rr', lr', setcols (length pre) (ff_cols rest lr rr) H).
Proof.
  intros Hstep. induction rest as [|L rest IH]; intros pre rr lr H Hl.
  - exists rr, lr. reflexivity.
  - cbn [length seq fold_left]. rewrite Hstep.
    assert (HL : nth (length pre) levels 0 = L) by (subst levels; apply nth_middle).
    rewrite HL.
    replace (S (length pre)) with (length (pre ++ [L])) by (rewrite app_length; cbn; lia).
    destruct (IH (pre ++ [L]) (rr / L) (lr * L)
                 (np_setcol 0%Z H (length pre) (map Z.of_nat (concat (repeat (ff_lvl L lr) (rr / L))))))
      as (rr' & lr' & Heq).
    { subst levels. now rewrite <- app_assoc. }
    exists rr', lr'. rewrite Heq. cbn [ff_cols]. rewrite setcols_cons.
    rewrite app_length. cbn [length]. replace (length pre + 1) with (S (length pre)) by lia. reflexivity.
Qed.

(* ---- fullfact --------------------------------------------------------------------------- *)
Theorem fullfact_gen_eq_model : forall levels : list nat,
  fullfact_gen levels = map (map Z.of_nat) (fullfact_rows levels).
Proof.
  intros levels. unfold fullfact_gen. cbv zeta.
  match goal with |- context [fold_left ?f (seq 0 (length levels)) (?rr0, ?lr0, ?H0)] =>
    assert (Hstep : forall rr lr H i, f (rr, lr, H) i =
       (rr / nth i levels 0, lr * nth i levels 0,
        np_setcol 0%Z H i (map Z.of_nat (concat (repeat (ff_lvl (nth i levels 0) lr) (rr / nth i levels 0))))));
    [ intros; cbv beta iota zeta; rewrite lvl_loop; reflexivity
    | destruct (ff_loop levels f Hstep levels [] rr0 lr0 H0 eq_refl) as (rr' & lr' & Heq) ]
  end.
  cbn [length] in Heq. rewrite Heq. clear Heq Hstep.
  unfold fullfact_rows. cbv zeta. rewrite rows_of_cols_spec, np_prod_eq.
  set (N := prod_list levels). set (cols := ff_cols levels 1 N).
  unfold np_zeros2. rewrite (repeat_map_seq (repeat 0%Z (length levels)) N 0).
  pose proof (setcols_rows N cols []) as HS. cbn [length map app] in HS.
  assert (Hlen : length cols = length levels) by apply ff_cols_length. rewrite Hlen in HS.
  rewrite HS. rewrite map_map. apply map_ext. intros t. rewrite map_map. reflexivity.
Qed.

(* with the result type of the model: np.prod([]) is the float 1.0 and np.zeros((1.0, 0)) raises TypeError,
   which the model has and the translated definition (integers only) has not *)
Theorem fullfact_gen_eq_model_res : forall levels : list nat, levels <> [] ->
  exists rows, fullfact levels = Ok rows /\ fullfact_gen levels = map (map Z.of_nat) rows.
Proof.
  intros levels Hl. exists (fullfact_rows levels). split; [|apply fullfact_gen_eq_model].
  destruct levels; [congruence|reflexivity].
Qed.

(* ---- ff2n(n) = 2 * fullfact([2] * n) - 1 ------------------------------------------------- *)
Theorem ff2n_gen_eq_model : forall n : nat, ff2n_gen n = ff2n n.
Proof.
  intros n. unfold ff2n_gen, ff2n. rewrite list_rep_single, fullfact_gen_eq_model.
  rewrite !map_map. apply map_ext. intros row. rewrite !map_map. apply map_ext. intros x.
  cbn [Z.of_nat Pos.of_succ_nat Pos.succ]. lia.
Qed.

(* the docstring examples, computed from the translated definitions *)
Example fullfact_gen_doc : fullfact_gen [2; 4; 3] = map (map Z.of_nat)
  [[0;0;0];[1;0;0];[0;1;0];[1;1;0];[0;2;0];[1;2;0];[0;3;0];[1;3;0];
   [0;0;1];[1;0;1];[0;1;1];[1;1;1];[0;2;1];[1;2;1];[0;3;1];[1;3;1];
   [0;0;2];[1;0;2];[0;1;2];[1;1;2];[0;2;2];[1;2;2];[0;3;2];[1;3;2]].
Proof. vm_compute. reflexivity. Qed.

Example ff2n_gen_doc : ff2n_gen 3 =
  [[-1;-1;-1];[1;-1;-1];[-1;1;-1];[1;1;-1];[-1;-1;1];[1;-1;1];[-1;1;1];[1;1;1]]%Z.
Proof. vm_compute. reflexivity. Qed.

(* Print Assumptions of the theorems above is run by harness/core.py translated_obligations (qualified names, whitelist) *)
