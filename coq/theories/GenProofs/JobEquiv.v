(* The definition generated from artap/job.py (Job.evaluate) by tools/py2coq_eff.py on THIS run equals the
   hand-written model Model/Job.v job_evaluate (= attempts = attempt), for all inputs.  Compiled per run against
   the freshly generated ArtapGen.JobGen and ArtapGen.SignedCostsGen; not part of the normal build.

   Reading of the generated interface (Section variables of job_evaluate_gen, instantiated below):
     ind                         an Individual object           := the model's record `ind T` (the object at entry);
                                 f_ind_* are its projections, s_ind_state the functional update of `state`
     SC                          the value of costs_signed      := option (list T * bool)   (None <-> [])
     k_individual_State_*        the four enumeration constants := Empty Evaluated Failed InProgress (alphabetical)
     exc, isinst, new_exc        exceptions: a TimeoutError, a RuntimeError, any other exception (kind k), an
                                 exception constructed by the function itself (by class name)
     ev                          observable events in program order: EvCall v (the objective is called through the
                                 surrogate wrapper with vector v), EvSync ... (data_store.sync_individual with the
                                 fields of the individual as they are at that moment)
     o_..._surrogate_evaluate    the objective: a function of the history (event log, its own call included) and of
                                 the vector, with three outcomes: costs, transient exception, other exception
     o_..._gen_vector            the re-draw: a function of the history (the model's e_reroll of the failed call)
     o_individual_calc_signed_costs  := the definition generated from Individual.calc_signed_costs (SignedCostsGen)
     o_Individual                := the model's `fresh`
   Result: (PyVal tt | PyExc e, final state / vector / feasible / costs / costs_signed of the individual,
            problem.failed, event log).  `assemble` below rebuilds the model's state from it: the heap entry, the
   failed list, the store snapshots (= the EvSync events) and the call log (= the EvCall events, numbered).

   Not translated (named in the generated file): the time stamps, print(), the text of the RuntimeError. *)
From Coq Require Import String.
From Coq Require Import List ZArith Bool Arith Lia.
From Artap Require Import Model.Job.
From ArtapGen Require Import GenTactics SignedCostsGen JobGen.
Import ListNotations.
Local Open Scope nat_scope.

(* exceptions of the objective: a TimeoutError, a RuntimeError, anything else (kind k); exceptions of this world: those,
   and the ones the function constructs itself (by class name) *)
Inductive oexc := OTimeout | ORuntime | OOther (k : nat).
Inductive gexc := GObj (x : oexc) | GNew (cls : string).

(* isinstance(e, <class named c>) *)
Definition g_isinst (x : gexc) (c : string) : bool :=
  match x with
  | GObj OTimeout => String.eqb c "TimeoutError"
  | GObj ORuntime => String.eqb c "RuntimeError"
  | GObj (OOther _) => false
  | GNew k => String.eqb c k
  end.

Section JobEquiv.
  Context {T P : Type} (ltb : T -> T -> bool) (zero : T) (mul : T -> T -> T) (round : T -> nat -> T) (sgn : bool -> T).
  Let roundp := fun (p : nat) (y : T) => round y p.
  Let smul := fun (b : bool) (x : T) => mul (sgn b) x.

  Inductive gev := EvCall (v : list T) | EvSync (v c : list T) (cs : option (list T * bool)) (s : dstate) (f : bool).

  (* what the model calls Transient: TimeoutError, RuntimeError (the classes Job.evaluate catches) *)
  Definition classify (o : py_outcome (list T) oexc) : outcome T :=
    match o with
    | PyVal c => Ok c
    | PyExc OTimeout | PyExc ORuntime => Transient
    | PyExc (OOther k) => Fatal k
    end.
  Definition inj (o : py_outcome (list T) oexc) : py_outcome (list T) gexc :=
    match o with PyVal c => PyVal c | PyExc x => PyExc (GObj x) end.

  Fixpoint ncalls (log : list gev) : nat :=
    match log with [] => 0 | EvCall _ :: l => S (ncalls l) | _ :: l => ncalls l end.
  Fixpoint last_vec (log : list gev) (d : list T) : list T :=
    match log with [] => d | EvCall v :: l => last_vec l v | _ :: l => last_vec l d end.
  (* the EvCall events as the model's call records, numbered from k *)
  Fixpoint calls (base id k : nat) (log : list gev) : list (call T) :=
    match log with
    | [] => []
    | EvCall v :: l => {| c_no := base + k; c_id := id; c_att := k; c_vec := v |} :: calls base id (S k) l
    | _ :: l => calls base id k l
    end.
  Definition mk (prec : nat) (v c : list T) (cs : option (list T * bool)) (s : dstate) (f : bool) : ind T :=
    {| ivec := v; icosts := c; isigned := cs; istate := s; ifeas := f; iprec := prec |}.
  Fixpoint stores (id prec : nat) (log : list gev) : list (nat * ind T) :=
    match log with
    | [] => []
    | EvSync v c cs s f :: l => (id, mk prec v c cs s f) :: stores id prec l
    | _ :: l => stores id prec l
    end.

  Definition set_state (i : ind T) (s : dstate) : ind T :=
    {| ivec := ivec i; icosts := icosts i; isigned := isigned i; istate := s; ifeas := ifeas i; iprec := iprec i |}.

  Variables (e : env T) (gobj : call T -> py_outcome (list T) oexc) (prm : P).
  Hypothesis H_obj : forall c, e_obj e c = classify (gobj c).
  Variables (st : state T) (id : nat) (i : ind T).

  Definition call_of (log : list gev) (v : list T) : call T :=
    {| c_no := length (s_calls st) + pred (ncalls log); c_id := id; c_att := pred (ncalls log); c_vec := v |}.

  Definition o_eval (log : list gev) (v : list T) := inj (gobj (call_of log v)).
  Definition o_gen (log : list gev) (_ : P) := e_reroll e (call_of log (last_vec log [])).
  Definition o_calc (sg c : list T) (f : bool) (prec : nat) : option (list T * bool) :=
    Some (calc_signed_costs_gen mul round sg c f prec).

  Arguments call_of : simpl never.
  Arguments o_eval : simpl never.
  Arguments o_gen : simpl never.
  Arguments o_calc : simpl never.

  (* the model's state rebuilt from the generated result *)
  Definition ext (failed : list (ind T)) (log : list gev) : state T :=
    {| s_heap := s_heap st; s_pop := s_pop st; s_failed := failed;
       s_store := s_store st ++ stores id (iprec i) log;
       s_calls := s_calls st ++ calls (length (s_calls st)) id 0 log |}.

  Definition res_of (o : py_outcome unit gexc) : option result :=
    match o with
    | PyVal _ => Some Done
    | PyExc (GObj (OOther k)) => Some (RaisedFatal k)
    | PyExc (GNew c) => if String.eqb c "RuntimeError" then Some Raised5 else None
    | PyExc (GObj _) => None     (* a transient exception never leaves Job.evaluate *)
    end.

  Definition assemble (g : py_outcome unit gexc * dstate * list T * bool * list T * option (list T * bool)
                           * list (ind T) * list gev) : option (state T * result) :=
    let '(o, s, v, f, c, cs, failed, log) := g in
    match res_of o with
    | Some r => let st' := ext failed log in
                Some (set_heap st' (upd (s_heap st') id (mk (iprec i) v c cs s f)), r)
    | None => None
    end.

  Notation body := (@job_evaluate_l1_body T (option (list T * bool)) dstate P gexc gev (ind T) ltb zero (@iprec T)
                      (e_cons e) set_state Empty Evaluated Failed InProgress g_isinst EvCall EvSync o_eval o_calc
                      (@fresh T) o_gen i (map sgn (e_signs e)) prm).
  Notation after := (@job_evaluate_l1_after T (option (list T * bool)) dstate gexc gev (ind T) GNew).
  Notation Bst := (@Build_job_evaluate_l1_st T (option (list T * bool)) dstate gexc gev (ind T)).

  Lemma ncalls_app : forall l1 l2, ncalls (l1 ++ l2) = ncalls l1 + ncalls l2.
  Proof. induction l1 as [|[v|v c cs s f] l1 IH]; intros l2; cbn; rewrite ?IH; reflexivity. Qed.

  Lemma last_vec_call : forall l d v, last_vec (l ++ [EvCall v]) d = v.
  Proof. induction l as [|[w|w c cs s f] l IH]; intros d v; cbn; rewrite ?IH; reflexivity. Qed.

  Lemma calls_app : forall l1 l2 base k, calls base id k (l1 ++ l2) = calls base id k l1 ++ calls base id (k + ncalls l1) l2.
  Proof.
    induction l1 as [|[v|v c cs s f] l1 IH]; intros l2 base k; cbn.
    - now rewrite Nat.add_0_r.
    - rewrite IH. replace (k + S (ncalls l1)) with (S k + ncalls l1) by lia. reflexivity.
    - apply IH.
  Qed.

  Lemma calls_length : forall l base k, length (calls base id k l) = ncalls l.
  Proof. induction l as [|[v|v c cs s f] l IH]; intros base k; cbn; rewrite ?IH; reflexivity. Qed.

  Lemma stores_app : forall l1 l2 prec, stores id prec (l1 ++ l2) = stores id prec l1 ++ stores id prec l2.
  Proof. induction l1 as [|[v|v c cs s f] l1 IH]; intros l2 prec; cbn; rewrite ?IH; reflexivity. Qed.

  Lemma calls_snoc_sync : forall l base v c cs s f, calls base id 0 (l ++ [EvSync v c cs s f]) = calls base id 0 l.
  Proof. intros. rewrite calls_app. cbn. apply app_nil_r. Qed.
  Lemma stores_snoc_call : forall l prec v, stores id prec (l ++ [EvCall v]) = stores id prec l.
  Proof. intros. rewrite stores_app. cbn. apply app_nil_r. Qed.
  Lemma stores_snoc_sync : forall l prec v c cs s f,
    stores id prec (l ++ [EvSync v c cs s f]) = stores id prec l ++ [(id, mk prec v c cs s f)].
  Proof. intros. rewrite stores_app. reflexivity. Qed.

  Lemma map2_map_combine {A B C : Type} (f : A -> B -> C) : forall a b,
    map2 f a b = map (fun '(x, y) => f x y) (combine a b).
  Proof. induction a as [|x a IH]; intros [|y b]; cbn; try reflexivity. now rewrite IH. Qed.

  Lemma calc_eq : forall signs costs feas prec,
    calc_signed_costs_gen mul round (map sgn signs) costs feas prec = signed_costs roundp smul prec signs costs feas.
  Proof.
    intros signs costs feas prec. unfold calc_signed_costs_gen, signed_costs. cbn zeta.
    f_equal. rewrite map2_map_combine.
    revert costs; induction signs as [|s signs IH]; intros [|c costs]; cbn; try reflexivity.
    now rewrite IH.
  Qed.

  Lemma feasible_eq : forall (f : bool) (g : list T),
    (if Nat.ltb 0 (length g) then forallb (fun v => ltb v zero) g else f) = feasible_of ltb zero f g.
  Proof. intros f [|x g]; reflexivity. Qed.
  Lemma feasible_eq' : forall (f : bool) (g : list T),
    (if match length g with 0 => false | S _ => true end then forallb (fun v => ltb v zero) g else f) = feasible_of ltb zero f g.
  Proof. intros f [|x g]; reflexivity. Qed.

  Lemma stopped : forall l s v f c failed cs log r,
    fold_left body l (Bst s v f c failed cs log (Some r)) = Bst s v f c failed cs log (Some r).
  Proof. induction l as [|x l IH]; intros; cbn; [reflexivity|apply IH]. Qed.

  (* the retry loop: `for i in range(n)` started at attempt a with the individual / problem as they are after the
     events so far *)
  Lemma loop_eq : forall n a s v f c failed cs log,
    ncalls log = a ->
    assemble (after (fold_left body (seq a n) (Bst s v f c failed cs log None))) =
    (let '(i', st', r) := attempts ltb zero roundp smul e id n a (mk (iprec i) v c cs s f) (ext failed log) in
     Some (set_heap st' (upd (s_heap st') id i'), r)).
  Proof.
    induction n as [|n IH]; intros a s v f c failed cs log Hn.
    - cbn. reflexivity.
    - cbn [seq fold_left attempts].
      unfold attempt, job_evaluate_l1_body at 2. cbn -[fold_left seq].
      rewrite ?feasible_eq, ?feasible_eq'.
      unfold next_call. cbn -[fold_left seq].
      rewrite H_obj. unfold o_eval.
      assert (Hc : call_of (log ++ [EvCall v]) v =
                   {| c_no := length (s_calls st ++ calls (length (s_calls st)) id 0 log); c_id := id; c_att := a; c_vec := v |}).
      { unfold call_of. rewrite ncalls_app, app_length, calls_length, Hn. cbn. rewrite Nat.add_1_r. reflexivity. }
      rewrite Hc.
      set (cl := {| c_no := _; c_id := id; c_att := a; c_vec := v |}) in *.
      assert (Hcalls : calls (length (s_calls st)) id 0 (log ++ [EvCall v]) =
                       calls (length (s_calls st)) id 0 log ++ [cl]).
      { rewrite calls_app. cbn. subst cl. rewrite app_length, calls_length, Hn. reflexivity. }
      destruct (gobj cl) as [costs|[| |k]] eqn:Hg; cbn -[fold_left seq].
      + (* the objective answers *)
        rewrite stopped. cbn. unfold ext, o_calc, add_store, log_call, set_heap, mk. cbn.
        rewrite calc_eq, calls_snoc_sync, stores_snoc_sync, stores_snoc_call, Hcalls. unfold mk. rewrite !app_assoc. reflexivity.
      + (* TimeoutError *)
        rewrite IH by (rewrite ncalls_app; cbn; lia).
        unfold o_gen. rewrite last_vec_call, Hc. fold cl.
        unfold ext, add_failed, log_call, mk, mk_failed, set_state, fresh. cbn.
        rewrite stores_snoc_call, Hcalls, !app_assoc. reflexivity.
      + (* RuntimeError *)
        rewrite IH by (rewrite ncalls_app; cbn; lia).
        unfold o_gen. rewrite last_vec_call, Hc. fold cl.
        unfold ext, add_failed, log_call, mk, mk_failed, set_state, fresh. cbn.
        rewrite stores_snoc_call, Hcalls, !app_assoc. reflexivity.
      + (* any other exception: re-raised *)
        rewrite stopped. cbn. unfold ext, log_call, set_heap, mk. cbn.
        rewrite stores_snoc_call, Hcalls, !app_assoc. reflexivity.
  Qed.

  Lemma upd_same {A : Type} : forall (l : list A) n x, nth_error l n = Some x -> upd l n x = l.
  Proof.
    induction l as [|y l IH]; intros [|n] x Hx; cbn in *; try discriminate; try reflexivity.
    - now inversion Hx.
    - now rewrite IH.
  Qed.

  Lemma ext_nil : ext (s_failed st) [] = st.
  Proof. unfold ext. cbn. rewrite !app_nil_r. destruct st; reflexivity. Qed.

  Lemma state_case {X : Type} (s : dstate) (A B : X) :
    match s with Evaluated => A | _ => B end = if dstate_eqb s Evaluated then A else B.
  Proof. destruct s; reflexivity. Qed.

  Lemma mk_eta : mk (iprec i) (ivec i) (icosts i) (isigned i) (istate i) (ifeas i) = i.
  Proof. destruct i; reflexivity. Qed.

  Notation gen := (@job_evaluate_gen T (option (list T * bool)) dstate P gexc gev (ind T) ltb zero (@istate T) (@ivec T)
                     (@ifeas T) (@icosts T) (@isigned T) (@iprec T) dstate_eqb (e_cons e) set_state Empty Evaluated Failed
                     InProgress g_isinst GNew EvCall EvSync o_eval o_calc (@fresh T) o_gen).

  (* Job.evaluate(heap[id]) as translated = the model's job_evaluate: same final individual, same problem.failed,
     same store snapshots in the same order, same objective calls in the same order, same result *)
  Theorem job_evaluate_gen_eq_model_sect :
    nth_error (s_heap st) id = Some i ->
    Some (job_evaluate ltb zero roundp smul e st id) = assemble (gen i (map sgn (e_signs e)) prm (s_failed st)).
  Proof.
    intros Hi. unfold job_evaluate. rewrite Hi. unfold job_evaluate_gen. cbn zeta.
    rewrite state_case. destruct (dstate_eqb (istate i) Evaluated) eqn:Hq; cbn [negb].
    - (* already EVALUATED: nothing happens *)
      cbn. rewrite mk_eta, ext_nil. unfold set_heap. rewrite (upd_same _ _ _ Hi). destruct st; reflexivity.
    - unfold job_evaluate_l1_run. rewrite loop_eq by reflexivity. rewrite mk_eta, ext_nil.
      destruct (attempts ltb zero roundp smul e id 5 0 i st) as [[i' st'] r]. reflexivity.
  Qed.
End JobEquiv.

Theorem job_evaluate_gen_eq_model : forall (T P : Type) (ltb : T -> T -> bool) (zero : T) (mul : T -> T -> T)
    (round : T -> nat -> T) (sgn : bool -> T) (e : env T) (gobj : call T -> py_outcome (list T) oexc) (prm : P),
    (forall c, e_obj e c = classify (gobj c)) ->
    forall (st : state T) (id : nat) (i : ind T),
    nth_error (s_heap st) id = Some i ->
    Some (job_evaluate ltb zero (fun p y => round y p) (fun b x => mul (sgn b) x) e st id) =
    assemble st id i
      (@job_evaluate_gen T (option (list T * bool)) dstate P gexc gev (ind T) ltb zero (@istate T) (@ivec T)
         (@ifeas T) (@icosts T) (@isigned T) (@iprec T) dstate_eqb (e_cons e) set_state Empty Evaluated Failed
         InProgress g_isinst GNew EvCall EvSync (o_eval gobj st id) (o_calc mul round) (@fresh T) (o_gen e st id)
         i (map sgn (e_signs e)) prm (s_failed st)).
Proof. intros. now apply job_evaluate_gen_eq_model_sect. Qed.

(* every model environment is covered: its objective is `classify` of an objective of the generated world *)
Lemma classify_surjective : forall (T : Type) (o : outcome T), exists g, o = classify g.
Proof.
  intros T [c| |k]; [exists (PyVal c)|exists (PyExc ORuntime)|exists (PyExc (OOther k))]; reflexivity.
Qed.

(* the binary64 instance generated by the translator pins the operator and the literal of the feasibility test:
   `v < 0.0` with IEEE-754 `<` *)
From Coq Require Import Floats.
Corollary job_evaluate_gen_float :
  @job_evaluate_gen_f = fun SC dstate P exc ev ind => @job_evaluate_gen float SC dstate P exc ev ind PrimFloat.ltb 0%float.
Proof. reflexivity. Qed.

(* Print Assumptions of the theorems above is run by harness/core.py translated_obligations (qualified names, whitelist) *)
