(* The definitions generated from artap/datastore.py (SqliteDataStore.sync_individual, sync_all) by tools/py2coq_eff.py
   on THIS run have the control structure of the models: Model/Crash.v resync / sync_all_steps (one execute per
   individual in order, then ONE commit, on the connection opened at entry) and the retry rule that Model/Parallel.v
   (XRefused) and the C11 protocol assume (on sqlite3.OperationalError - and on nothing else - the same call is made
   again; the refused statement is the only thing that happened in between).  For all inputs: the answers of
   execute / commit / the recursive call are arbitrary functions of the history.  Compiled per run against the
   freshly generated ArtapGen.StoreGen; not part of the normal build.

   Reading of the generated interface:
     ind, ROW     an individual := its id; the row `[individual.id, json.dumps(individual.to_dict(), ...)]` is a NAMED
                  term of the spec (its text is pinned; what to_dict / JSON produce is Model/Store.v, C10) := the id
     CONN, CUR    a connection := its name; its cursor := the same name
     writable     the named flag `self.mode == 'write' or self.mode == 'rewrite'`
     exc          Locked (sqlite3.OperationalError) or any other error
     ev           EConn, EExec c i, ECommit c, ERetry i (the recursive call), in program order *)
From Coq Require Import String.
From Coq Require Import List ZArith Bool Arith Lia.
From Artap Require Import Model.Store Model.Crash.
From ArtapGen Require Import GenTactics StoreGen.
Import ListNotations.
Local Open Scope list_scope.

Inductive sexc := Locked | OtherErr (k : nat).
Definition s_isinst (x : sexc) (c : string) : bool :=
  match x with Locked => String.eqb c "sqlite3.OperationalError" | OtherErr _ => false end.
Inductive sev := EConn | EExec (c i : Z) | ECommit (c : Z) | ERetry (i : Z).

Definition out := py_outcome unit sexc.
Definition norm (o : out) : out := match o with PyVal _ => PyVal tt | PyExc x => PyExc x end.

Section StoreEquiv.
  (* the world: which connection self.conn() returns, what execute / commit / the recursive call answer, as functions
     of the history *)
  Variables (oc : list sev -> Z) (fex fcm : list sev -> out) (frt : list sev -> out).

  Notation sync1 := (@sync_individual_gen Z Z Z unit Z sexc sev s_isinst (fun _ i => i) EConn (fun c _ r => EExec c r) ECommit
                       ERetry oc (fun c => c) (fun log _ _ _ => fex log) (fun log _ => fcm log) (fun log _ => frt log)).
  Notation syncall := (@sync_all_gen Z Z Z unit Z sexc sev (fun _ i => i) EConn (fun c _ r => EExec c r) ECommit
                         oc (fun c => c) (fun log _ _ _ => fex log) (fun log _ => fcm log)).

  (* ---------------------------------------------------------------- sync_individual *)
  Definition sync_spec (writable : bool) (i : Z) : out * list sev :=
    if writable then
      let conn := oc [EConn] in
      let l1 := [EConn; EExec conn i] in
      match fex l1 with
      | PyVal _ =>
          let l2 := l1 ++ [ECommit conn] in
          match fcm l2 with
          | PyVal _ => (PyVal tt, l2)
          | PyExc Locked => (norm (frt (l2 ++ [ERetry i])), l2 ++ [ERetry i])      (* locked: the same call again *)
          | PyExc e => (PyExc e, l2)
          end
      | PyExc Locked => (norm (frt (l1 ++ [ERetry i])), l1 ++ [ERetry i])          (* locked: the same call again *)
      | PyExc e => (PyExc e, l1)
      end
    else (PyVal tt, []).

  Theorem sync_individual_gen_eq_model_sect : forall (i : Z) (writable : bool),
    sync1 i tt writable = sync_spec writable i.
  Proof.
    intros i writable. unfold sync_individual_gen, sync_spec. destruct writable; [|reflexivity]. cbn [app].
    destruct (fex _) as [u|[|k]]; cbn; try reflexivity.
    - destruct (fcm _) as [u'|[|k]]; cbn; try reflexivity.
      destruct (frt _) as [u''|e]; reflexivity.
    - destruct (frt _) as [u''|e]; reflexivity.
  Qed.

  (* the completed store statements of an event log, as steps of Model/Crash.v *)
  Fixpoint crash_of (log : list sev) : list step :=
    match log with
    | [] => []
    | EExec c i :: l => SExec c i :: crash_of l
    | ECommit c :: l => SCommit c :: crash_of l
    | _ :: l => crash_of l
    end.

  (* when the database accepts both statements: execute, commit, return = Crash.resync on the connection opened at
     entry; when it is locked: the statement refused, then the same call, nothing else; any other error leaves the
     function at once; a store that is not writable does nothing *)
  Theorem sync_individual_gen_is_resync_sect : forall (i : Z),
    let conn := oc [EConn] in
    (forall u u', fex [EConn; EExec conn i] = PyVal u -> fcm [EConn; EExec conn i; ECommit conn] = PyVal u' ->
       fst (sync1 i tt true) = PyVal tt /\ crash_of (snd (sync1 i tt true)) ++ [SReturn i] = resync conn i) /\
    (fex [EConn; EExec conn i] = PyExc Locked ->
       snd (sync1 i tt true) = [EConn; EExec conn i; ERetry i] /\ fst (sync1 i tt true) = norm (frt [EConn; EExec conn i; ERetry i])) /\
    (forall u, fex [EConn; EExec conn i] = PyVal u -> fcm [EConn; EExec conn i; ECommit conn] = PyExc Locked ->
       snd (sync1 i tt true) = [EConn; EExec conn i; ECommit conn; ERetry i] /\
       fst (sync1 i tt true) = norm (frt [EConn; EExec conn i; ECommit conn; ERetry i])) /\
    (forall k, fex [EConn; EExec conn i] = PyExc (OtherErr k) -> sync1 i tt true = (PyExc (OtherErr k), [EConn; EExec conn i])) /\
    sync1 i tt false = (PyVal tt, []).
  Proof.
    intros i conn. rewrite !sync_individual_gen_eq_model_sect. unfold sync_spec. fold conn. cbn [app].
    repeat split.
    - rewrite H, H0. reflexivity.
    - rewrite H, H0. reflexivity.
    - rewrite H. reflexivity.
    - rewrite H. reflexivity.
    - rewrite H, H0. reflexivity.
    - rewrite H, H0. reflexivity.
    - intros k H. rewrite H. reflexivity.
  Qed.

  (* ---------------------------------------------------------------- sync_all *)
  Fixpoint exec_all (c : Z) (l : list Z) (log : list sev) : option sexc * list sev :=
    match l with
    | [] => (None, log)
    | i :: l' => let log' := log ++ [EExec c i] in
                 match fex log' with PyVal _ => exec_all c l' log' | PyExc e => (Some e, log') end
    end.

  Definition sync_all_spec (writable : bool) (inds : list Z) : out * list sev :=
    if writable then
      let conn := oc [EConn] in
      match exec_all conn inds [EConn] with
      | (Some e, log) => (PyExc e, log)                       (* an error ends the function: no commit *)
      | (None, log) => (norm (fcm (log ++ [ECommit conn])), log ++ [ECommit conn])
      end
    else (PyVal tt, []).

  Notation body := (@sync_all_l1_body Z Z unit Z sexc sev (fun _ i => i) (fun c _ r => EExec c r) (fun log _ _ _ => fex log)).
  Notation Bst := (@Build_sync_all_l1_st sexc sev).

  Lemma all_stopped : forall l c log r, fold_left (body tt c) l (Bst log (Some r)) = Bst log (Some r).
  Proof. induction l as [|x l IH]; intros; cbn; [reflexivity|apply IH]. Qed.

  Lemma all_loop : forall l c log,
    fold_left (body tt c) l (Bst log None) =
    match exec_all c l log with
    | (Some e, log') => Bst log' (Some (PyExc e, log'))
    | (None, log') => Bst log' None
    end.
  Proof.
    induction l as [|i l IH]; intros c log; cbn [fold_left exec_all]; [reflexivity|].
    unfold sync_all_l1_body at 2. cbn [sync_all_l1_ret sync_all_l1_v1].
    destruct (fex (log ++ [EExec c i])) as [u|e]; [apply IH|apply all_stopped].
  Qed.

  Theorem sync_all_gen_eq_model_sect : forall (inds : list Z) (writable : bool),
    syncall tt inds writable = sync_all_spec writable inds.
  Proof.
    intros inds writable. unfold sync_all_gen, sync_all_spec. destruct writable; [|reflexivity]. cbn [app].
    unfold sync_all_l1_run. rewrite all_loop.
    destruct (exec_all (oc [EConn]) inds [EConn]) as [[e|] log]; unfold sync_all_l1_after; cbn; [reflexivity|].
    destruct (fcm _) as [u|e]; reflexivity.
  Qed.

  Lemma crash_of_app : forall l1 l2, crash_of (l1 ++ l2) = crash_of l1 ++ crash_of l2.
  Proof. induction l1 as [|[|c i|c|i] l1 IH]; intros l2; cbn; rewrite ?IH; reflexivity. Qed.

  Lemma exec_all_ok : (forall log, exists u, fex log = PyVal u) ->
    forall l c log, exec_all c l log = (None, log ++ map (EExec c) l).
  Proof.
    intros Hok. induction l as [|i l IH]; intros c log; cbn [exec_all map]; [now rewrite app_nil_r|].
    destruct (Hok (log ++ [EExec c i])) as [u Hu]. rewrite Hu, IH, <- app_assoc. reflexivity.
  Qed.

  (* when the database accepts every statement: one execute per individual in order, then one commit, then the
     returns = Crash.sync_all_steps on the connection opened at entry *)
  Theorem sync_all_gen_is_sync_all_steps_sect : forall (inds : list Z),
    (forall log, exists u, fex log = PyVal u) -> (forall log, exists u, fcm log = PyVal u) ->
    fst (syncall tt inds true) = PyVal tt /\
    crash_of (snd (syncall tt inds true)) ++ map SReturn inds = sync_all_steps (oc [EConn]) inds.
  Proof.
    intros inds Hex Hcm. rewrite sync_all_gen_eq_model_sect. unfold sync_all_spec.
    rewrite (exec_all_ok Hex). destruct (Hcm (([EConn] ++ map (EExec (oc [EConn])) inds) ++ [ECommit (oc [EConn])])) as [u Hu].
    rewrite Hu. cbn [fst snd norm]. split; [reflexivity|].
    unfold sync_all_steps. rewrite !crash_of_app. cbn [crash_of app].
    assert (Hm : forall c l, crash_of (map (EExec c) l) = map (SExec c) l).
    { intros c l. induction l as [|x l IH]; cbn; rewrite ?IH; reflexivity. }
    rewrite Hm, <- app_assoc. reflexivity.
  Qed.
End StoreEquiv.

Definition sync_individual_gen_eq_model := @sync_individual_gen_eq_model_sect.
Definition sync_individual_gen_is_resync := @sync_individual_gen_is_resync_sect.
Definition sync_all_gen_eq_model := @sync_all_gen_eq_model_sect.
Definition sync_all_gen_is_sync_all_steps := @sync_all_gen_is_sync_all_steps_sect.

(* Print Assumptions of the theorems above is run by harness/core.py translated_obligations (qualified names, whitelist) *)
