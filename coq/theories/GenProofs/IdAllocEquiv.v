(* Individual.__init__ (artap/individual.py), its first two statements, translated on this run by
   tools/py2coq_heap.py (prefix mode; the class attribute Individual.counter is a global cell, `self` an object of
   the store with the field id): the new object takes the current value of the ONE counter shared by all classes,
   and the counter grows by one.  Hence objects constructed one after the other carry pairwise different ids - the
   hypothesis NoDup (map iid pop) of the C02 theorems, which Selector.individual (the lookup by id of the sorter,
   GenProofs/FndsEquiv.v) relies on.  What follows the two statements in __init__ is not translated. *)
From Coq Require Import List Arith Lia.
From ArtapGen Require Import GenTactics IdAllocGen.
Import ListNotations.

Theorem alloc_id_gen_eq : forall (self : nat) (h : nat -> nat) (c : nat),
  alloc_id_gen self h c = h_ret (tt, h_upd h self c, c + 1).
Proof. reflexivity. Qed.

(* constructing the objects objs one after the other, from the store h and the counter value c *)
Fixpoint alloc_ids (objs : list nat) (h : nat -> nat) (c : nat) : (nat -> nat) * nat :=
  match objs with
  | [] => (h, c)
  | o :: objs' =>
      match alloc_id_gen o h c with
      | inl (inr (_, h', c')) => alloc_ids objs' h' c'
      | _ => (h, c)
      end
  end.

Lemma alloc_ids_frame : forall objs h c o, ~ In o objs -> fst (alloc_ids objs h c) o = h o.
Proof.
  induction objs as [|x objs IH]; intros h c o Hn; [reflexivity|].
  cbn [alloc_ids]. rewrite alloc_id_gen_eq. cbv beta iota. unfold h_ret.
  rewrite IH by (intros H; apply Hn; right; exact H).
  unfold h_upd. destruct (Nat.eqb_spec o x) as [->|_]; [exfalso; apply Hn; left; reflexivity|reflexivity].
Qed.

Theorem alloc_ids_distinct : forall objs h c, NoDup objs ->
  map (fst (alloc_ids objs h c)) objs = seq c (length objs) /\
  snd (alloc_ids objs h c) = c + length objs /\
  NoDup (map (fst (alloc_ids objs h c)) objs).
Proof.
  assert (G : forall objs h c, NoDup objs ->
              map (fst (alloc_ids objs h c)) objs = seq c (length objs) /\ snd (alloc_ids objs h c) = c + length objs).
  { induction objs as [|x objs IH]; intros h c Hnd; [cbn; split; [reflexivity|lia]|].
    inversion Hnd as [|? ? Hx Hnd']; subst.
    cbn [alloc_ids]. rewrite alloc_id_gen_eq. cbv beta iota. unfold h_ret.
    destruct (IH (h_upd h x c) (c + 1) Hnd') as [E1 E2]. cbn [map length seq]. split.
    - rewrite alloc_ids_frame by exact Hx. unfold h_upd at 1. rewrite Nat.eqb_refl. f_equal.
      rewrite E1, Nat.add_1_r. reflexivity.
    - rewrite E2. lia. }
  intros objs h c Hnd. destruct (G objs h c Hnd) as [E1 E2]. repeat split; try assumption.
  rewrite E1. apply seq_NoDup.
Qed.
