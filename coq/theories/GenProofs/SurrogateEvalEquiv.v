(* The definition generated from artap/surrogate.py (SurrogateModelPredict.evaluate) by tools/py2coq.py on
   THIS run makes the decisions of the hand-written model Model/Surrogate.v predict_evaluate, for all
   states and requests.  Compiled per run against the freshly generated ArtapGen.SurrogateEvalGen.

   Reading of the generated interface:
     o_self_problem_predict       the problem's predict hook (None = it declines)        := r_hook of the request
     o_self_evaluate_individual   self.evaluate_individual (translated as a call; its own guard is pinned by
                                  SurrogateGuardEquiv.v)                                    := r_true of the request
     has_predict                  the value of `'predict' in dir(self.problem)`            := has_hook
     result                       (returned values, predict_counter after the call, event log); the event log
                                  lists the effectful calls in order: 1 = the hook, 2 = evaluate_individual
   The model's `kind` (which branch answered) and its hook_log / obj_log entries are exactly this event log. *)
From Coq Require Import List ZArith Bool Arith.
From Artap Require Import Model.Surrogate.
From ArtapGen Require Import GenTactics SurrogateEvalGen.
Import ListNotations.

Section SurrogateEvalEquiv.
  Context {V C I : Type}.
  Variables (train_step : Z) (has_hook : bool) (train_out : nat -> bool).

  (* the calls the model makes: the hook iff trained && has_hook, then evaluate_individual iff kind = KEval *)
  Definition trace (consulted : bool) (kd : kind) : list nat :=
    (if consulted then [1] else []) ++ (match kd with KEval => [2] | KPred => [] end).

  Lemma evaluate_individual_keeps_predict_counter : forall (s : @state V C) r,
    predict_counter (fst (evaluate_individual train_step train_out s r)) = predict_counter s.
  Proof.
    intros s r. unfold evaluate_individual.
    destruct (train_step =? -1)%Z; [reflexivity|]. destruct (train_step =? 0)%Z; [reflexivity|].
    destruct (_ =? 0)%Z; reflexivity.
  Qed.

  Lemma evaluate_individual_outcome : forall (s : @state V C) r,
    snd (evaluate_individual train_step train_out s r) = Raised \/
    snd (evaluate_individual train_step train_out s r) = Ret (r_true r).
  Proof.
    intros s r. unfold evaluate_individual.
    destruct (train_step =? -1)%Z; [now right|]. destruct (train_step =? 0)%Z; [now left|].
    destruct (_ =? 0)%Z; now right.
  Qed.

  Theorem surrogate_evaluate_gen_eq_model : forall (s : @state V C) (r : @req V C) (i : I),
    let g := surrogate_evaluate_gen (fun _ : I => r_hook r) (fun _ : I => r_true r) i (trained s) (predict_counter s) has_hook in
    let m := predict_evaluate train_step has_hook train_out s r in
    snd (fst g) = predict_counter (fst m) /\
    snd g = trace (trained s && has_hook) (fst (snd m)) /\
    (snd (snd m) = Raised \/ snd (snd m) = Ret (fst (fst g))).
  Proof.
    intros s r i. unfold surrogate_evaluate_gen, predict_evaluate, trace; try unfold surrogate_evaluate_k1.
    (* every combination of trained / has_hook / the hook's answer; what evaluate_individual does to the state
       is summarised by the two lemmas above *)
    destruct (trained s); destruct has_hook; cbn [andb]; destruct (r_hook r) as [v|];
      repeat match goal with
             | |- context [evaluate_individual train_step train_out ?st r] =>
                 let Hp := fresh "Hp" in let Ho := fresh "Ho" in
                 pose proof (evaluate_individual_keeps_predict_counter st r) as Hp;
                 pose proof (evaluate_individual_outcome st r) as Ho;
                 destruct (evaluate_individual train_step train_out st r)
             end;
      cbn in *; rewrite ?Nat.add_1_r; repeat split; auto.
  Qed.
End SurrogateEvalEquiv.

(* Print Assumptions of the theorems above is run by harness/core.py translated_obligations (qualified names, whitelist) *)
