(* The definition generated from artap/archive.py (Archive.add) by tools/py2coq.py on THIS run equals the
   hand-written model Model/Archive.v archive_add, for all archives and newcomers.  Compiled per run
   against the freshly generated ArtapGen.ArchiveGen; not part of the normal build.

   Reading of the generated interface:
     ind, f_ind_costs_signed      an Individual and its costs_signed (an opaque value of type C)
     o_self__dominance_compare    self._dominance.compare on two costs_signed
     eqb_C a b                    Python's a == b on two costs_signed (list equality)
     result                       (returned flag, self._contents after the call); None = an exception
   The model works on individuals directly: cmp x y = compare (costs x) (costs y), ceq likewise.
   What the proof shows beyond the case analysis: the index `index - number_of_deleted_solutions` (an
   integer subtraction, a negative value would count from the END of the list in Python) is never
   negative and always denotes the member under examination, so no exception can occur. *)
From Coq Require Import List ZArith Bool Arith Lia.
From Artap Require Import Model.Archive.
From ArtapGen Require Import GenTactics ArchiveGen.
Import ListNotations.

Section ArchiveEquiv.
  Context {I K : Type} (cost : I -> K) (eqK : K -> K -> bool) (cmpK : K -> K -> nat).
  Variable x : I.

  Definition cmp' (a b : I) : nat := cmpK (cost a) (cost b).
  Definition ceq' (a b : I) : bool := eqK (cost a) (cost b).

  Notation body := (archive_add_l1_body cost eqK cmpK x).

  Lemma archive_stop : forall l st,
    archive_add_l1_ret st <> None \/ archive_add_l1_brk st = true -> fold_left body l st = st.
  Proof.
    apply (fold_left_stop _ (fun st => archive_add_l1_ret st <> None \/ archive_add_l1_brk st = true)).
    intros st y Hs. unfold archive_add_l1_body. destruct (archive_add_l1_ret st); [reflexivity|].
    destruct Hs as [Hs|Hs]; [congruence|]. cbv zeta. rewrite Hs. reflexivity.
  Qed.

  Lemma py_zindex_sub : forall i d n, d <= i -> py_zindex (Z.of_nat i - Z.of_nat d) n = Some (i - d).
  Proof.
    intros i d n H. unfold py_zindex. destruct (Z.leb_spec 0 (Z.of_nat i - Z.of_nat d)); [|lia].
    f_equal. lia.
  Qed.

  Lemma py_del_nth_mid : forall (kept : list I) y r, py_del_nth (length kept) (kept ++ y :: r) = Some (kept ++ r).
  Proof. induction kept as [|a kept IH]; intros; cbn; [reflexivity|]. now rewrite IH. Qed.

  Lemma remove_nth_mid : forall (kept : list I) y r, remove_nth (length kept) (kept ++ y :: r) = kept ++ r.
  Proof. induction kept as [|a kept IH]; intros; cbn; [reflexivity|]. now rewrite IH. Qed.

  (* what follows the loop, on the model's triple (live list, is_dominated, is_contained) *)
  Definition finish (r : list I * bool * bool) : option (bool * list I) :=
    let '(live, d, c) := r in if negb d && negb c then Some (true, live ++ [x]) else Some (false, live).

  Local Arguments archive_add_l1_after : simpl never.
  Local Arguments Z.sub : simpl never.
  Local Arguments Z.of_nat : simpl never.

  Lemma archive_loop : forall snap kept index deleted,
    deleted <= index -> length kept = index - deleted ->
    archive_add_l1_after x (fold_left body snap
      (Build_archive_add_l1_st index (kept ++ snap) deleted false false false None)) =
    finish (add_loop cmp' ceq' x snap index deleted (kept ++ snap)).
  Proof.
    induction snap as [|y snap IH]; intros kept index deleted Hle Hk.
    - reflexivity.
    - cbn [add_loop]. loop_step. change (cmp' x y) with (cmpK (cost x) (cost y)).
      destruct (cmpK (cost x) (cost y)) as [|[|[|n]]] eqn:E; cbn.
      + (* 0: incomparable; equal costs = already contained *)
        change (ceq' x y) with (eqK (cost x) (cost y)). destruct (eqK (cost x) (cost y)).
        * rewrite archive_stop by (right; reflexivity). reflexivity.
        * replace (kept ++ y :: snap) with ((kept ++ [y]) ++ snap) by (now rewrite <- app_assoc).
          apply IH; [lia|rewrite app_length; cbn [length]; lia].
      + (* 1: the newcomer dominates y: y is deleted from the live list *)
        rewrite py_zindex_sub by exact Hle. rewrite <- Hk, py_del_nth_mid, remove_nth_mid.
        rewrite Nat.add_1_r. apply IH; lia.
      + (* 2: the newcomer is dominated: break *)
        rewrite archive_stop by (right; reflexivity). reflexivity.
      + (* any other verdict: no branch is taken *)
        replace (kept ++ y :: snap) with ((kept ++ [y]) ++ snap) by (now rewrite <- app_assoc).
        apply IH; [lia|rewrite app_length; cbn [length]; lia].
  Qed.

  Theorem archive_add_gen_eq_model : forall a,
    archive_add_gen cost eqK cmpK x a = let '(live, accepted) := archive_add cmp' ceq' a x in Some (accepted, live).
  Proof.
    intros a. unfold archive_add_gen, archive_add. destruct a as [|y a]; [reflexivity|].
    cbn [length Nat.eqb]. unfold archive_add_l1_run.
    pose proof (archive_loop (y :: a) [] 0 0 (le_n 0) eq_refl) as L. cbn [app] in L. rewrite L.
    destruct (add_loop cmp' ceq' x (y :: a) 0 0 (y :: a)) as [[live d] c]. unfold finish.
    destruct (negb d && negb c); reflexivity.
  Qed.
End ArchiveEquiv.

(* ---------------------------------------------------------------------------------------------- *)
(* Archive.truncate(size, getter, larger_preferred) for getter = 'crowding_distance' (fixed by the spec):
   sorted(contents, key=feature) is the stable sort by `<` on the feature (Base/StableSort.v ssort with
   leb a b = not (key b < key a), the model's key_leb), reversed if larger values are preferred, cut. *)
From Artap Require Import Base.StableSort.

Section TruncateEquiv.
  Context {T I : Type} (ltb : T -> T -> bool) (key : I -> T).

  Definition key_leb' (a b : I) : bool := negb (ltb (key b) (key a)).

  Lemma py_sorted_ssort : forall (leb : I -> I -> bool) l, py_sorted leb l = ssort leb l.
  Proof.
    intros leb l. unfold py_sorted, ssort. induction l as [|a l IH]; [reflexivity|]. cbn [fold_right]. rewrite IH.
    generalize (fold_right (insert leb) [] l). intros r. induction r as [|b r IHr]; [reflexivity|].
    cbn. destruct (leb a b); [reflexivity|]. now rewrite IHr.
  Qed.

  Theorem archive_truncate_gen_eq_model : forall (a : list I) size larger_preferred,
    archive_truncate_gen ltb key size larger_preferred a = archive_truncate key_leb' a size larger_preferred.
  Proof.
    intros a size lp. unfold archive_truncate_gen, archive_truncate; try unfold archive_truncate_k1.
    rewrite py_sorted_ssort. destruct lp; reflexivity.
  Qed.
End TruncateEquiv.

(* the binary64 instance pins the comparison: Python's `<` on the float features *)
From Coq Require Import Floats.
Corollary archive_truncate_gen_float : forall (I : Type) (key : I -> float) (a : list I) size lp,
  archive_truncate_gen_f key size lp a = archive_truncate (key_leb' PrimFloat.ltb key) a size lp.
Proof. intros. exact (archive_truncate_gen_eq_model PrimFloat.ltb key a size lp). Qed.

(* Print Assumptions of the theorems above is run by harness/core.py translated_obligations (qualified names, whitelist) *)
