(* Guard mode: the condition under which SurrogateModelPredict.evaluate_individual reaches
   `self.train()`, translated from artap/surrogate.py by tools/py2coq.py on THIS run, is the condition
   under which the model Model/Surrogate.v evaluate_individual trains (its train log grows by one entry),
   as a function of train_step and of the value of eval_counter at the test (the model's counter after
   count_eval); None = the ZeroDivisionError of train_step = 0 (the model's Raised).
   Only the enclosing `if` tests are translated in this mode: that the counter read by the test is the
   one incremented two statements earlier is covered by the correspondence, not by this theorem; a test
   that reads anything but self.train_step / self.eval_counter no longer translates. *)
From Coq Require Import List ZArith Bool Arith Lia.
From Artap Require Import Model.Surrogate.
From ArtapGen Require Import GenTactics SurrogateGuardGen.
Import ListNotations.

Section SurrogateGuardEquiv.
  Context {V C : Type}.

  Theorem train_guard_gen_eq_model : forall (train_step : Z) (train_out : nat -> bool) (s : @state V C) (r : @req V C),
    train_guard_gen train_step (Z.of_nat (S (eval_counter s))) =
    match evaluate_individual train_step train_out s r with
    | (s', Raised) => None
    | (s', Ret _) => Some (Nat.eqb (length (train_log s')) (S (length (train_log s))))
    end.
  Proof.
    intros ts tout s r. unfold train_guard_gen, evaluate_individual.
    change (eval_counter (add_data (count_eval (log_obj s (r_vec r))) (r_vec r) (r_true r))) with (S (eval_counter s)).
    case_ifs; cbn [train_log do_train add_data count_eval log_obj fst snd];
      rewrite ?app_length; cbn [length]; try reflexivity; try congruence;
      try (f_equal; symmetry; first [apply Nat.eqb_eq; lia | apply Nat.eqb_neq; lia]).
  Qed.
End SurrogateGuardEquiv.

(* Print Assumptions of the theorems above is run by harness/core.py translated_obligations (qualified names, whitelist) *)
