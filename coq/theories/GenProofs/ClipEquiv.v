(* The definition generated from artap/operators.py (Operator.clip) by tools/py2coq.py on THIS run
   equals the hand-written model Model/Variation.v clip, for all inputs.  Compiled per run against
   the freshly generated ArtapGen.ClipGen; not part of the normal build. *)
From Coq Require Import List ZArith Bool Arith.
From Artap Require Import Model.Variation.
From ArtapGen Require Import GenTactics ClipGen.

Section ClipEquiv.
  Context {T : Type} (ltb : T -> T -> bool).

  Theorem clip_gen_eq_model : forall v lo hi, clip_gen ltb v lo hi = clip ltb v lo hi.
  Proof.
    intros v lo hi. unfold clip_gen, clip, pmax, pmin.
    try unfold clip_py_min; try unfold clip_py_max. finish.
  Qed.
End ClipEquiv.

From Coq Require Import Floats.
Corollary clip_gen_float : forall v lo hi, clip_gen_f v lo hi = clip PrimFloat.ltb v lo hi.
Proof. exact (clip_gen_eq_model PrimFloat.ltb). Qed.

(* Print Assumptions of the theorems above is run by harness/core.py translated_obligations (qualified names, whitelist) *)
