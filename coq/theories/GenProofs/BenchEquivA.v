(* The definitions generated on THIS run by tools/py2coq_bench.py from artap/benchmark_functions.py (classes Rosenbrock,
   Ackley, Sphere, Schwefel, ModifiedEasom, EqualityConstr, Griewank, Michaelwicz, Perm, Rastrigin: `evaluate` and the
   declared data of `set`), instantiated at Coq's reals, equal the hand-written models of Model/Bench.v: for every
   vector (every length) `<Class>_evaluate_gen_R [dimension = length x] x = [<model> x]`, and for every dimension
   `<Class>_set_gen_R n = declared <record> n` (box, criteria, documented optimum, documented coordinates).
   So every C15 theorem about the model is a theorem about what the source says now.  No real-number automation beyond
   `ring` on the accumulators; the literals are syntactically the model's (dec n d = n / d). *)
From Coq Require Import Reals List Arith Lia Lra.
From Artap Require Import Model.Bench Proofs.BenchGenLemmas.
From ArtapGen Require Import BenchGenA.
Import ListNotations.
Local Open Scope R_scope.

Ltac rops := cbv beta iota zeta delta [R_ops o_ltb o_leb o_eqb o_add o_sub o_mul o_div o_neg o_abs o_pow o_exp o_sin o_cos o_sqrt o_pi o_e o_nat o_int o_dec].

Theorem Sphere_evaluate_gen_eq_model : forall x, Sphere_evaluate_gen_R x = [sphere x].
Proof.
  intros. unfold Sphere_evaluate_gen_R, Sphere_evaluate_gen. rops.
  rewrite ?fold_plus_map_sum, ?fold_add_sum_map. unfold sphere. f_equal. ring.   (* loop or sum / np.sum spelling *)
Qed.

Theorem Sphere_set_gen_eq_model : forall n, Sphere_set_gen_R n = declared sphere_b n.
Proof.
  intros. unfold Sphere_set_gen_R, Sphere_set_gen, declared. rops. rewrite map_const_seq. reflexivity.
Qed.

Theorem Ackley_evaluate_gen_eq_model : forall x, Ackley_evaluate_gen_R x = [ackley x].
Proof.
  intros. unfold Ackley_evaluate_gen_R, Ackley_evaluate_gen. rops.
  rewrite fold_left_pair, !fold_add_sum_map, !Rplus_0_l. reflexivity.
Qed.

Theorem Rosenbrock_evaluate_gen_eq_model : forall x, Rosenbrock_evaluate_gen_R (length x) x = [rosenbrock x].
Proof.
  intros. unfold Rosenbrock_evaluate_gen_R, Rosenbrock_evaluate_gen. rops.
  rewrite (fold_adjacent (fun a b => (1 - a) * (1 - a) + (b - a ^ 2) * (b - a ^ 2) * 100) rosenbrock); try reflexivity.
  f_equal. ring.
Qed.

Theorem Rosenbrock_set_gen_eq_model : forall n, Rosenbrock_set_gen_R n = declared rosenbrock_b n.
Proof. intros. unfold Rosenbrock_set_gen_R, Rosenbrock_set_gen, declared. rops. rewrite map_const_seq. reflexivity. Qed.

Theorem Ackley_set_gen_eq_model : forall n, Ackley_set_gen_R n = declared ackley_b n.
Proof. intros. unfold Ackley_set_gen_R, Ackley_set_gen, declared. rops. rewrite map_const_seq. reflexivity. Qed.

(* whatever the loop body is (two statements as in the source, or one re-associated statement): it adds the model's term *)
Theorem Schwefel_evaluate_gen_eq_model : forall x, Schwefel_evaluate_gen_R x = [schwefel x].
Proof.
  intros. unfold Schwefel_evaluate_gen_R, Schwefel_evaluate_gen. rops.
  match goal with |- context [fold_left ?b x _] =>
    assert (H : forall l a, fold_left b l a = a + schwefel l)
      by (induction l as [|c l IH]; intros; simpl;
          [unfold schwefel; simpl; ring | rewrite IH; unfold schwefel, schwefel_term, schwefel_alpha; simpl; ring]);
    rewrite H end.
  f_equal. ring.
Qed.

Theorem Schwefel_set_gen_eq_model : forall n, Schwefel_set_gen_R n = declared schwefel_b n.
Proof. intros. unfold Schwefel_set_gen_R, Schwefel_set_gen, declared. rops. rewrite map_const_seq. reflexivity. Qed.

Theorem ModifiedEasom_evaluate_gen_eq_model : forall x, ModifiedEasom_evaluate_gen_R x = [easom x].
Proof.
  intros. unfold ModifiedEasom_evaluate_gen_R, ModifiedEasom_evaluate_gen. rops.
  rewrite fold_left_pair, fold_mul_prod_map, fold_add_sum_map, Rplus_0_l. reflexivity.
Qed.

Theorem ModifiedEasom_set_gen_eq_model : forall n, ModifiedEasom_set_gen_R n = declared easom_b n.
Proof. intros. unfold ModifiedEasom_set_gen_R, ModifiedEasom_set_gen, declared. rops. rewrite map_const_seq. reflexivity. Qed.

Theorem EqualityConstr_evaluate_gen_eq_model : forall x, EqualityConstr_evaluate_gen_R (length x) x = [eqconstr x].
Proof.
  intros. unfold EqualityConstr_evaluate_gen_R, EqualityConstr_evaluate_gen. rops.
  rewrite fold_left_pair, fold_mul_prod_map, fold_add_sum_map, Rplus_0_l, Rmult_1_l.
  unfold eqconstr, eqc_sum, eqc_prod, eqc_atol, dimR. destruct (Rle_dec _ _); reflexivity.
Qed.

Theorem EqualityConstr_set_gen_eq_model : forall n, EqualityConstr_set_gen_R n = declared eqconstr_b n.
Proof. intros. unfold EqualityConstr_set_gen_R, EqualityConstr_set_gen, declared. rops. rewrite map_const_seq. reflexivity. Qed.

Theorem Griewank_evaluate_gen_eq_model : forall x, Griewank_evaluate_gen_R x = [griewank x].
Proof.
  intros. unfold Griewank_evaluate_gen_R, Griewank_evaluate_gen. rops.
  rewrite fold_left_pair_el, fold_add_sum_idx, fold_mul_prod_idx, sum_idx_const, Rplus_0_l, Rmult_1_l.
  rewrite (prod_idx_ext _ (fun i c => cos (c / sqrt (INR (S i))))) by (intros; rewrite ?INR_add1; reflexivity).
  reflexivity.
Qed.

Theorem Griewank_set_gen_eq_model : forall n, Griewank_set_gen_R n = declared griewank_b n.
Proof. intros. unfold Griewank_set_gen_R, Griewank_set_gen, declared. rops. rewrite map_const_seq. reflexivity. Qed.

Theorem Michaelwicz_evaluate_gen_eq_model : forall x, Michaelwicz_evaluate_gen_R x = [michalewicz x].
Proof.
  intros. unfold Michaelwicz_evaluate_gen_R, Michaelwicz_evaluate_gen. rops.
  rewrite fold_add_sum_idx, Rplus_0_l. unfold michalewicz. do 2 f_equal.
  apply sum_idx_ext. intros. rewrite INR_add1. reflexivity.
Qed.

Theorem Michaelwicz_set_gen_eq_model : forall n, b_dims michalewicz_b n -> Michaelwicz_set_gen_R n = declared michalewicz_b n.
Proof.
  intros n [H | [H | H]]; subst n; unfold Michaelwicz_set_gen_R, Michaelwicz_set_gen, declared; rops; reflexivity.
Qed.

Theorem Michaelwicz_set_gen_rejects : forall n, ~ b_dims michalewicz_b n -> Michaelwicz_set_gen_R n = None.
Proof.
  intros n H. unfold Michaelwicz_set_gen_R, Michaelwicz_set_gen. rops.
  destruct (Nat.eqb_spec n 2); [exfalso; apply H; left; assumption|].
  destruct (Nat.eqb_spec n 5); [exfalso; apply H; right; left; assumption|].
  destruct (Nat.eqb_spec n 10); [exfalso; apply H; right; right; assumption|]. reflexivity.
Qed.

(* ---- Perm: for i in range(1, dimension + 1): for j, d in enumerate(x) *)
Lemma perm_outer_fold : forall x k a, fold_left (fun f i => f + perm_inner i x) (seq 1 k) a = a + perm_outer k x.
Proof.
  induction k; intros; [simpl; ring|].
  rewrite seq_S, fold_left_app, IHk. simpl. ring.
Qed.

Theorem Perm_evaluate_gen_eq_model : forall x, Perm_evaluate_gen_R (length x) x = [perm x].
Proof.
  intros. unfold Perm_evaluate_gen_R, Perm_evaluate_gen. rops.
  rewrite Nat.add_sub. unfold perm. rewrite <- (Rplus_0_l (perm_outer _ _)), <- perm_outer_fold. f_equal.
  apply fold_left_ext. intros f i. rewrite fold_add_sum_idx. unfold perm_inner. f_equal.
  apply sum_idx_ext. intros. rewrite !plus_INR, INR_plus1. replace (INR 1) with 1 by reflexivity.
  rewrite INR_plus1. replace (INR 10) with 10 by (simpl; ring). reflexivity.
Qed.

Theorem Perm_set_gen_eq_model : forall n, Perm_set_gen_R n = declared perm_b n.
Proof.
  intros. unfold Perm_set_gen_R, Perm_set_gen, declared. rops.
  rewrite (map_ext _ (fun j => 1 / INR (S j))) by (intros; rewrite INR_add1; reflexivity). reflexivity.
Qed.

Theorem Rastrigin_evaluate_gen_eq_model : forall x, Rastrigin_evaluate_gen_R (length x) x = [rastrigin x].
Proof.
  intros. unfold Rastrigin_evaluate_gen_R, Rastrigin_evaluate_gen. rops.
  rewrite fold_add_sum_map, mult_INR. replace (INR 10) with 10 by (simpl; ring).
  try rewrite (sum_map_ext' _ (fun c => c ^ 2 - 10 * cos (2 * PI * c))) by (intros; ring).   (* c ** 2 or c * c *)
  reflexivity.
Qed.

Theorem Rastrigin_set_gen_eq_model : forall n, Rastrigin_set_gen_R n = declared rastrigin_b n.
Proof. intros. unfold Rastrigin_set_gen_R, Rastrigin_set_gen, declared. rops. rewrite map_const_seq. reflexivity. Qed.
