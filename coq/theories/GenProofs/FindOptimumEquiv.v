(* The definition generated from artap/results.py (Results.find_optimum) by tools/py2coq.py on THIS run
   equals the hand-written model Model/Results.v find_optimum, for all lists of individuals whose cost
   lists have the requested entry.  Compiled per run against the freshly generated ArtapGen.FindOptimumGen.

   Reading of the generated interface (three boolean expressions are named by the spec, not translated;
   their TEXT is pinned - a changed test no longer matches and the function stops translating):
     has_name      `name`                                          index = goal_index(name) if has_name else 0
     has_criteria  `'criteria' in self.problem.costs[index]`        (the criteria entry is read, its value only
                                                                    enters the next test)
     minimised     `criteria == 'minimize' or criteria is None`     = negb (maximised crit) in the model
   What is translated and proved: the choice between min and max, the key x.costs[index] on every individual,
   the FIRST extremal element (Python's min / max with a key), ValueError on no individuals. *)
From Coq Require Import List ZArith Bool Arith Lia.
From Artap Require Import Model.Results.
From ArtapGen Require Import GenTactics FindOptimumGen.
Import ListNotations.

Section FindOptimumEquiv.
  Context {T S R : Type} (ltb : T -> T -> bool) (d : T) (crit_of : R -> S).
  Variable idx : nat.

  Definition key (x : record T) : option T :=
    match nth_error (r_costs x) idx with Some c => Some c | None => None end.

  Local Arguments key : simpl never.

  Lemma key_cost : forall x, idx < length (r_costs x) -> key x = Some (cost_at d idx x).
  Proof. intros x H. unfold key, cost_at. now rewrite (nth_error_nth' _ d H). Qed.

  Lemma best_min : forall l best, (forall y, In y l -> idx < length (r_costs y)) ->
    py_best_by (fun k b => ltb k b) key best (cost_at d idx best) l = Some (first_min ltb (cost_at d idx) best l).
  Proof.
    induction l as [|y l IH]; intros best H; [reflexivity|].
    cbn [py_best_by first_min]. rewrite key_cost by (apply H; now left).
    destruct (ltb (cost_at d idx y) (cost_at d idx best)); apply IH; intros; apply H; now right.
  Qed.

  Lemma best_max : forall l best, (forall y, In y l -> idx < length (r_costs y)) ->
    py_best_by (fun k b => ltb b k) key best (cost_at d idx best) l = Some (first_max ltb (cost_at d idx) best l).
  Proof.
    induction l as [|y l IH]; intros best H; [reflexivity|].
    cbn [py_best_by first_max]. rewrite key_cost by (apply H; now left).
    destruct (ltb (cost_at d idx best) (cost_at d idx y)); apply IH; intros; apply H; now right.
  Qed.

  Lemma first_min_in : forall l best, In (first_min ltb (cost_at d idx) best l) (best :: l).
  Proof.
    induction l as [|y l IH]; intros best; [now left|]. cbn [first_min].
    destruct (ltb _ _); [specialize (IH y)|specialize (IH best)]; destruct IH as [E|E]; cbn; auto.
  Qed.
  Lemma first_max_in : forall l best, In (first_max ltb (cost_at d idx) best l) (best :: l).
  Proof.
    induction l as [|y l IH]; intros best; [now left|]. cbn [first_max].
    destruct (ltb _ _); [specialize (IH y)|specialize (IH best)]; destruct IH as [E|E]; cbn; auto.
  Qed.

  Theorem find_optimum_gen_generic : forall (pcosts : list R) (gi : nat) (has_name has_criteria : bool) (crit : criteria) (rs : list (record T)),
    idx = (if has_name then gi else 0) ->
    (has_criteria = true -> idx < length pcosts) ->
    (forall y, In y rs -> idx < length (r_costs y)) ->
    find_optimum_gen ltb (@r_costs T) crit_of gi pcosts rs has_name has_criteria (negb (maximised crit)) =
    find_optimum ltb d idx crit rs.
  Proof.
    intros pcosts gi has_name has_criteria crit rs Hidx Hp Hrs.
    unfold find_optimum_gen. rewrite <- Hidx.
    assert (Hk2 : find_optimum_k2 ltb (@r_costs T) rs (negb (maximised crit)) idx [] = find_optimum ltb d idx crit rs).
    { unfold find_optimum_k2, find_optimum, find_optimum_k1.
      change (fun x : record T => match nth_error (r_costs x) idx with Some c => Some c | None => None end) with key.
      destruct rs as [|r rs]; [destruct (negb (maximised crit)); reflexivity|].
      cbn [length Nat.ltb Nat.leb py_extreme_by].
      rewrite (key_cost r) by (apply Hrs; now left).
      assert (Hrs' : forall y, In y rs -> idx < length (r_costs y)) by (intros; apply Hrs; now right).
      destruct (maximised crit); cbn [negb].
      - rewrite best_max by exact Hrs'. rewrite key_cost by (apply Hrs, first_max_in). reflexivity.
      - rewrite best_min by exact Hrs'. rewrite key_cost by (apply Hrs, first_min_in). reflexivity. }
    destruct has_criteria; [|exact Hk2].
    destruct (nth_error pcosts idx) eqn:E; [exact Hk2|].
    apply nth_error_None in E. specialize (Hp eq_refl). lia.
  Qed.
End FindOptimumEquiv.

Theorem find_optimum_gen_eq_model : forall (T S R : Type) (ltb : T -> T -> bool) (d : T) (crit_of : R -> S) idx
    (pcosts : list R) (gi : nat) (has_name has_criteria : bool) (crit : criteria) (rs : list (record T)),
  idx = (if has_name then gi else 0) ->
  (has_criteria = true -> idx < length pcosts) ->
  (forall y, In y rs -> idx < length (r_costs y)) ->
  find_optimum_gen ltb (@r_costs T) crit_of gi pcosts rs has_name has_criteria (negb (maximised crit)) =
  find_optimum ltb d idx crit rs.
Proof. intros. now apply find_optimum_gen_generic. Qed.

(* the binary64 instance pins the comparison: Python's `<` on the float costs *)
From Coq Require Import Floats.
Corollary find_optimum_gen_float : forall (S R : Type) (crit_of : R -> S) gi pcosts (rs : list (record float)) hn hc mn,
  find_optimum_gen_f (@r_costs float) crit_of gi pcosts rs hn hc mn =
  find_optimum_gen PrimFloat.ltb (@r_costs float) crit_of gi pcosts rs hn hc mn.
Proof. intros. reflexivity. Qed.

(* Print Assumptions of the theorems above is run by harness/core.py translated_obligations (qualified names, whitelist) *)
