(* The definitions generated from artap/quality_indicator.py (epsilon_add, gd) by tools/py2coq_np.py on THIS run
   are the hand-written models of Model/Indicators.v, for all fronts (lists of points of any size and dimension).

   epsilon_add: the generated definition is generic in the numeric type (Section variables ltb, sub, zero); its
   instance at the exact rationals (Qltb, Qminus, 0; `np.inf` = the extra element PInf of `ext Q`) is the model
   `epsilon_add` over `qx`: two nested folds, CPython's max / min (the later argument only if strictly better),
   `max(np.subtract(comp_val, ref_val))` = maxdiff.
   gd: the instance at the real numbers (Rplus Rminus Rmult Rdiv Rmin sqrt INR 0) is the model `gd`: the cdist
   matrix with one row per reference point, its column minima (nanmin along axis 0), their sum divided by the
   number of computed points; np.sum as a left fold (immaterial over R).
   Compiled per run against the freshly generated ArtapGen.IndicatorsGen. *)
From Coq Require Import List ZArith QArith Reals Bool Lra.
From Artap Require Import Base.QInst Model.Indicators.
From ArtapGen Require Import GenTactics IndicatorsGen.
Import ListNotations.

Lemma fold_left_morph {A B X} (h : A -> B) (f : A -> X -> A) (g : B -> X -> B) :
  (forall a x, h (f a x) = g (h a) x) -> forall l a, h (fold_left f l a) = fold_left g l (h a).
Proof.
  intros Hs l; induction l as [|x l IH]; intros a; cbn; [reflexivity|]. now rewrite IH, Hs.
Qed.

(* ---- epsilon_add ------------------------------------------------------------------------ *)
Definition qx_of (e : ext Q) : qx :=
  match e with IndicatorsGen.Fin q => Indicators.Fin q | IndicatorsGen.PInf => Indicators.PInf end.

(* max(np.subtract(comp_val, ref_val)) *)
Lemma maxdiff_eq c r : py_max_list Qltb 0%Q (np_subtract Qminus c r) = maxdiff c r.
Proof. reflexivity. Qed.

Lemma inner_step (r : list Q) : forall (a : ext Q) (c : list Q),
  qx_of (py_min (ext_ltb Qltb) (IndicatorsGen.Fin (py_max_list Qltb 0%Q (np_subtract Qminus c r))) a)
  = match qx_of a with
    | Indicators.PInf => Indicators.Fin (maxdiff c r)
    | Indicators.Fin j => Indicators.Fin (pymin (maxdiff c r) j)
    end.
Proof.
  intros a c. rewrite maxdiff_eq. destruct a as [j|]; unfold py_min, ext_ltb, pymin, qx_of.
  - destruct (Qltb j (maxdiff c r)); reflexivity.
  - reflexivity.
Qed.

Lemma inner_eq (r : list Q) (computed : list (list Q)) :
  qx_of (fold_left (fun (eps_j : ext Q) (comp_val : list Q) =>
                      py_min (ext_ltb Qltb) (IndicatorsGen.Fin (py_max_list Qltb 0%Q (np_subtract Qminus comp_val r))) eps_j)
                   computed IndicatorsGen.PInf)
  = eps_inner r computed.
Proof. unfold eps_inner. exact (fold_left_morph qx_of _ _ (inner_step r) computed IndicatorsGen.PInf). Qed.

Lemma outer_step (e j : ext Q) :
  qx_of (py_max (ext_ltb Qltb) e j)
  = match qx_of e, qx_of j with
    | Indicators.Fin e', Indicators.Fin j' => Indicators.Fin (pymax e' j')
    | _, _ => Indicators.PInf
    end.
Proof.
  destruct e as [e'|], j as [j'|]; unfold py_max, ext_ltb, pymax, qx_of; try reflexivity.
  destruct (Qltb e' j'); reflexivity.
Qed.

Theorem epsilon_add_gen_eq_model : forall reference computed : list (list Q),
  qx_of (epsilon_add_gen Q Qltb Qminus 0%Q reference computed) = epsilon_add reference computed.
Proof.
  intros reference computed. unfold epsilon_add_gen, epsilon_add. cbv zeta.
  change (Indicators.Fin 0%Q) with (qx_of (IndicatorsGen.Fin 0%Q)).
  apply fold_left_morph. intros eps r. rewrite outer_step, inner_eq. reflexivity.
Qed.

(* ---- gd --------------------------------------------------------------------------------- *)
Local Open Scope R_scope.

Lemma np_sum_rsum l : np_sum Rplus 0 l = rsum l.
Proof. unfold np_sum, rsum. apply fold_symmetric; intros; lra. Qed.

Lemma np_euclid_dist a b : np_euclid Rplus Rminus Rmult sqrt 0 a b = dist a b.
Proof. unfold np_euclid, dist, sqdist. now rewrite np_sum_rsum. Qed.

Lemma np_cdist_eq ref comp : np_cdist Rplus Rminus Rmult sqrt 0 ref comp = cdist ref comp.
Proof.
  unfold np_cdist, cdist. apply map_ext. intros r. apply map_ext. intros c. apply np_euclid_dist.
Qed.

Lemma np_map2_eq (f : R -> R -> R) : forall l1 l2, np_map2 f l1 l2 = map2 f l1 l2.
Proof. induction l1 as [|a l1 IH]; intros [|b l2]; cbn; try reflexivity. now rewrite IH. Qed.

Lemma np_nanmin0_eq m : np_nanmin0 Rmin m = colmin m.
Proof.
  unfold np_nanmin0, colmin. destruct m as [|row rows]; [reflexivity|].
  revert row. induction rows as [|r rows IH]; intros row; cbn; [reflexivity|].
  now rewrite np_map2_eq, IH.
Qed.

Theorem gd_gen_eq_model : forall reference computed : list (list R),
  gd_gen R Rplus Rminus Rmult Rdiv Rmin sqrt INR 0 reference computed = gd reference computed.
Proof.
  intros reference computed. unfold gd_gen, gd. cbv zeta.
  now rewrite np_cdist_eq, np_nanmin0_eq, np_sum_rsum.
Qed.

(* a computed instance of the translated epsilon_add (two reference points, two computed points) *)
Example epsilon_add_gen_ex :
  qx_of (epsilon_add_gen Q Qltb Qminus 0%Q [[1#1; 2#1]; [3#1; 0#1]]%Q [[2#1; 2#1]; [4#1; 1#1]]%Q) = Indicators.Fin (1#1)%Q.
Proof. vm_compute. reflexivity. Qed.

(* Print Assumptions of the theorems above is run by harness/core.py translated_obligations (qualified names, whitelist) *)
