(* The definition generated from artap/operators.py (ParetoDominance.compare) by tools/py2coq.py on
   THIS run equals the hand-written model Model/Dominance.v pareto_compare, for all inputs.  Compiled
   per run against the freshly generated ArtapGen.DominanceGen; not part of the normal build. *)
From Coq Require Import List ZArith Bool Arith Lia.
From Artap Require Import Model.Dominance.
From ArtapGen Require Import GenTactics DominanceGen.
Import ListNotations.

Section ParetoEquiv.
  Context {T : Type} (ltb : T -> T -> bool).

  Lemma pareto_l1_stop : forall l st, pareto_compare_l1_ret st <> None ->
    fold_left (pareto_compare_l1_body ltb) l st = st.
  Proof.
    apply (fold_left_stop _ (fun st => pareto_compare_l1_ret st <> None)).
    intros st x Hs. unfold pareto_compare_l1_body. destruct (pareto_compare_l1_ret st); congruence.
  Qed.

  (* the loop together with what follows it is the model's two-flag scan, from any flags *)
  Local Arguments pareto_compare_l1_after : simpl never.

  Lemma pareto_l1_run_scan : forall pc qc dp dq,
    pareto_compare_l1_run ltb (combine pc qc) dq dp = scan ltb dp dq pc qc.
  Proof.
    unfold pareto_compare_l1_run.
    induction pc as [|a pc IH]; intros [|b qc] dp dq;
      try (cbn; unfold pareto_compare_l1_after; solve [finish]).
    cbn [scan]. loop_step. case_ifs; loop_branch IH pareto_l1_stop; finish.
  Qed.

  Theorem pareto_compare_gen_eq_model : forall p q,
    pareto_compare_gen ltb p q = pareto_compare ltb p q.
  Proof.
    intros [pc pm] [qc qm].
    unfold pareto_compare_gen, pareto_compare_k1, pareto_compare, marker_verdict; cbn [fst snd].
    rewrite !pareto_l1_run_scan. case_ifs; cbn in *; congruence.
  Qed.
End ParetoEquiv.

(* the binary64 instance used by the executable drivers *)
From Artap Require Import Base.FloatInst.

Corollary pareto_compare_gen_float : forall p q, pareto_compare_gen fltb p q = pareto_compare fltb p q.
Proof. exact (pareto_compare_gen_eq_model fltb). Qed.

Print Assumptions pareto_compare_gen_eq_model.
Print Assumptions pareto_compare_gen_float.
