(* The definitions generated from artap/operators.py (Evaluator.evaluate_serial, evaluate_parallel, evaluate_scalar)
   by tools/py2coq_eff.py on THIS run equal the hand-written models Model/Job.v evaluate_serial / evaluate_scalar and
   the submission rule of Model/Parallel.v par_tasks, for all inputs.  Compiled per run against the freshly generated
   ArtapGen.EvalPathGen; not part of the normal build.

   Reading of the generated interface:
     ind                   an Individual object := its position in the model's heap (objects are shared by reference:
                           a batch may hold one object twice)
     f_ind_state log i     `individual.state` as it is after the observable events so far (a VOLATILE field: Job.evaluate
                           on any reference changes it) := the state of heap[i] after replaying the model's job_evaluate
                           over the events
     ev                    one event per call of self.job.evaluate, in program order := the design evaluated
     o_self_job_evaluate   Job.evaluate as an effect with an outcome: returns, or raises := the model's job_evaluate on
                           the replayed state (exceptions are the model's results Raised5 / RaisedFatal k)
   `individual.costs.append(...)` of evaluate_serial lands on a list object that Job.evaluate has just replaced (the
   model says the same): the field is outside the translation, named so in the generated file.
   evaluate_parallel: the generated definition is the submission `ev_submit (filter ... individuals)`; joblib's
   configuration (n_jobs, require='sharedmem') is pinned by text in the spec; what the pool does with the submitted
   calls is Model/Parallel.v (interleavings of the tasks). *)
From Coq Require Import List ZArith Bool Arith Lia.
From Artap Require Import Model.Job Model.Parallel.
From ArtapGen Require Import GenTactics EvalPathGen.
Import ListNotations.
Local Open Scope nat_scope.

Section EvalPathEquiv.
  Context {T : Type} (ltb : T -> T -> bool) (zero : T) (roundp : nat -> T -> T) (smul : bool -> T -> T).
  Variable e : env T.

  Notation jobev := (job_evaluate ltb zero roundp smul e).

  Definition out_of (r : result) : py_outcome unit result := match r with Done => PyVal tt | _ => PyExc r end.
  Definition res_of (o : py_outcome unit result) : result := match o with PyVal _ => Done | PyExc r => r end.

  (* ---------------------------------------------------------------- evaluate_serial *)
  Section Serial.
    Variable st0 : state T.
    Definition jstep (st : state T) (id : nat) : state T := fst (jobev st id).
    Definition replay (log : list nat) : state T := fold_left jstep log st0.
    Definition state_of (log : list nat) (id : nat) : dstate :=
      match nth_error (s_heap (replay log)) id with Some i => istate i | None => Failed end.
    Definition o_job (log : list nat) (id : nat) : py_outcome unit result :=
      out_of (snd (jobev (replay (removelast log)) id)).

    Notation run := (@evaluate_serial_l1_run dstate result nat nat state_of dstate_eqb Empty (fun id => id) o_job).
    Notation body := (@evaluate_serial_l1_body dstate result nat nat state_of dstate_eqb Empty (fun id => id) o_job).
    Notation Bst := (@Build_evaluate_serial_l1_st result nat).

    Lemma serial_stopped : forall l log r, fold_left body l (Bst log (Some r)) = Bst log (Some r).
    Proof. induction l as [|x l IH]; intros; cbn; [reflexivity|apply IH]. Qed.

    Definition post (g : py_outcome unit result * list nat) : state T * result := (replay (snd g), res_of (fst g)).

    Lemma body_step : forall log id,
      body (Bst log None) id =
      if dstate_eqb (state_of log id) Empty
      then match o_job (log ++ [id]) id with
           | PyVal _ => Bst (log ++ [id]) None
           | PyExc r => Bst (log ++ [id]) (Some (PyExc r, log ++ [id]))
           end
      else Bst log None.
    Proof.
      intros log id. unfold evaluate_serial_l1_body. cbn [evaluate_serial_l1_ret evaluate_serial_l1_v1].
      destruct (dstate_eqb (state_of log id) Empty); reflexivity.
    Qed.

    Lemma serial_loop : forall batch log,
      evaluate_serial ltb zero roundp smul e (replay log) batch = post (run batch log).
    Proof.
      induction batch as [|id rest IH]; intros log; [reflexivity|].
      cbn [evaluate_serial]. unfold evaluate_serial_l1_run. cbn [fold_left]. rewrite body_step.
      unfold state_of.
      destruct (nth_error (s_heap (replay log)) id) as [i|] eqn:Hi; [|cbn [dstate_eqb]; apply IH].
      destruct (istate i) eqn:Hs; cbn [dstate_eqb]; try apply IH.
      unfold o_job. rewrite removelast_last.
      assert (Hr : replay (log ++ [id]) = fst (jobev (replay log) id)).
      { unfold replay. rewrite fold_left_app. reflexivity. }
      destruct (jobev (replay log) id) as [st' r] eqn:Hj. cbn [snd fst] in *.
      destruct r; cbn [out_of].
      - rewrite <- Hr. apply IH.
      - rewrite serial_stopped. unfold post, evaluate_serial_l1_after. cbn [evaluate_serial_l1_ret evaluate_serial_l1_v1 fst snd res_of]. now rewrite Hr.
      - rewrite serial_stopped. unfold post, evaluate_serial_l1_after. cbn [evaluate_serial_l1_ret evaluate_serial_l1_v1 fst snd res_of]. now rewrite Hr.
    Qed.

    (* the designs handed to Job.evaluate, in this order, with the state each call leaves behind; an exception ends
       the batch and is the batch's result *)
    Theorem evaluate_serial_gen_eq_model_sect : forall batch,
      evaluate_serial ltb zero roundp smul e st0 batch =
      post (@evaluate_serial_gen dstate result nat nat state_of dstate_eqb Empty (fun id => id) o_job batch).
    Proof. intros batch. exact (serial_loop batch []). Qed.
  End Serial.

  (* ---------------------------------------------------------------- evaluate_parallel *)
  Definition state_at (heap : list (ind T)) (id : nat) : dstate :=
    match nth_error heap id with Some i => istate i | None => Failed end.
  Definition submits (heap : list (ind T)) (id : nat) : bool := dstate_eqb (state_at heap id) Empty.
  (* the steps of Job.evaluate(heap[id]) *)
  Definition all_steps (heap : list (ind T)) (id : nat) : list step :=
    match nth_error heap id with Some i => attempt_steps e id 5 0 i | None => [] end.

  Theorem evaluate_parallel_gen_eq_model_sect : forall (heap : list (ind T)) (batch : list nat),
    @evaluate_parallel_gen dstate (list nat) nat (state_at heap) dstate_eqb Empty (fun l => l) batch
      = [filter (submits heap) batch] /\
    par_tasks e heap batch = map (fun id => if submits heap id then all_steps heap id else []) batch.
  Proof.
    intros heap batch. split.
    { unfold evaluate_parallel_gen. cbn [app].
      first [reflexivity | f_equal; apply filter_ext; intros id; unfold submits; rewrite ?negb_involutive; reflexivity]. }
    unfold par_tasks. apply map_ext. intros id.
    unfold task_steps, submits, state_at, all_steps.
    destruct (nth_error heap id) as [i|]; [|reflexivity]. destruct (istate i); reflexivity.
  Qed.

  (* ---------------------------------------------------------------- evaluate_scalar *)
  Section Scalar.
    Variables (st : state T) (x : list T).
    Inductive sev := ENew (v : list T) | EJob (id : nat).
    Definition id0 : nat := length (s_heap st).
    Definition st1 : state T := add_pop (alloc st (fresh x)) [id0].
    Definition is_job (ev : sev) : bool := match ev with EJob _ => true | _ => false end.
    (* the world after the events so far *)
    Definition world (log : list sev) : state T := if existsb is_job log then fst (jobev st1 id0) else st1.
    Definition cs_of (log : list sev) (id : nat) : list (T + bool) :=
      match nth_error (s_heap (world log)) id with
      | Some i => match isigned i with Some (l, m) => map inl l ++ [inr m] | None => [] end
      | None => []
      end.
    Definition o_new (log : list sev) (v : list T) : nat := id0.
    Definition o_job1 (log : list sev) (id : nat) : py_outcome unit result := out_of (snd (jobev st1 id)).

    Notation gen := (@evaluate_scalar_gen T (T + bool) result sev nat cs_of ENew EJob o_new o_job1).

    Definition scalar_of (g : option (py_outcome (T + bool) result * list nat * list sev)) : scalar_ret T :=
      match g with
      | Some (PyVal (inl y), _, _) => SVal y
      | Some (PyVal (inr m), _, _) => SMark m
      | Some (PyExc r, _, _) => SRaise r
      | None => SNone
      end.

    Theorem evaluate_scalar_gen_eq_model_sect :
      evaluate_scalar ltb zero roundp smul e st x = (fst (jobev st1 id0), scalar_of (gen x (s_pop st))) /\
      (forall o pop log, gen x (s_pop st) = Some (o, pop, log) -> pop = s_pop st ++ [id0] /\ log = [ENew x; EJob id0]).
    Proof.
      unfold evaluate_scalar, evaluate_scalar_gen. fold id0. fold st1. cbn zeta.
      unfold o_job1, o_new. destruct (jobev st1 id0) as [st2 r] eqn:Hj. cbn [snd fst].
      destruct r; cbn [out_of].
      - unfold cs_of, world. cbn [existsb is_job app orb]. rewrite Hj. cbn [fst].
        destruct (nth_error (s_heap st2) id0) as [i|]; [|split; [reflexivity|discriminate]].
        destruct (isigned i) as [[[|y l] m]|]; cbn; (split; [reflexivity|]); intros o pop log Hg;
          try discriminate; inversion Hg; split; reflexivity.
      - split; [reflexivity|]. intros o pop log Hg. inversion Hg; split; reflexivity.
      - split; [reflexivity|]. intros o pop log Hg. inversion Hg; split; reflexivity.
    Qed.
  End Scalar.
End EvalPathEquiv.

Theorem evaluate_serial_gen_eq_model : forall (T : Type) (ltb : T -> T -> bool) (zero : T) (roundp : nat -> T -> T)
    (smul : bool -> T -> T) (e : env T) (st0 : state T) (batch : list nat),
  evaluate_serial ltb zero roundp smul e st0 batch =
  post ltb zero roundp smul e st0
    (@evaluate_serial_gen dstate result nat nat (state_of ltb zero roundp smul e st0) dstate_eqb Empty (fun id => id)
       (o_job ltb zero roundp smul e st0) batch).
Proof. intros. apply evaluate_serial_gen_eq_model_sect. Qed.

Theorem evaluate_parallel_gen_eq_model : forall (T : Type) (ltb : T -> T -> bool) (zero : T) (roundp : nat -> T -> T)
    (smul : bool -> T -> T) (e : env T) (heap : list (ind T)) (batch : list nat),
  @evaluate_parallel_gen dstate (list nat) nat (state_at heap) dstate_eqb Empty (fun l => l) batch
    = [filter (submits heap) batch] /\
  par_tasks e heap batch = map (fun id => if submits heap id then all_steps e heap id else []) batch.
Proof. intros. apply evaluate_parallel_gen_eq_model_sect. Qed.

Theorem evaluate_scalar_gen_eq_model : forall (T : Type) (ltb : T -> T -> bool) (zero : T) (roundp : nat -> T -> T)
    (smul : bool -> T -> T) (e : env T) (st : state T) (x : list T),
  let g := @evaluate_scalar_gen T (T + bool) result (@sev T) nat (cs_of ltb zero roundp smul e st x) (@ENew T) (@EJob T)
             (o_new st) (o_job1 ltb zero roundp smul e st x) x (s_pop st) in
  evaluate_scalar ltb zero roundp smul e st x =
    (fst (job_evaluate ltb zero roundp smul e (st1 st x) (id0 st)), scalar_of g) /\
  (forall o pop log, g = Some (o, pop, log) -> pop = s_pop st ++ [id0 st] /\ log = [ENew x; EJob (id0 st)]).
Proof. intros. apply evaluate_scalar_gen_eq_model_sect. Qed.

(* Print Assumptions of the theorems above is run by harness/core.py translated_obligations (qualified names, whitelist) *)
