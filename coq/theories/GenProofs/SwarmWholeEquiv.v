(* The definitions generated from artap/algorithm_swarm.py by tools/py2coq_swarm.py on THIS run equal the
   hand-written models of Model/Swarm.v (C18), for all inputs - WHOLE methods:
     SwarmAlgorithm.update_velocity (OMOPSO, SMPSO)  = Swarm.update_velocity VBase   any swarm, any dimension
     PSOGA.update_velocity                           = Swarm.update_velocity VPsoga
   Compiled per run against the freshly generated ArtapGen.SwarmWholeGen; not part of the normal build.

   Reading of the generated interface (effects front-end, tools/py2coq_eff.py, behind tools/py2coq_swarm.py):
     Particle                  a particle object (an opaque identity) with the accessors vector, features['best_vector']
     param                     a parameter := the pair (lb, ub); its ['bounds'] is the list [lb; ub] (bnd)
     ev                        the observable draws in program order: ESel (self.select_leader()), EUni lo hi
                               (uniform(lo, hi)), EInertia (self.inertia_weight())
     o_self_select_leader, o_uniform, o_self_inertia_weight
                               the answers: ARBITRARY functions of the event log so far (an oracle tape addressed by the
                               sequence of draws made before; the theorems quantify over them)
     o_self_khi, o_round       arbitrary functions (khi uses `**`; round(x, 1))
   Result of the generated function: None (an IndexError) or Some (the new features['velocity'] of every particle in
   list order, the event log).  The write-log pass of tools/py2coq_swarm.py turned the stores into
   individual.features['velocity'] into that list (side conditions checked there).
   The model's inputs are DECODED from the log in the order the source draws them (swarm_of): per particle the leader,
   then r1, r2, c1, c2 (rounded), then one inertia weight per coordinate (base class only). *)
From Coq Require Import List ZArith Bool Arith Lia.
From Artap Require Import Model.Variation Model.Archive Model.Swarm.
From ArtapGen Require Import GenTactics SwarmWholeGen.
Import ListNotations.
Local Open Scope nat_scope.

Section ListLemmas.
  Context {A : Type}.

  Lemma nth_error_mid : forall (pre : list A) x r i, i = length pre -> nth_error (pre ++ x :: r) i = Some x.
  Proof. intros pre x r i ->. rewrite nth_error_app2 by lia. now rewrite Nat.sub_diag. Qed.

  Lemma nth_error_end : forall (pre : list A) i, i = length pre -> nth_error (pre ++ []) i = None.
  Proof. intros pre i ->. rewrite app_nil_r. apply nth_error_None. lia. Qed.

  Lemma py_set_nth_mid : forall (pre : list A) x y r i, i = length pre ->
    py_set_nth i y (pre ++ x :: r) = Some (pre ++ y :: r).
  Proof.
    intros pre x y r i ->. induction pre as [|a pre IH]; cbn; [reflexivity|]. now rewrite IH.
  Qed.

  Lemma repeat_snoc : forall (a : A) n, repeat a n ++ [a] = repeat a (S n).
  Proof. intros a n. induction n as [|n IH]; cbn; [reflexivity|]. now rewrite IH. Qed.

  Lemma snoc_app : forall (l : list A) x r, l ++ x :: r = (l ++ [x]) ++ r.
  Proof. intros. now rewrite <- app_assoc. Qed.
End ListLemmas.

(* a parameter (lb, ub) as the object whose ['bounds'] is the list [lb; ub] *)
Definition bnd {T : Type} (p : T * T) : list T := [fst p; snd p].

Inductive vev (T : Type) : Type := ESel | EUni (lo hi : T) | EInertia.
Arguments ESel {T}.
Arguments EUni {T} lo hi.
Arguments EInertia {T}.

(* ---------------------------------------------------------------------------------------------- *)
Section Velocity.
  Context {T P : Type} (ltb : T -> T -> bool) (add sub mul div : T -> T -> T) (neg : T -> T) (zero two : T).
  Variables (vec best : P -> list T) (khi : T -> T -> T) (round : T -> nat -> T).
  Variables (o_sel : list (vev T) -> P) (o_uni : list (vev T) -> T -> T -> T) (o_w : list (vev T) -> T).
  Variable params : list (T * T).

  Section Base.
    Variables r1min r1max r2min r2max c1min c1max c2min c2max : T.

    (* the log after the five draws a particle starts with *)
    Definition l1 (log : list (vev T)) := log ++ [ESel].
    Definition l2 log := l1 log ++ [EUni r1min r1max].
    Definition l3 log := l2 log ++ [EUni r2min r2max].
    Definition l4 log := l3 log ++ [EUni c1min c1max].
    Definition l5 log := l4 log ++ [EUni c2min c2max].

    Definition draws_at (log : list (vev T)) (n : nat) : draws :=
      let r1 := round (o_uni (l2 log) r1min r1max) 1 in
      let r2 := round (o_uni (l3 log) r2min r2max) 1 in
      let c1 := round (o_uni (l4 log) c1min c1max) 1 in
      let c2 := round (o_uni (l5 log) c2min c2max) 1 in
      {| d_r1 := r1; d_r2 := r2; d_c1 := c1; d_c2 := c2; d_khi := khi c1 c2;
         d_w := map (fun j => o_w (l5 log ++ repeat EInertia (S j))) (seq 0 n) |}.

    (* the model's particle: what the source reads and draws for p when the log is `log` at its turn *)
    Definition vp_of (log : list (vev T)) (p : P) : vparticle :=
      {| v_draws := draws_at log (length (vec p)); v_vec := vec p; v_best := best p; v_leader := vec (o_sel (l1 log)) |}.
    Definition log_after (log : list (vev T)) (p : P) := l5 log ++ repeat EInertia (length (vec p)).

    Fixpoint swarm_of (log : list (vev T)) (ps : list P) : list vparticle :=
      match ps with [] => [] | p :: ps' => vp_of log p :: swarm_of (log_after log p) ps' end.
    Fixpoint log_of (log : list (vev T)) (ps : list P) : list (vev T) :=
      match ps with [] => log | p :: ps' => log_of (log_after log p) ps' end.

    Notation body2 := (@update_velocity_l2_body T (vev T) P (T * T) ltb add sub mul div neg two vec best (@bnd T) khi
                         EInertia o_w).
    Notation B2 := (@Build_update_velocity_l2_st T (vev T)).
    Notation B1 := (@Build_update_velocity_l1_st T (vev T)).
    Notation ret2 := (@update_velocity_l2_ret T (vev T)).
    Notation ret1 := (@update_velocity_l1_ret T (vev T)).

    Lemma stop2 : forall prm p g r1 r2 c1 c2 l st, ret2 st <> None -> fold_left (body2 prm p g r1 r2 c1 c2) l st = st.
    Proof.
      intros prm p g r1 r2 c1 c2. apply (fold_left_stop _ (fun st => ret2 st <> None)).
      intros st x Hs. unfold update_velocity_l2_body. destruct (ret2 st); congruence.
    Qed.

    (* the inner loop: coordinates i, i+1, ... of one particle *)
    Lemma inner_loop : forall (p g : P) (d : draws) log xs prep ps preb bs preg gs done zs i,
      i = length prep -> i = length preb -> i = length preg -> i = length done -> length zs = length xs ->
      params = prep ++ ps -> best p = preb ++ bs -> vec g = preg ++ gs ->
      let fin := fold_left (body2 (prep ++ ps) p g (d_r1 d) (d_r2 d) (d_c1 d) (d_c2 d)) xs
                           (B2 i (done ++ zs) (log ++ repeat EInertia i) None) in
      d_khi d = khi (d_c1 d) (d_c2 d) ->
      match velocity_coords ltb add sub mul div neg two VBase d
              (map (fun j => o_w (log ++ repeat EInertia (S j))) (seq i (length xs))) ps xs bs gs with
      | Some vs => fin = B2 (i + length xs) (done ++ vs) (log ++ repeat EInertia (i + length xs)) None
      | None => ret2 fin = Some None
      end.
    Proof.
      intros p g d log xs. induction xs as [|x xs IH];
        intros prep ps preb bs preg gs done zs i Hp Hb Hg Hd Hz Eparams Ebest Eg fin Hk.
      - destruct zs; [|discriminate]. cbn. subst fin. cbn. now rewrite Nat.add_0_r.
      - destruct zs as [|z zs]; [discriminate|]. cbn [length seq map velocity_coords next_weight].
        subst fin. cbn [fold_left].
        match goal with |- context [fold_left ?f xs (?f ?s x)] => set (F := fold_left f xs) end.
        unfold update_velocity_l2_body. cbn [update_velocity_l2_ret update_velocity_l2_idx update_velocity_l2_v1 update_velocity_l2_v2].
        rewrite Ebest, Eg.
        destruct bs as [|b bs].
        { rewrite nth_error_end by assumption. subst F. rewrite stop2 by (cbn; discriminate).
          destruct ps as [|[lb ub] ps]; reflexivity. }
        rewrite nth_error_mid by assumption.
        destruct gs as [|gx gs].
        { rewrite nth_error_end by assumption. subst F. rewrite stop2 by (cbn; discriminate).
          destruct ps as [|[lb ub] ps]; reflexivity. }
        rewrite nth_error_mid by assumption.
        destruct ps as [|[lb ub] ps].
        { rewrite nth_error_end by assumption. subst F. rewrite stop2 by (cbn; discriminate). reflexivity. }
        rewrite !nth_error_mid by assumption. cbn [bnd fst snd nth_error].
        rewrite py_set_nth_mid by assumption.
        rewrite <- app_assoc, repeat_snoc. subst F.
        set (v := speed_constriction_gen _ _ _ _ _ _ _ _).
        rewrite (snoc_app done v zs), (snoc_app prep (lb, ub) ps).
        specialize (IH (prep ++ [(lb, ub)]) ps (preb ++ [b]) bs (preg ++ [gx]) gs (done ++ [v]) zs (S i)).
        rewrite !app_length in IH. cbn [length] in IH.
        assert (Hv : v = speed_constriction ltb sub div neg two
                           (raw_velocity add sub mul VBase d (o_w (log ++ repeat EInertia (S i))) x b gx) ub lb).
        { subst v. unfold raw_velocity. rewrite Hk. reflexivity. }
        rewrite <- Hv.
        specialize (IH ltac:(lia) ltac:(lia) ltac:(lia) ltac:(lia) ltac:(cbn in Hz; lia)
                       ltac:(now rewrite Eparams, <- app_assoc) ltac:(now rewrite Ebest, <- app_assoc)
                       ltac:(now rewrite Eg, <- app_assoc) Hk).
        cbn zeta in IH.
        destruct (velocity_coords ltb add sub mul div neg two VBase d _ ps xs bs gs) as [vs|]; cbn [ocons].
        + rewrite IH. rewrite <- !app_assoc. cbn [app]. now rewrite Nat.add_succ_r.
        + exact IH.
    Qed.

    Notation body1 := (@update_velocity_l1_body T (vev T) P (T * T) ltb add sub mul div neg zero two vec best (@bnd T) khi round
                         ESel EUni EInertia o_sel o_uni o_w params r1min r1max r2min r2max c1min c1max c2min c2max).

    Lemma stop1 : forall l st, ret1 st <> None -> fold_left body1 l st = st.
    Proof.
      apply (fold_left_stop _ (fun st => ret1 st <> None)).
      intros st x Hs. unfold update_velocity_l1_body. destruct (ret1 st); congruence.
    Qed.

    Lemma one_particle : forall (p : P) log written,
      body1 (B1 written log None) p =
      match velocity_particle ltb add sub mul div neg two VBase params (vp_of log p) with
      | Some vs => B1 (written ++ [vs]) (log_after log p) None
      | None => body1 (B1 written log None) p
      end /\
      (velocity_particle ltb add sub mul div neg two VBase params (vp_of log p) = None ->
       ret1 (body1 (B1 written log None) p) = Some None).
    Proof.
      intros p log written.
      unfold update_velocity_l1_body. cbn [update_velocity_l1_ret update_velocity_l1_v1 update_velocity_l1_v2].
      unfold update_velocity_l2_run.
      pose proof (inner_loop p (o_sel (l1 log)) (draws_at log (length (vec p))) (l5 log) (vec p)
                    [] params [] (best p) [] (vec (o_sel (l1 log))) [] (repeat zero (length (vec p))) 0
                    eq_refl eq_refl eq_refl eq_refl (repeat_length _ _) eq_refl eq_refl eq_refl eq_refl) as H.
      cbn zeta in H. cbn [app repeat] in H. rewrite app_nil_r in H.
      unfold velocity_particle. cbn [v_draws v_vec v_best v_leader vp_of].
      change (d_w (draws_at log (length (vec p)))) with
        (map (fun j => o_w (l5 log ++ repeat EInertia (S j))) (seq 0 (length (vec p)))).
      fold (l1 log). fold (l2 log). fold (l3 log). fold (l4 log). fold (l5 log).
      cbn [draws_at d_r1 d_r2 d_c1 d_c2] in H.
      destruct (velocity_coords ltb add sub mul div neg two VBase (draws_at log (length (vec p))) _ params (vec p) (best p) _) as [vs|].
      - split; [|discriminate]. rewrite H. unfold update_velocity_l2_after. cbn. reflexivity.
      - split; [reflexivity|]. intros _. unfold update_velocity_l2_after.
        rewrite H. reflexivity.
    Qed.

    Lemma outer_loop : forall ps log written,
      let fin := fold_left body1 ps (B1 written log None) in
      match all_some (map (velocity_particle ltb add sub mul div neg two VBase params) (swarm_of log ps)) with
      | Some vss => fin = B1 (written ++ vss) (log_of log ps) None
      | None => ret1 fin = Some None
      end.
    Proof.
      induction ps as [|p ps IH]; intros log written fin.
      - cbn. subst fin. cbn. now rewrite app_nil_r.
      - subst fin. cbn [fold_left swarm_of map all_some log_of].
        destruct (one_particle p log written) as [H1 H2].
        destruct (velocity_particle ltb add sub mul div neg two VBase params (vp_of log p)) as [vs|].
        + rewrite H1. specialize (IH (log_after log p) (written ++ [vs])). cbn zeta in IH.
          destruct (all_some _) as [vss|].
          * rewrite IH. now rewrite <- app_assoc.
          * exact IH.
        + rewrite stop1 by (rewrite (H2 eq_refl); discriminate). exact (H2 eq_refl).
    Qed.

    (* SwarmAlgorithm.update_velocity, the whole method: any swarm, any dimension, any answers of the draws *)
    Theorem update_velocity_gen_eq_model : forall individuals : list P,
      update_velocity_gen ltb add sub mul div neg zero two vec best (@bnd T) khi round ESel EUni EInertia o_sel o_uni o_w
        individuals params r1min r1max r2min r2max c1min c1max c2min c2max =
      match update_velocity ltb add sub mul div neg two VBase params (swarm_of [] individuals) with
      | Some vss => Some (vss, log_of [] individuals)
      | None => None
      end.
    Proof.
      intros individuals. unfold update_velocity_gen, update_velocity_l1_run, update_velocity.
      pose proof (outer_loop individuals [] []) as H. cbn zeta in H.
      unfold update_velocity_l1_after.
      destruct (all_some _) as [vss|].
      - rewrite H. reflexivity.
      - rewrite H. reflexivity.
    Qed.
  End Base.
End Velocity.

(* ---------------------------------------------------------------------------------------------- *)
(* PSOGA.update_velocity: no inertia draw (w = khi(c1, c2)), r2 / c2 drawn from the r1 / c1 ranges, bounds read first *)
Section VelocityPsoga.
  Context {T P : Type} (ltb : T -> T -> bool) (add sub mul div : T -> T -> T) (neg : T -> T) (zero two : T).
  Variables (vec best : P -> list T) (khi : T -> T -> T) (round : T -> nat -> T).
  Variables (o_sel : list (vev T) -> P) (o_uni : list (vev T) -> T -> T -> T).
  Variable params : list (T * T).
  Variables r1min r1max c1min c1max : T.

  Notation m5 := (l5 r1min r1max r1min r1max c1min c1max c1min c1max).
  Notation m4 := (l4 r1min r1max r1min r1max c1min c1max).
  Notation m3 := (l3 r1min r1max r1min r1max).
  Notation m2 := (l2 r1min r1max).

  Definition pdraws_at (log : list (vev T)) : draws :=
    let r1 := round (o_uni (m2 log) r1min r1max) 1 in
    let r2 := round (o_uni (m3 log) r1min r1max) 1 in
    let c1 := round (o_uni (m4 log) c1min c1max) 1 in
    let c2 := round (o_uni (m5 log) c1min c1max) 1 in
    {| d_r1 := r1; d_r2 := r2; d_c1 := c1; d_c2 := c2; d_khi := khi c1 c2; d_w := [] |}.

  Definition pvp_of (log : list (vev T)) (p : P) : vparticle :=
    {| v_draws := pdraws_at log; v_vec := vec p; v_best := best p; v_leader := vec (o_sel (l1 log)) |}.

  Fixpoint pswarm_of (log : list (vev T)) (ps : list P) : list vparticle :=
    match ps with [] => [] | p :: ps' => pvp_of log p :: pswarm_of (m5 log) ps' end.
  Fixpoint plog_of (log : list (vev T)) (ps : list P) : list (vev T) :=
    match ps with [] => log | p :: ps' => plog_of (m5 log) ps' end.

  Notation body2 := (@psoga_update_velocity_l2_body T (vev T) P (T * T) ltb add sub mul div neg two vec best (@bnd T) khi).
  Notation B2 := (@Build_psoga_update_velocity_l2_st T (vev T)).
  Notation B1 := (@Build_psoga_update_velocity_l1_st T (vev T)).
  Notation ret2 := (@psoga_update_velocity_l2_ret T (vev T)).
  Notation ret1 := (@psoga_update_velocity_l1_ret T (vev T)).

  Lemma pstop2 : forall prm p g r1 r2 c1 c2 l st, ret2 st <> None -> fold_left (body2 prm p g r1 r2 c1 c2) l st = st.
  Proof.
    intros prm p g r1 r2 c1 c2. apply (fold_left_stop _ (fun st => ret2 st <> None)).
    intros st x Hs. unfold psoga_update_velocity_l2_body. destruct (ret2 st); congruence.
  Qed.

  Lemma pinner_loop : forall (p g : P) (d : draws) xs prep ps preb bs preg gs done zs i,
    i = length prep -> i = length preb -> i = length preg -> i = length done -> length zs = length xs ->
    params = prep ++ ps -> best p = preb ++ bs -> vec g = preg ++ gs ->
    let fin := fold_left (body2 (prep ++ ps) p g (d_r1 d) (d_r2 d) (d_c1 d) (d_c2 d)) xs (B2 i (done ++ zs) None) in
    d_khi d = khi (d_c1 d) (d_c2 d) ->
    match velocity_coords ltb add sub mul div neg two VPsoga d [] ps xs bs gs with
    | Some vs => fin = B2 (i + length xs) (done ++ vs) None
    | None => ret2 fin = Some None
    end.
  Proof.
    intros p g d xs. induction xs as [|x xs IH];
      intros prep ps preb bs preg gs done zs i Hp Hb Hg Hd Hz Eparams Ebest Eg fin Hk.
    - destruct zs; [|discriminate]. cbn. subst fin. cbn. now rewrite Nat.add_0_r.
    - destruct zs as [|z zs]; [discriminate|]. cbn [length velocity_coords next_weight].
      subst fin. cbn [fold_left].
      match goal with |- context [fold_left ?f xs (?f ?s x)] => set (F := fold_left f xs) end.
      unfold psoga_update_velocity_l2_body. cbn [psoga_update_velocity_l2_ret psoga_update_velocity_l2_idx psoga_update_velocity_l2_v1].
      rewrite Ebest, Eg.
      destruct ps as [|[lb ub] ps].
      { rewrite nth_error_end by assumption. subst F. rewrite pstop2 by (cbn; discriminate). reflexivity. }
      rewrite !nth_error_mid by assumption. cbn [bnd fst snd nth_error].
      destruct bs as [|b bs].
      { rewrite nth_error_end by assumption. subst F. rewrite pstop2 by (cbn; discriminate). reflexivity. }
      rewrite nth_error_mid by assumption.
      destruct gs as [|gx gs].
      { rewrite nth_error_end by assumption. subst F. rewrite pstop2 by (cbn; discriminate). reflexivity. }
      rewrite nth_error_mid by assumption.
      rewrite py_set_nth_mid by assumption. subst F.
      set (v := speed_constriction_gen _ _ _ _ _ _ _ _).
      rewrite (snoc_app done v zs), (snoc_app prep (lb, ub) ps).
      specialize (IH (prep ++ [(lb, ub)]) ps (preb ++ [b]) bs (preg ++ [gx]) gs (done ++ [v]) zs (S i)).
      rewrite !app_length in IH. cbn [length] in IH.
      assert (Hv : v = speed_constriction ltb sub div neg two (raw_velocity add sub mul VPsoga d (d_khi d) x b gx) ub lb).
      { subst v. unfold raw_velocity. rewrite Hk. reflexivity. }
      rewrite <- Hv.
      specialize (IH ltac:(lia) ltac:(lia) ltac:(lia) ltac:(lia) ltac:(cbn in Hz; lia)
                     ltac:(now rewrite Eparams, <- app_assoc) ltac:(now rewrite Ebest, <- app_assoc)
                     ltac:(now rewrite Eg, <- app_assoc) Hk).
      cbn zeta in IH.
      destruct (velocity_coords ltb add sub mul div neg two VPsoga d [] ps xs bs gs) as [vs|]; cbn [ocons].
      + rewrite IH. rewrite <- !app_assoc. cbn [app]. now rewrite Nat.add_succ_r.
      + exact IH.
  Qed.

  Notation body1 := (@psoga_update_velocity_l1_body T (vev T) P (T * T) ltb add sub mul div neg zero two vec best (@bnd T) khi round
                       ESel EUni o_sel o_uni params r1min r1max c1min c1max).

  Lemma pstop1 : forall l st, ret1 st <> None -> fold_left body1 l st = st.
  Proof.
    apply (fold_left_stop _ (fun st => ret1 st <> None)).
    intros st x Hs. unfold psoga_update_velocity_l1_body. destruct (ret1 st); congruence.
  Qed.

  Lemma pone_particle : forall (p : P) log written,
    match velocity_particle ltb add sub mul div neg two VPsoga params (pvp_of log p) with
    | Some vs => body1 (B1 written log None) p = B1 (written ++ [vs]) (m5 log) None
    | None => ret1 (body1 (B1 written log None) p) = Some None
    end.
  Proof.
    intros p log written.
    unfold psoga_update_velocity_l1_body. cbn [psoga_update_velocity_l1_ret psoga_update_velocity_l1_v1 psoga_update_velocity_l1_v2].
    unfold psoga_update_velocity_l2_run.
    pose proof (pinner_loop p (o_sel (l1 log)) (pdraws_at log) (vec p)
                  [] params [] (best p) [] (vec (o_sel (l1 log))) [] (repeat zero (length (vec p))) 0
                  eq_refl eq_refl eq_refl eq_refl (repeat_length _ _) eq_refl eq_refl eq_refl eq_refl) as H.
    cbn zeta in H. cbn [app repeat] in H.
    unfold velocity_particle. cbn [v_draws v_vec v_best v_leader pvp_of].
    change (d_w (pdraws_at log)) with (@nil T).
    fold (l1 log). fold (m2 log). fold (m3 log). fold (m4 log). fold (m5 log).
    cbn [pdraws_at d_r1 d_r2 d_c1 d_c2] in H.
    destruct (velocity_coords ltb add sub mul div neg two VPsoga (pdraws_at log) [] params (vec p) (best p) _) as [vs|].
    - rewrite H. unfold psoga_update_velocity_l2_after. cbn. reflexivity.
    - unfold psoga_update_velocity_l2_after. rewrite H. reflexivity.
  Qed.

  Lemma pouter_loop : forall ps log written,
    let fin := fold_left body1 ps (B1 written log None) in
    match all_some (map (velocity_particle ltb add sub mul div neg two VPsoga params) (pswarm_of log ps)) with
    | Some vss => fin = B1 (written ++ vss) (plog_of log ps) None
    | None => ret1 fin = Some None
    end.
  Proof.
    induction ps as [|p ps IH]; intros log written fin.
    - cbn. subst fin. cbn. now rewrite app_nil_r.
    - subst fin. cbn [fold_left pswarm_of map all_some plog_of].
      pose proof (pone_particle p log written) as H1.
      destruct (velocity_particle ltb add sub mul div neg two VPsoga params (pvp_of log p)) as [vs|].
      + rewrite H1. specialize (IH (m5 log) (written ++ [vs])). cbn zeta in IH.
        destruct (all_some _) as [vss|].
        * rewrite IH. now rewrite <- app_assoc.
        * exact IH.
      + rewrite pstop1 by (rewrite H1; discriminate). exact H1.
  Qed.

  (* PSOGA.update_velocity, the whole method *)
  Theorem psoga_update_velocity_gen_eq_model : forall individuals : list P,
    psoga_update_velocity_gen ltb add sub mul div neg zero two vec best (@bnd T) khi round ESel EUni o_sel o_uni
      individuals params r1min r1max c1min c1max =
    match update_velocity ltb add sub mul div neg two VPsoga params (pswarm_of [] individuals) with
    | Some vss => Some (vss, plog_of [] individuals)
    | None => None
    end.
  Proof.
    intros individuals. unfold psoga_update_velocity_gen, psoga_update_velocity_l1_run, update_velocity.
    pose proof (pouter_loop individuals [] []) as H. cbn zeta in H.
    unfold psoga_update_velocity_l1_after.
    destruct (all_some _) as [vss|]; rewrite H; reflexivity.
  Qed.
End VelocityPsoga.

(* ---------------------------------------------------------------------------------------------- *)
(* update_global_best of the three classes, whole methods: the calls that reach self.leaders, in program order, as an
   event log; run through the meaning of each call on the archive (Model/Archive.v: `+=` / append = archive_add(s),
   truncate = archive_truncate by the crowding distances K read at that moment) the log IS Swarm.generation, the step
   of the leaders history the theorems C18_leaders_bounded etc. are about.
     ind                 an individual := the model's archive member (C)
     GCrowd xs           crowding_distance(xs): it sorts the list object it is given IN PLACE, so the source's `swarm`
                         names a reordered list afterwards: o_crowd (log) xs, an arbitrary answer (C03 owns it)
     GFnds xs            self.selector.fast_nondominated_sorting(xs) (C02 owns it); features['front_number'] is read
                         AFTER it (a volatile field: its accessor takes the log)
     GIAdd xs / GAppend x / GTrunc n / GArchive xs
                         self.leaders += xs / self.leaders.append(x) / self.leaders.truncate(n, 'crowding_distance') /
                         self.archive += xs (OMOPSO's second archive: not the leaders) *)
Section GlobalBest.
  Context {C K : Type} (cmp : C -> C -> nat) (ceq : C -> C -> bool) (key_leb : K -> C -> C -> bool).

  Inductive gev : Type :=
    GCrowd (xs : list C) | GFnds (xs : list C) | GIAdd (xs : list C) | GAppend (x : C) | GTrunc (n : nat) | GArchive (xs : list C).

  (* what a call does to the contents of self.leaders *)
  Definition gsem (k : K) (a : list C) (e : gev) : list C :=
    match e with
    | GIAdd xs => archive_adds cmp ceq a xs
    | GAppend x => fst (archive_add cmp ceq a x)
    | GTrunc n => archive_truncate (key_leb k) a n true
    | GCrowd _ | GFnds _ | GArchive _ => a
    end.

  Lemma gsem_appends : forall k xs a, fold_left (gsem k) (map GAppend xs) a = archive_adds cmp ceq a xs.
  Proof. intros k xs. unfold archive_adds. induction xs as [|x xs IH]; intros a; cbn; [reflexivity|]. apply IH. Qed.

  Theorem smpso_update_global_best_gen_eq_model : forall (o_crowd : list gev -> list C -> list C) swarm size a k,
    let log := smpso_update_global_best_gen GCrowd GIAdd GTrunc o_crowd swarm size in
    let offered := o_crowd [GCrowd swarm] swarm in
    log = [GCrowd swarm; GIAdd offered; GTrunc size] /\
    fold_left (gsem k) log a = generation cmp ceq key_leb size a (offered, k).
  Proof. intros. split; reflexivity. Qed.

  Theorem psoga_update_global_best_gen_eq_model : forall (o_crowd : list gev -> list C -> list C) swarm size a k,
    let log := psoga_update_global_best_gen GCrowd GIAdd GTrunc o_crowd swarm size in
    let offered := o_crowd [GCrowd swarm] swarm in
    log = [GCrowd swarm; GIAdd offered; GTrunc size] /\
    fold_left (gsem k) log a = generation cmp ceq key_leb size a (offered, k).
  Proof. intros. split; reflexivity. Qed.

  Section Omopso.
    Variable front : list gev -> C -> nat.          (* features['front_number'] as it is after the events so far *)

    Notation b1 := (@omopso_update_global_best_l1_body gev C front).
    Notation b2 := (@omopso_update_global_best_l2_body gev C GAppend).

    Lemma omopso_l1 : forall log xs acc,
      fold_left (b1 log) xs (Build_omopso_update_global_best_l1_st acc None) =
      Build_omopso_update_global_best_l1_st (acc ++ filter (fun p => Nat.eqb (front log p) 1) xs) None.
    Proof.
      intros log xs. induction xs as [|x xs IH]; intros acc; cbn [fold_left filter].
      - now rewrite app_nil_r.
      - unfold omopso_update_global_best_l1_body at 2. cbn [omopso_update_global_best_l1_ret omopso_update_global_best_l1_v1].
        rewrite ?(Nat.eqb_sym 1 (front log x)).          (* `1 == front` is `front == 1` *)
        destruct (Nat.eqb (front log x) 1); rewrite IH; [|reflexivity]. now rewrite <- app_assoc.
    Qed.

    Lemma omopso_l2 : forall xs log,
      fold_left b2 xs (Build_omopso_update_global_best_l2_st log None) =
      Build_omopso_update_global_best_l2_st (log ++ map GAppend xs) None.
    Proof.
      induction xs as [|x xs IH]; intros log; cbn [fold_left map].
      - now rewrite app_nil_r.
      - unfold omopso_update_global_best_l2_body at 2. cbn [omopso_update_global_best_l2_ret omopso_update_global_best_l2_v1].
        rewrite IH. now rewrite <- app_assoc.
    Qed.

    (* OMOPSO: front 1 of the swarm (as fast_nondominated_sorting left it) is offered member by member, in swarm order *)
    Theorem omopso_update_global_best_gen_eq_model : forall swarm size a k,
      let log := omopso_update_global_best_gen front GFnds GAppend GTrunc GArchive swarm size in
      let offered := filter (fun p => Nat.eqb (front [GFnds swarm] p) 1) swarm in
      log = GFnds swarm :: map GAppend offered ++ [GTrunc size; GArchive swarm] /\
      fold_left (gsem k) log a = generation cmp ceq key_leb size a (offered, k).
    Proof.
      intros swarm size a k log offered. subst log.
      unfold omopso_update_global_best_gen, omopso_update_global_best_l1_run. cbn [app]. rewrite omopso_l1.
      unfold omopso_update_global_best_l1_after. cbn [omopso_update_global_best_l1_ret omopso_update_global_best_l1_v1 app].
      unfold omopso_update_global_best_l2_run. rewrite omopso_l2.
      unfold omopso_update_global_best_l2_after. cbn [omopso_update_global_best_l2_ret omopso_update_global_best_l2_v1].
      fold offered. split.
      - cbn [app]. now rewrite <- !app_assoc.
      - rewrite <- !app_assoc. cbn [app fold_left gsem]. rewrite !fold_left_app, gsem_appends. reflexivity.
    Qed.
  End Omopso.
End GlobalBest.

(* ---------------------------------------------------------------------------------------------- *)
(* OMOPSO.run / SMPSO.run, whole methods (the generation loop `it = 0; while it < max_population_number: ...; it += 1` read
   as `for it in range(max_population_number)` by the counting-while pass of tools/py2coq_swarm.py): every operator call
   is an observable effect; the result is (problem.individuals afterwards, the event log).  The log equals
   swarm_run_spec, DEFINED HERE (Model/Swarm.v has no run function: the C18 theorems are about the four update methods,
   and the harness observes every call of them in situ): initialisation, then per generation
       select, update_velocity, update_position, turbulence, evaluate, update_particle_best, update_global_best,
       then per particle: population_id = it + 1, (append to problem.individuals,) sync_individual
   on the list select() answered, and sync_all at the end.  So in every generation the personal bests are updated AFTER
   the evaluation of the same particles, the leaders archive (Swarm.generation) after the personal bests, the
   position after the velocity (swarm_generation_order).
     RNew v       IndividualSwarm(v) / Individual(v) is constructed (o_new: the object, an arbitrary answer)
     RSetPop x k  x.population_id = k (an attribute store, logged as an event)
   Not translated (pinned by text, named in the generated file): the time stamps, the two log lines, OMOPSO's two
   `self.*_mutator = ...` assignments. *)
Section Run.
  Context {T ind : Type}.

  Inductive rev : Type :=
  | RGenInit (n : nat) | RGenerate | RNew (v : list T) | RSetPop (x : ind) (k : nat)
  | REvaluate (xs : list ind) | RInitVel (xs : list ind) | RInitPbest (xs : list ind) | RGlobalBest (xs : list ind)
  | RSyncInd (x : ind) | RSelect (xs : list ind) | RVelocity (xs : list ind) | RPosition (xs : list ind)
  | RTurbulence (xs : list ind) (it : nat) | RPBest (xs : list ind) | RSyncAll.

  Variables (o_gen : list rev -> list (list T)) (o_new : list rev -> list T -> ind) (o_select : list rev -> list ind -> list ind).

  Fixpoint new_inds (vs : list (list T)) (log : list rev) : list ind :=
    match vs with [] => [] | v :: vs' => o_new (log ++ [RNew v]) v :: new_inds vs' (log ++ [RNew v]) end.
  Fixpoint new_log (vs : list (list T)) (log : list rev) : list rev :=
    match vs with [] => log | v :: vs' => new_log vs' (log ++ [RNew v]) end.

  (* one generation on the particles `offs` (what selector.select answered) *)
  Definition generation_events (it : nat) (offs : list ind) : list rev :=
    [RVelocity offs; RPosition offs; RTurbulence offs it; REvaluate offs; RPBest offs; RGlobalBest offs]
    ++ flat_map (fun x => [RSetPop x (it + 1); RSyncInd x]) offs.

  Fixpoint generations (its : list nat) (inds pop : list ind) (log : list rev) : list ind * list ind * list rev :=
    match its with
    | [] => (inds, pop, log)
    | it :: its' =>
        let log1 := log ++ [RSelect inds] in
        let offs := o_select log1 inds in
        generations its' offs (pop ++ offs) (log1 ++ generation_events it offs)
    end.

  Definition init_events (with_velocity : bool) (inds : list ind) : list rev :=
    map (fun x => RSetPop x 0) inds
    ++ [REvaluate inds] ++ (if with_velocity then [RInitVel inds] else []) ++ [RInitPbest inds; RGlobalBest inds]
    ++ map RSyncInd inds.

  Definition swarm_run_spec (with_velocity : bool) (pop : list ind) (N size : nat) : list ind * list rev :=
    let log0 := [RGenInit size; RGenerate] in
    let vs := o_gen log0 in
    let inds := new_inds vs log0 in
    let '(_, pop', log') := generations (seq 0 N) inds (pop ++ inds) (new_log vs log0 ++ init_events with_velocity inds) in
    (pop', log' ++ [RSyncAll]).

  (* the order inside one generation, spelled out *)
  Lemma swarm_generation_order : forall it offs, exists tail,
    generation_events it offs = RVelocity offs :: RPosition offs :: RTurbulence offs it :: REvaluate offs :: RPBest offs :: RGlobalBest offs :: tail.
  Proof. intros. eexists. reflexivity. Qed.

  (* ---- OMOPSO.run ---- *)
  Section OmopsoRun.
    Notation b1 := (@omopso_run_l1_body T ind rev RNew o_new).
    Notation B1 := (@Build_omopso_run_l1_st ind rev).
    Notation b2 := (@omopso_run_l2_body ind rev RSetPop).
    Notation B2 := (@Build_omopso_run_l2_st ind rev).
    Notation b3 := (@omopso_run_l3_body ind rev RSyncInd).
    Notation B3 := (@Build_omopso_run_l3_st ind rev).
    Notation b4 := (@omopso_run_l4_body ind rev REvaluate RGlobalBest RSyncInd RSelect RVelocity RPosition RTurbulence RPBest RSetPop o_select).
    Notation B4 := (@Build_omopso_run_l4_st ind rev).
    Notation b5 := (@omopso_run_l5_body ind rev RSyncInd RSetPop).
    Notation B5 := (@Build_omopso_run_l5_st ind rev).

    Lemma omopso_runloop1 : forall vs acc log,
      fold_left b1 vs (B1 acc log None) = B1 (acc ++ new_inds vs log) (new_log vs log) None.
    Proof.
      induction vs as [|v vs IH]; intros acc log; cbn [fold_left new_inds new_log].
      - now rewrite app_nil_r.
      - unfold omopso_run_l1_body at 2. cbn [omopso_run_l1_ret omopso_run_l1_v1 omopso_run_l1_v2].
        rewrite IH. now rewrite <- app_assoc.
    Qed.

    Lemma omopso_runloop2 : forall xs pop log,
      fold_left b2 xs (B2 pop log None) = B2 (pop ++ xs) (log ++ map (fun x => RSetPop x 0) xs) None.
    Proof.
      induction xs as [|x xs IH]; intros pop log; cbn [fold_left map].
      - now rewrite !app_nil_r.
      - unfold omopso_run_l2_body at 2. cbn [omopso_run_l2_ret omopso_run_l2_v1 omopso_run_l2_v2].
        rewrite IH. now rewrite <- !app_assoc.
    Qed.

    Lemma omopso_runloop3 : forall xs log, fold_left b3 xs (B3 log None) = B3 (log ++ map RSyncInd xs) None.
    Proof.
      induction xs as [|x xs IH]; intros log; cbn [fold_left map].
      - now rewrite app_nil_r.
      - unfold omopso_run_l3_body at 2. cbn [omopso_run_l3_ret omopso_run_l3_v1]. rewrite IH. now rewrite <- app_assoc.
    Qed.

    Lemma omopso_runloop5 : forall it xs pop log,
      fold_left (b5 it) xs (B5 pop log None) = B5 (pop ++ xs) (log ++ flat_map (fun x => [RSetPop x (it + 1); RSyncInd x]) xs) None.
    Proof.
      intros it. induction xs as [|x xs IH]; intros pop log; cbn [fold_left flat_map].
      - now rewrite !app_nil_r.
      - unfold omopso_run_l5_body at 2. cbn [omopso_run_l5_ret omopso_run_l5_v1 omopso_run_l5_v2].
        rewrite ?(Nat.add_comm 1 it).                   (* `1 + it` is `it + 1` *)
        rewrite IH. rewrite <- !app_assoc. reflexivity.
    Qed.

    Lemma omopso_runloop4 : forall its inds pop log,
      fold_left b4 its (B4 inds pop log None) =
      let '(inds', pop', log') := generations its inds pop log in B4 inds' pop' log' None.
    Proof.
      induction its as [|it its IH]; intros inds pop log; cbn [fold_left generations]; [reflexivity|].
      unfold omopso_run_l4_body at 2. cbn [omopso_run_l4_ret omopso_run_l4_v1 omopso_run_l4_v2 omopso_run_l4_v3].
      unfold omopso_run_l5_run. rewrite omopso_runloop5. unfold omopso_run_l5_after. cbn [omopso_run_l5_ret omopso_run_l5_v1 omopso_run_l5_v2].
      rewrite IH. unfold generation_events. rewrite <- !app_assoc. reflexivity.
    Qed.

    (* the whole method: the calls it makes, in order, for any number of generations, any swarm size and any answers of
       the generator, the constructor and the selector; and what it appends to problem.individuals *)
    Theorem omopso_run_gen_eq_model : forall (pop : list ind) (N size : nat),
      omopso_run_gen RGenInit RGenerate RNew REvaluate RInitPbest RGlobalBest RSyncInd RSelect RVelocity RPosition RTurbulence RPBest
        RSyncAll RSetPop o_gen o_new o_select pop N size =
      swarm_run_spec false pop N size.
    Proof.
      intros pop N size. unfold omopso_run_gen, swarm_run_spec. cbn [app].
      unfold omopso_run_l1_run. rewrite omopso_runloop1. unfold omopso_run_l1_after. cbn [omopso_run_l1_ret omopso_run_l1_v1 omopso_run_l1_v2 app].
      unfold omopso_run_l2_run. rewrite omopso_runloop2. unfold omopso_run_l2_after. cbn [omopso_run_l2_ret omopso_run_l2_v1 omopso_run_l2_v2].
      unfold omopso_run_l3_run. rewrite omopso_runloop3. unfold omopso_run_l3_after. cbn [omopso_run_l3_ret omopso_run_l3_v1].
      unfold omopso_run_l4_run. rewrite omopso_runloop4. unfold init_events. cbn [app].
      rewrite <- !app_assoc. cbn [app].
      destruct (generations _ _ _ _) as [[inds' pop'] log']. unfold omopso_run_l4_after.
      cbn [omopso_run_l4_ret omopso_run_l4_v1 omopso_run_l4_v2 omopso_run_l4_v3]. reflexivity.
    Qed.
  End OmopsoRun.

  (* ---- SMPSO.run ---- *)
  Section SmpsoRun.
    Notation b1 := (@smpso_run_l1_body T ind rev RNew o_new).
    Notation B1 := (@Build_smpso_run_l1_st ind rev).
    Notation b2 := (@smpso_run_l2_body ind rev RSetPop).
    Notation B2 := (@Build_smpso_run_l2_st ind rev).
    Notation b3 := (@smpso_run_l3_body ind rev RSyncInd).
    Notation B3 := (@Build_smpso_run_l3_st ind rev).
    Notation b4 := (@smpso_run_l4_body ind rev REvaluate RGlobalBest RSyncInd RSelect RVelocity RPosition RTurbulence RPBest RSetPop o_select).
    Notation B4 := (@Build_smpso_run_l4_st ind rev).
    Notation b5 := (@smpso_run_l5_body ind rev RSyncInd RSetPop).
    Notation B5 := (@Build_smpso_run_l5_st ind rev).

    Lemma smpso_runloop1 : forall vs acc log,
      fold_left b1 vs (B1 acc log None) = B1 (acc ++ new_inds vs log) (new_log vs log) None.
    Proof.
      induction vs as [|v vs IH]; intros acc log; cbn [fold_left new_inds new_log].
      - now rewrite app_nil_r.
      - unfold smpso_run_l1_body at 2. cbn [smpso_run_l1_ret smpso_run_l1_v1 smpso_run_l1_v2].
        rewrite IH. now rewrite <- app_assoc.
    Qed.

    Lemma smpso_runloop2 : forall xs pop log,
      fold_left b2 xs (B2 pop log None) = B2 (pop ++ xs) (log ++ map (fun x => RSetPop x 0) xs) None.
    Proof.
      induction xs as [|x xs IH]; intros pop log; cbn [fold_left map].
      - now rewrite !app_nil_r.
      - unfold smpso_run_l2_body at 2. cbn [smpso_run_l2_ret smpso_run_l2_v1 smpso_run_l2_v2].
        rewrite IH. now rewrite <- !app_assoc.
    Qed.

    Lemma smpso_runloop3 : forall xs log, fold_left b3 xs (B3 log None) = B3 (log ++ map RSyncInd xs) None.
    Proof.
      induction xs as [|x xs IH]; intros log; cbn [fold_left map].
      - now rewrite app_nil_r.
      - unfold smpso_run_l3_body at 2. cbn [smpso_run_l3_ret smpso_run_l3_v1]. rewrite IH. now rewrite <- app_assoc.
    Qed.

    Lemma smpso_runloop5 : forall it xs pop log,
      fold_left (b5 it) xs (B5 pop log None) = B5 (pop ++ xs) (log ++ flat_map (fun x => [RSetPop x (it + 1); RSyncInd x]) xs) None.
    Proof.
      intros it. induction xs as [|x xs IH]; intros pop log; cbn [fold_left flat_map].
      - now rewrite !app_nil_r.
      - unfold smpso_run_l5_body at 2. cbn [smpso_run_l5_ret smpso_run_l5_v1 smpso_run_l5_v2].
        rewrite ?(Nat.add_comm 1 it).                   (* `1 + it` is `it + 1` *)
        rewrite IH. rewrite <- !app_assoc. reflexivity.
    Qed.

    Lemma smpso_runloop4 : forall its inds pop log,
      fold_left b4 its (B4 inds pop log None) =
      let '(inds', pop', log') := generations its inds pop log in B4 inds' pop' log' None.
    Proof.
      induction its as [|it its IH]; intros inds pop log; cbn [fold_left generations]; [reflexivity|].
      unfold smpso_run_l4_body at 2. cbn [smpso_run_l4_ret smpso_run_l4_v1 smpso_run_l4_v2 smpso_run_l4_v3].
      unfold smpso_run_l5_run. rewrite smpso_runloop5. unfold smpso_run_l5_after. cbn [smpso_run_l5_ret smpso_run_l5_v1 smpso_run_l5_v2].
      rewrite IH. unfold generation_events. rewrite <- !app_assoc. reflexivity.
    Qed.

    (* the whole method: the calls it makes, in order, for any number of generations, any swarm size and any answers of
       the generator, the constructor and the selector; and what it appends to problem.individuals *)
    Theorem smpso_run_gen_eq_model : forall (pop : list ind) (N size : nat),
      smpso_run_gen RGenInit RGenerate RNew REvaluate RInitVel RInitPbest RGlobalBest RSyncInd RSelect RVelocity RPosition RTurbulence RPBest
        RSyncAll RSetPop o_gen o_new o_select pop N size =
      swarm_run_spec true pop N size.
    Proof.
      intros pop N size. unfold smpso_run_gen, swarm_run_spec. cbn [app].
      unfold smpso_run_l1_run. rewrite smpso_runloop1. unfold smpso_run_l1_after. cbn [smpso_run_l1_ret smpso_run_l1_v1 smpso_run_l1_v2 app].
      unfold smpso_run_l2_run. rewrite smpso_runloop2. unfold smpso_run_l2_after. cbn [smpso_run_l2_ret smpso_run_l2_v1 smpso_run_l2_v2].
      unfold smpso_run_l3_run. rewrite smpso_runloop3. unfold smpso_run_l3_after. cbn [smpso_run_l3_ret smpso_run_l3_v1].
      unfold smpso_run_l4_run. rewrite smpso_runloop4. unfold init_events. cbn [app].
      rewrite <- !app_assoc. cbn [app].
      destruct (generations _ _ _ _) as [[inds' pop'] log']. unfold smpso_run_l4_after.
      cbn [smpso_run_l4_ret smpso_run_l4_v1 smpso_run_l4_v2 smpso_run_l4_v3]. reflexivity.
    Qed.
  End SmpsoRun.
End Run.

(* ---------------------------------------------------------------------------------------------- *)
(* PSOGA.run, the whole method.  On top of the reading of OMOPSO / SMPSO.run:
     ind                 record type with the fields vector, features - both VOLATILE (update_position moves the vector
                         in place, a later generation may have re-pointed features): the accessors take the event log
     set_feat x f        `offspring1.features = first_selected.features` on the NEW object offspring1 (a functional
                         update of an object nobody else holds yet: tools/py2coq_eff.py `new`)
     PCopy xs            self.offspring_selector.select(xs); DECLARED to return a new list object (the two offspring are
                         appended to it in place)
     PTour xs            self.selector.select(xs): one individual (binary tournament, C03)
     PCross a b          self.crossover.cross(a, b): a sequence of which the first two items are taken (None = fewer)
     PMutate v           self.mutator.mutate(v)
   The log equals psoga_run_spec (defined here): per generation
     copy-select, update_velocity, update_position, evaluate, two tournaments, cross, two mutations, two constructions,
     features shared with the selected parents, both appended, evaluate, update_particle_best, update_global_best,
     then per particle population_id / problem.individuals / sync_individual. *)
Section RunPsoga.
  Context {T FEAT ind : Type}.

  Inductive pev : Type :=
  | PGenInit (n : nat) | PGenerate | PNew (v : list T) | PSetPop (x : ind) (k : nat)
  | PEvaluate (xs : list ind) | PInitVel (xs : list ind) | PInitPbest (xs : list ind) | PGlobalBest (xs : list ind)
  | PSyncInd (x : ind) | PCopy (xs : list ind) | PTour (xs : list ind) | PCross (a b : list T) | PMutate (v : list T)
  | PVelocity (xs : list ind) | PPosition (xs : list ind) | PPBest (xs : list ind) | PSyncAll.

  Variables (vec : list pev -> ind -> list T) (feat : list pev -> ind -> FEAT) (set_feat : ind -> FEAT -> ind).
  Variables (o_gen : list pev -> list (list T)) (o_new : list pev -> list T -> ind) (o_copy : list pev -> list ind -> list ind)
            (o_tour : list pev -> list ind -> ind) (o_cross : list pev -> list T -> list T -> list (list T))
            (o_mut : list pev -> list T -> list T).

  Fixpoint pnew_inds (vs : list (list T)) (log : list pev) : list ind :=
    match vs with [] => [] | v :: vs' => o_new (log ++ [PNew v]) v :: pnew_inds vs' (log ++ [PNew v]) end.
  Fixpoint pnew_log (vs : list (list T)) (log : list pev) : list pev :=
    match vs with [] => log | v :: vs' => pnew_log vs' (log ++ [PNew v]) end.

  Definition per_particle (k : nat) (xs : list ind) : list pev := flat_map (fun x => [PSetPop x k; PSyncInd x]) xs.

  (* one generation: (the new swarm, problem.individuals, the log); None = cross answered fewer than two vectors *)
  Definition psoga_generation (it : nat) (inds pop : list ind) (log : list pev) : option (list ind * list ind * list pev) :=
    let log := log ++ [PCopy inds] in
    let offs := o_copy log inds in
    let log := log ++ [PVelocity offs] in
    let log := log ++ [PPosition offs] in
    let log := log ++ [PEvaluate offs] in
    let log := log ++ [PTour offs] in
    let first := o_tour log offs in
    let log := log ++ [PTour offs] in
    let second := o_tour log offs in
    let log := log ++ [PCross (vec log first) (vec log second)] in
    let pair := o_cross log (vec log first) (vec log second) in
    match nth_error pair 0, nth_error pair 1 with
    | Some v1, Some v2 =>
        let log := log ++ [PMutate v1] in
        let v1 := o_mut log v1 in
        let log := log ++ [PMutate v2] in
        let v2 := o_mut log v2 in
        let log := log ++ [PNew v1] in
        let c1 := o_new log v1 in
        let log := log ++ [PNew v2] in
        let c2 := o_new log v2 in
        let c1 := set_feat c1 (feat log first) in
        let c2 := set_feat c2 (feat log second) in
        let offs := offs ++ [c1] in
        let offs := offs ++ [c2] in
        let log := log ++ [PEvaluate offs] in
        let log := log ++ [PPBest offs] in
        let log := log ++ [PGlobalBest offs] in
        Some (offs, pop ++ offs, log ++ per_particle (it + 1) offs)
    | _, _ => None
    end.

  Fixpoint psoga_generations (its : list nat) (inds pop : list ind) (log : list pev) : option (list ind * list ind * list pev) :=
    match its with
    | [] => Some (inds, pop, log)
    | it :: its' =>
        match psoga_generation it inds pop log with
        | Some (inds', pop', log') => psoga_generations its' inds' pop' log'
        | None => None
        end
    end.

  Definition psoga_run_spec (pop : list ind) (N size : nat) : option (list ind * list pev) :=
    let log0 := [PGenInit size; PGenerate] in
    let vs := o_gen log0 in
    let inds := pnew_inds vs log0 in
    let log1 := pnew_log vs log0 ++ per_particle 0 inds in
    let log2 := (((log1 ++ [PEvaluate inds]) ++ [PInitVel inds]) ++ [PInitPbest inds]) ++ [PGlobalBest inds] in
    match psoga_generations (seq 0 N) inds (pop ++ inds) log2 with
    | Some (_, pop', log') => Some (pop', log' ++ [PSyncAll])
    | None => None
    end.

  Notation b1 := (@psoga_run_l1_body T pev ind PNew o_new).
  Notation B1 := (@Build_psoga_run_l1_st pev ind).
  Notation b2 := (@psoga_run_l2_body pev ind PSyncInd PSetPop).
  Notation B2 := (@Build_psoga_run_l2_st pev ind).
  Notation b3 := (@psoga_run_l3_body T FEAT pev ind vec feat set_feat PNew PEvaluate PGlobalBest PSyncInd PCopy PTour PCross PMutate
                    PVelocity PPosition PPBest PSetPop o_new o_copy o_tour o_cross o_mut).
  Notation B3 := (@Build_psoga_run_l3_st pev ind).
  Notation b4 := (@psoga_run_l4_body pev ind PSyncInd PSetPop).
  Notation B4 := (@Build_psoga_run_l4_st pev ind).

  Lemma psoga_runloop1 : forall vs acc log,
    fold_left b1 vs (B1 acc log None) = B1 (acc ++ pnew_inds vs log) (pnew_log vs log) None.
  Proof.
    induction vs as [|v vs IH]; intros acc log; cbn [fold_left pnew_inds pnew_log].
    - now rewrite app_nil_r.
    - unfold psoga_run_l1_body at 2. cbn [psoga_run_l1_ret psoga_run_l1_v1 psoga_run_l1_v2].
      rewrite IH. now rewrite <- app_assoc.
  Qed.

  Lemma psoga_runloop2 : forall xs pop log,
    fold_left b2 xs (B2 pop log None) = B2 (pop ++ xs) (log ++ per_particle 0 xs) None.
  Proof.
    unfold per_particle. induction xs as [|x xs IH]; intros pop log; cbn [fold_left flat_map].
    - now rewrite !app_nil_r.
    - unfold psoga_run_l2_body at 2. cbn [psoga_run_l2_ret psoga_run_l2_v1 psoga_run_l2_v2].
      rewrite IH. rewrite <- !app_assoc. reflexivity.
  Qed.

  Lemma psoga_runloop4 : forall it xs pop log,
    fold_left (b4 it) xs (B4 pop log None) = B4 (pop ++ xs) (log ++ per_particle (it + 1) xs) None.
  Proof.
    unfold per_particle. intros it. induction xs as [|x xs IH]; intros pop log; cbn [fold_left flat_map].
    - now rewrite !app_nil_r.
    - unfold psoga_run_l4_body at 2. cbn [psoga_run_l4_ret psoga_run_l4_v1 psoga_run_l4_v2].
      rewrite ?(Nat.add_comm 1 it).
      rewrite IH. rewrite <- !app_assoc. reflexivity.
  Qed.

  Lemma psoga_stop3 : forall l st, psoga_run_l3_ret st <> None -> fold_left b3 l st = st.
  Proof.
    apply (fold_left_stop _ (fun st => psoga_run_l3_ret st <> None)).
    intros st x Hs. cbv beta delta [psoga_run_l3_body]. destruct (psoga_run_l3_ret st); congruence.
  Qed.

  (* one `let` at a time, outermost first, its value named by a variable first: the generated step nests 14 event-log
     lets, each log in the arguments of the next oracle; expanding them all at once is exponential in the term's size *)
  Ltac zeta1 :=
    match goal with
    | |- context G [let x := ?v in @?b x] =>
        first [ is_var v; let t := eval cbv beta in (b v) in let g := context G [t] in change g
              | match goal with
                | z := ?w |- _ => constr_eq w v; let t := eval cbv beta in (b z) in let g := context G [t] in change g
                end
              | let y := fresh "y" in
                set (y := v);
                match goal with
                | |- context G' [let x := y in @?b' x] =>
                    let t := eval cbv beta in (b' y) in let g := context G' [t] in change g
                end ]
    end.

  Lemma psoga_runloop3 : forall its inds pop log,
    match psoga_generations its inds pop log with
    | Some (inds', pop', log') => fold_left b3 its (B3 inds pop log None) = B3 inds' pop' log' None
    | None => psoga_run_l3_ret (fold_left b3 its (B3 inds pop log None)) = Some None
    end.
  Proof.
    induction its as [|it its IH]; intros inds pop log; cbn [fold_left psoga_generations]; [reflexivity|].
    match goal with |- context [fold_left ?f its (?f ?s it)] => set (F := fold_left f its) end.
    cbv beta iota delta [psoga_run_l3_body psoga_generation psoga_run_l3_ret psoga_run_l3_v1 psoga_run_l3_v2 psoga_run_l3_v3].
    repeat zeta1.
    repeat match goal with y := _ |- _ => tryif constr_eq y F then fail else clearbody y end.
    match goal with |- context [nth_error ?p 0] => destruct (nth_error p 0) as [v1|] end;
      [|subst F; rewrite psoga_stop3 by (cbn; discriminate); reflexivity].
    match goal with |- context [nth_error ?p 1] => destruct (nth_error p 1) as [v2|] end;
      [|subst F; rewrite psoga_stop3 by (cbn; discriminate); reflexivity].
    repeat zeta1.
    repeat match goal with y := _ |- _ => tryif constr_eq y F then fail else clearbody y end.
    unfold psoga_run_l4_run. rewrite psoga_runloop4. unfold psoga_run_l4_after.
    cbv beta iota delta [psoga_run_l4_ret psoga_run_l4_v1 psoga_run_l4_v2].
    subst F. apply IH.
  Qed.

  Theorem psoga_run_gen_eq_model : forall (pop : list ind) (N size : nat),
    psoga_run_gen vec feat set_feat PGenInit PGenerate PNew PEvaluate PInitVel PInitPbest PGlobalBest PSyncInd PCopy PTour PCross PMutate
      PVelocity PPosition PPBest PSyncAll PSetPop o_gen o_new o_copy o_tour o_cross o_mut pop N size =
    psoga_run_spec pop N size.
  Proof.
    intros pop N size. unfold psoga_run_gen, psoga_run_spec. cbn [app].
    unfold psoga_run_l1_run. rewrite psoga_runloop1. unfold psoga_run_l1_after. cbn [psoga_run_l1_ret psoga_run_l1_v1 psoga_run_l1_v2 app].
    unfold psoga_run_l2_run. rewrite psoga_runloop2. unfold psoga_run_l2_after. cbn [psoga_run_l2_ret psoga_run_l2_v1 psoga_run_l2_v2].
    unfold psoga_run_l3_run.
    match goal with |- context [fold_left _ (seq 0 N) (B3 ?i ?p ?l None)] => pose proof (psoga_runloop3 (seq 0 N) i p l) as H end.
    destruct (psoga_generations _ _ _ _) as [[[inds' pop'] log']|].
    - rewrite H. reflexivity.
    - unfold psoga_run_l3_after. rewrite H. reflexivity.
  Qed.

End RunPsoga.

(* ---------------------------------------------------------------------------------------------- *)
(* select_leader of the three classes (the same text three times), whole methods.  Model/Swarm.v takes the leader as an
   input of update_velocity (v_leader), so there is no model function; the specification is defined here:
   a sole leader is returned by rand_choice(); otherwise rand_sample(2) and the binary tournament on
   features['crowding_distance']: the SECOND candidate wins only with a strictly larger distance.
     SSize / SChoice / SSample n   self.leaders.size() / rand_choice() / rand_sample(n), answers arbitrary in the log;
   None = rand_sample answered fewer than two members (IndexError). *)
Section SelectLeader.
  Context {T ind : Type} (ltb : T -> T -> bool) (cd : ind -> T).
  Inductive sev : Type := SSize | SChoice | SSample (n : nat).
  Variables (o_size : list sev -> nat) (o_choice : list sev -> ind) (o_sample : list sev -> nat -> list ind).

  Definition select_leader_spec : option (ind * list sev) :=
    if Nat.eqb (o_size [SSize]) 1 then Some (o_choice [SSize; SChoice], [SSize; SChoice])
    else match o_sample [SSize; SSample 2] 2 with
         | c0 :: c1 :: _ => Some (if ltb (cd c0) (cd c1) then c1 else c0, [SSize; SSample 2])
         | _ => None
         end.

  (* unfolds the generated function and its lifted continuations (if any), whatever they are called *)
  Ltac select_leader_proof :=
    cbv beta zeta delta -[Nat.eqb nth_error app]; cbn [app]; rewrite ?(Nat.eqb_sym 1); destruct (Nat.eqb (o_size [SSize]) 1); [reflexivity|];
    destruct (o_sample [SSize; SSample 2] 2) as [|c0 [|c1 r]]; cbn [nth_error]; try reflexivity;
    destruct (ltb (cd c0) (cd c1)); reflexivity.

  Theorem omopso_select_leader_gen_eq_model :
    omopso_select_leader_gen ltb cd SSize SChoice SSample o_size o_choice o_sample = select_leader_spec.
  Proof. select_leader_proof. Qed.

  Theorem smpso_select_leader_gen_eq_model :
    smpso_select_leader_gen ltb cd SSize SChoice SSample o_size o_choice o_sample = select_leader_spec.
  Proof. select_leader_proof. Qed.

  Theorem psoga_select_leader_gen_eq_model :
    psoga_select_leader_gen ltb cd SSize SChoice SSample o_size o_choice o_sample = select_leader_spec.
  Proof. select_leader_proof. Qed.
End SelectLeader.

(* ---------------------------------------------------------------------------------------------- *)
(* SMPSO / PSOGA.init_pvelocity, whole methods (write log of features['velocity']): every particle gets a new list of
   len(vector) zeros, in list order *)
Section InitVelocity.
  Context {T P : Type} (zero : T) (vec : P -> list T).
  Definition init_velocity_spec (ps : list P) : list (list T) := map (fun p => repeat zero (length (vec p))) ps.

  Lemma smpso_init_loop : forall ps acc,
    fold_left (@smpso_init_pvelocity_l1_body T P zero vec) ps (Build_smpso_init_pvelocity_l1_st acc None) =
    Build_smpso_init_pvelocity_l1_st (acc ++ init_velocity_spec ps) None.
  Proof.
    induction ps as [|p ps IH]; intros acc; cbn [fold_left init_velocity_spec map].
    - now rewrite app_nil_r.
    - unfold smpso_init_pvelocity_l1_body at 2. cbn [smpso_init_pvelocity_l1_ret smpso_init_pvelocity_l1_v1].
      rewrite IH. now rewrite <- app_assoc.
  Qed.

  Theorem smpso_init_pvelocity_gen_eq_model : forall ps : list P, smpso_init_pvelocity_gen zero vec ps = init_velocity_spec ps.
  Proof. intros ps. unfold smpso_init_pvelocity_gen, smpso_init_pvelocity_l1_run. rewrite smpso_init_loop. reflexivity. Qed.

  Lemma psoga_init_loop : forall ps acc,
    fold_left (@psoga_init_pvelocity_l1_body T P zero vec) ps (Build_psoga_init_pvelocity_l1_st acc None) =
    Build_psoga_init_pvelocity_l1_st (acc ++ init_velocity_spec ps) None.
  Proof.
    induction ps as [|p ps IH]; intros acc; cbn [fold_left init_velocity_spec map].
    - now rewrite app_nil_r.
    - unfold psoga_init_pvelocity_l1_body at 2. cbn [psoga_init_pvelocity_l1_ret psoga_init_pvelocity_l1_v1].
      rewrite IH. now rewrite <- app_assoc.
  Qed.

  Theorem psoga_init_pvelocity_gen_eq_model : forall ps : list P, psoga_init_pvelocity_gen zero vec ps = init_velocity_spec ps.
  Proof. intros ps. unfold psoga_init_pvelocity_gen, psoga_init_pvelocity_l1_run. rewrite psoga_init_loop. reflexivity. Qed.
End InitVelocity.

(* ---------------------------------------------------------------------------------------------- *)
(* the binary64 instances (they pin the operators and the literals 0, 2 and round(., 1)) against the instance
   the executable driver Run/C18Run.v runs *)
From Coq Require Import Floats.
From Artap Require Import Run.C18Run.

Corollary update_velocity_whole_gen_float : forall (P : Type) (vec best : P -> list float) khi round o_sel o_uni o_w
    (individuals : list P) (params : list (float * float)) r1min r1max r2min r2max c1min c1max c2min c2max,
  update_velocity_gen_f vec best (@bnd float) khi round ESel EUni EInertia o_sel o_uni o_w
    individuals params r1min r1max r2min r2max c1min c1max c2min c2max =
  match update_velocity PrimFloat.ltb PrimFloat.add PrimFloat.sub PrimFloat.mul PrimFloat.div PrimFloat.opp TWO VBase params
          (swarm_of vec best khi round o_sel o_uni o_w r1min r1max r2min r2max c1min c1max c2min c2max [] individuals) with
  | Some vss => Some (vss, log_of vec r1min r1max r2min r2max c1min c1max c2min c2max [] individuals)
  | None => None
  end.
Proof. intros. unfold update_velocity_gen_f. apply update_velocity_gen_eq_model. Qed.

Corollary psoga_update_velocity_whole_gen_float : forall (P : Type) (vec best : P -> list float) khi round o_sel o_uni
    (individuals : list P) (params : list (float * float)) r1min r1max c1min c1max,
  psoga_update_velocity_gen_f vec best (@bnd float) khi round ESel EUni o_sel o_uni individuals params r1min r1max c1min c1max =
  match update_velocity PrimFloat.ltb PrimFloat.add PrimFloat.sub PrimFloat.mul PrimFloat.div PrimFloat.opp TWO VPsoga params
          (pswarm_of vec best khi round o_sel o_uni r1min r1max c1min c1max [] individuals) with
  | Some vss => Some (vss, plog_of r1min r1max c1min c1max [] individuals)
  | None => None
  end.
Proof. intros. unfold psoga_update_velocity_gen_f. apply psoga_update_velocity_gen_eq_model. Qed.

Corollary select_leader_gen_float : forall (ind : Type) (cd : ind -> float) o_size o_choice o_sample,
  omopso_select_leader_gen_f cd SSize SChoice SSample o_size o_choice o_sample = select_leader_spec PrimFloat.ltb cd o_size o_choice o_sample /\
  smpso_select_leader_gen_f cd SSize SChoice SSample o_size o_choice o_sample = select_leader_spec PrimFloat.ltb cd o_size o_choice o_sample /\
  psoga_select_leader_gen_f cd SSize SChoice SSample o_size o_choice o_sample = select_leader_spec PrimFloat.ltb cd o_size o_choice o_sample.
Proof.
  intros. split; [|split].
  - apply omopso_select_leader_gen_eq_model.
  - apply smpso_select_leader_gen_eq_model.
  - apply psoga_select_leader_gen_eq_model.
Qed.

Corollary init_pvelocity_gen_float : forall (P : Type) (vec : P -> list float) (ps : list P),
  smpso_init_pvelocity_gen_f vec ps = init_velocity_spec 0%float vec ps /\
  psoga_init_pvelocity_gen_f vec ps = init_velocity_spec 0%float vec ps.
Proof. intros. split; [apply smpso_init_pvelocity_gen_eq_model | apply psoga_init_pvelocity_gen_eq_model]. Qed.

(* Print Assumptions of the theorems above is run by harness/core.py translated_obligations (qualified names, whitelist) *)
