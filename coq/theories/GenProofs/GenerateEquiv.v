(* The definitions generated from artap/algorithm_genetic.py (GeneticAlgorithm.generate: the TEST and the BODY of its
   `while` loop; the frame `offsprings = []; while ...; return offsprings` is checked by tools/py2coq_run.py) on THIS run
   equal the hand-written model Model/Runs.v: the test is the stop test of `generate`, one pass of the body is
   `gen_step`, and iterating the generated body while the generated test holds, fed from a candidate stream, is
   `Runs.generate`.  For all inputs: every population size N, every offspring list, every answer of selector,
   archive, crossover and mutator.  Compiled per run against the freshly generated ArtapGen.GenerateGen.

   Reading of the generated interface:
     ind := cand = (identity, vector)   an unevaluated Individual of the model; `.vector` = snd, a field assignment
                                        replaces the vector and keeps the identity; `==` = veq on the vectors
     ev  := gev                         GSelect / GRand / GCross / GClass / GMutate: the operator calls in program order
     o_select, o_rand, o_cross          ARBITRARY history-dependent oracles (tournament, archive.rand_choice, SBX)
     o_class                            parent1.__class__(v): the k-th object constructed in this pass gets the
                                        identity ctr + k - 1 (what the model's counter says)
     o_mutate                           the first call answers m1, the second m2 (arbitrary): (m1, m2) is the pair of
                                        the model's candidate stream for this pass *)
From Coq Require Import List ZArith Bool Arith Lia.
From Artap Require Import Model.Runs.
From ArtapGen Require Import GenTactics GenerateGen.
Import ListNotations.
Local Open Scope nat_scope.

Section GenerateEquiv.
  Context {V ARCH : Type}.
  Variable veq : V -> V -> bool.
  Notation cnd := (nat * V)%type.

  Inductive gev : Type :=
  | GSelect (ps : list cnd) | GRand (a : ARCH) | GCross (a b : V) | GClass (p : cnd) (v : V) | GMutate (a b : V).

  Definition is_class (e : gev) : bool := match e with GClass _ _ => true | _ => false end.
  Definition is_mut (e : gev) : bool := match e with GMutate _ _ => true | _ => false end.
  Definition nclass (log : list gev) : nat := length (filter is_class log).
  Definition nmut (log : list gev) : nat := length (filter is_mut log).

  Definition eqc (a b : cnd) : bool := veq (snd a) (snd b).
  Definition setv (x : cnd) (v : V) : cnd := (fst x, v).

  Notation k1 := (@generate_body_k1 gev cnd eqc).
  Notation k2 := (@generate_body_k2 gev cnd eqc).

  (* the third `if`: child2 *)
  Lemma k1_eq : forall offs N (log : list gev) c2, k1 offs N log c2 = (gen_add2 veq N c2 offs, log).
  Proof.
    intros. unfold generate_body_k1, gen_add2, repeated, eqc, cand.
    destruct (existsb _ offs); destruct (length offs <? N); reflexivity.
  Qed.

  (* the second `if`: child1 *)
  Lemma k2_eq : forall offs N (log : list gev) c1 c2,
    k2 offs N log c1 c2 = (gen_add2 veq N c2 (gen_add1 veq N c1 offs), log).
  Proof.
    intros. unfold generate_body_k2, gen_add1, repeated, eqc, cand. rewrite !k1_eq.
    destruct (existsb _ offs); destruct (length offs <? N); reflexivity.
  Qed.

  (* the first `if`: the first child is always appended *)
  Lemma first_eq : forall (offs : list cnd) c1,
    (if Nat.eqb (length offs) 0 then offs ++ [c1] else offs) = gen_first offs c1.
  Proof. intros [|o offs] c1; reflexivity. Qed.

  Variables (o_select : list gev -> list cnd -> cnd) (o_rand : list gev -> ARCH -> cnd)
            (o_cross : list gev -> V -> V -> V * V).
  Definition o_class (ctr : nat) (log : list gev) (p : cnd) (v : V) : cnd := (ctr + pred (nclass log), v).
  Definition o_mutate (m1 m2 : V) (log : list gev) (a b : V) : V := if Nat.eqb (nmut log) 1 then m1 else m2.

  Notation k3 ctr m1 m2 := (@generate_body_k3 V gev cnd snd eqc setv GCross GClass GMutate o_cross (o_class ctr) (o_mutate m1 m2)).

  Definition body (ctr : nat) (m1 m2 : V) :=
    @generate_body_gen V ARCH gev cnd snd eqc setv
      GSelect GRand GCross GClass GMutate o_select o_rand o_cross (o_class ctr) (o_mutate m1 m2).

  (* crossover, two constructor calls, two mutations, then the three `if`s; for a log without constructor /
     mutator events so far *)
  Lemma k3_eq : forall offs N (log : list gev) p1 p2 ctr m1 m2,
    nclass log = 0 -> nmut log = 0 ->
    let g := k3 ctr m1 m2 offs N log p1 p2 in
    fst g = gen_step veq N offs ctr (m1, m2) /\ nclass (snd g) = 2 /\ nmut (snd g) = 2.
  Proof.
    intros offs N log p1 p2 ctr m1 m2 Hc Hm. unfold generate_body_k3. cbn zeta.
    set (x := o_cross _ _ _).
    assert (Ec : forall l e, nclass (l ++ [e]) = nclass l + (if is_class e then 1 else 0)).
    { intros; unfold nclass; rewrite filter_app, app_length; cbn; destruct (is_class e); reflexivity. }
    assert (Em : forall l e, nmut (l ++ [e]) = nmut l + (if is_mut e then 1 else 0)).
    { intros; unfold nmut; rewrite filter_app, app_length; cbn; destruct (is_mut e); reflexivity. }
    unfold o_class, o_mutate. rewrite !Ec, !Em, Hc, Hm. cbn [is_class is_mut Nat.add pred Nat.eqb].
    rewrite Nat.add_0_r, Nat.add_1_r. unfold setv. cbn [fst snd]. rewrite !k2_eq.
    destruct offs as [|o offs]; cbn [length Nat.eqb fst snd]; repeat split;
      try (unfold gen_step, gen_first; reflexivity);
      rewrite ?Ec, ?Em, ?Hc, ?Hm; reflexivity.
  Qed.

  Theorem body_sect : forall parents archive offs N has_archive archive_small ctr m1 m2,
    let g := body ctr m1 m2 parents archive offs N has_archive archive_small in
    fst g = gen_step veq N offs ctr (m1, m2) /\ nclass (snd g) = 2 /\ nmut (snd g) = 2.
  Proof.
    intros parents archive offs N ha sm ctr m1 m2. unfold body, generate_body_gen. cbn zeta.
    destruct ha; [destruct sm|]; apply k3_eq; reflexivity.
  Qed.

  (* the loop of the function: repeat the generated BODY while the generated TEST holds; one stream pair per pass
     (the answers of the two mutator calls), the stream is the fuel as in the model *)
  Variables (parents : list cnd) (archive : ARCH) (has_archive archive_small : bool).
  Fixpoint iterate (N : nat) (stream : list (V * V)) (offs : list cnd) (ctr : nat) : option (list cnd * nat) :=
    match stream with
    | [] => if generate_test_gen parents archive offs N then None else Some (offs, ctr)
    | vv :: s' =>
        if generate_test_gen parents archive offs N
        then iterate N s' (fst (body ctr (fst vv) (snd vv) parents archive offs N has_archive archive_small)) (S (S ctr))
        else None
    end.

  Lemma test_sect : forall (offs : list cnd) N, generate_test_gen parents archive offs N = negb (N <=? length offs).
  Proof. intros. unfold generate_test_gen. apply Nat.ltb_antisym. Qed.

  Theorem iterate_sect : forall N stream offs ctr, iterate N stream offs ctr = generate veq N stream offs ctr.
  Proof.
    intros N; induction stream as [|[v1 v2] s IH]; intros offs ctr; cbn [iterate generate]; rewrite test_sect; unfold cand.
    - destruct (N <=? length offs); reflexivity.
    - destruct (N <=? length offs); cbn [negb]; [reflexivity|].
      rewrite IH. cbn [fst snd]. now rewrite (proj1 (body_sect parents archive offs N has_archive archive_small ctr v1 v2)).
  Qed.
End GenerateEquiv.

(* the stop test of the while loop = the stop test of Runs.generate *)
Theorem generate_test_gen_eq_model : forall (V ARCH : Type) (parents : list (nat * V)) (archive : ARCH)
    (offs : list (nat * V)) (N : nat),
  generate_test_gen parents archive offs N = negb (N <=? length offs).
Proof. intros. apply test_sect. Qed.

(* one pass of the while loop = Runs.gen_step, whatever selector, archive and crossover answer and whether or not an
   archive is given; exactly two objects are constructed (the model's counter advances by 2) and the mutator is called
   exactly twice *)
Theorem generate_body_gen_eq_model : forall (V ARCH : Type) (veq : V -> V -> bool)
    (o_select : list (@gev V ARCH) -> list (nat * V) -> nat * V) (o_rand : list (@gev V ARCH) -> ARCH -> nat * V)
    (o_cross : list (@gev V ARCH) -> V -> V -> V * V)
    (parents : list (nat * V)) (archive : ARCH) (offs : list (nat * V)) (N : nat) (has_archive archive_small : bool)
    (ctr : nat) (m1 m2 : V),
  let g := body veq o_select o_rand o_cross ctr m1 m2 parents archive offs N has_archive archive_small in
  fst g = gen_step veq N offs ctr (m1, m2) /\ nclass (snd g) = 2 /\ nmut (snd g) = 2.
Proof. intros. apply body_sect. Qed.

(* the whole loop: generated body iterated while the generated test holds = Runs.generate *)
Theorem generate_gen_iter_eq_model : forall (V ARCH : Type) (veq : V -> V -> bool)
    (o_select : list (@gev V ARCH) -> list (nat * V) -> nat * V) (o_rand : list (@gev V ARCH) -> ARCH -> nat * V)
    (o_cross : list (@gev V ARCH) -> V -> V -> V * V)
    (parents : list (nat * V)) (archive : ARCH) (has_archive archive_small : bool)
    (N : nat) (stream : list (V * V)) (offs : list (nat * V)) (ctr : nat),
  iterate veq o_select o_rand o_cross parents archive has_archive archive_small N stream offs ctr
  = generate veq N stream offs ctr.
Proof. intros. apply iterate_sect. Qed.

(* Print Assumptions of the theorems above is run by harness/core.py translated_obligations (qualified names, whitelist) *)
