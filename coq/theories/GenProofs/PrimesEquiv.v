(* The definition generated from artap/doe.py (_primes_from_2_to) by tools/py2coq_np.py on THIS run is the
   hand-written model Model/Samplers.v primes_from_2_to, for every n.

   Reading of the translator: the boolean numpy array is a list of bool, `sieve[a::s] = False` is the strided
   store np_set_stride (the model's clear_from), `np.nonzero(sieve)[0]` is the list of the indices holding True,
   `x | 1` / `i & 1` are Nat.lor / Nat.land, `int(n ** 0.5)` is Nat.sqrt n, `n % 6 == 2` used as a number is
   1 / 0, integers are nat (truncated subtraction: `k - 2 * (i & 1) + 4` is the model's `k + 4 - 2 * (i & 1)`
   because k >= 2 for every i >= 1 of the range).
   Compiled per run against the freshly generated ArtapGen.PrimesGen. *)
From Coq Require Import List ZArith QArith Bool Arith Lia.
From Artap Require Import Model.Samplers Proofs.SamplersProofs.
From ArtapGen Require Import GenTactics PrimesGen.
Import ListNotations.
Local Open Scope nat_scope.

Lemma np_set_stride_clear start step : forall l idx,
  np_set_stride idx start step false l = clear_from idx start step l.
Proof. induction l as [|b t IH]; intros idx; cbn; [reflexivity|]. now rewrite IH. Qed.

Lemma np_nonzero_from_eq : forall l idx, np_nonzero_from idx l = nonzero_from idx l.
Proof. induction l as [|b t IH]; intros idx; cbn; [reflexivity|]. now rewrite !IH. Qed.

Lemma land_1_le i : Nat.land i 1 <= 1.
Proof.
  replace (Nat.land i 1) with (Nat.land i (Nat.ones 1)) by reflexivity.
  rewrite Nat.land_ones. change (2 ^ 1) with 2.
  pose proof (Nat.mod_upper_bound i 2). lia.
Qed.

Lemma fold_left_ext_in {A B} (f g : A -> B -> A) (l : list B) :
  (forall a x, In x l -> f a x = g a x) -> forall a, fold_left f l a = fold_left g l a.
Proof.
  induction l as [|x l IH]; intros H a; cbn; [reflexivity|].
  rewrite H by (now left). apply IH. intros; apply H; now right.
Qed.

Lemma skipn_1_tl {A} (l : list A) : skipn 1 l = tl l.
Proof. destruct l; reflexivity. Qed.

Theorem primes_from_2_to_gen_eq_model : forall n : nat, primes_from_2_to_gen n = primes_from_2_to n.
Proof.
  intros n. unfold primes_from_2_to_gen, primes_from_2_to. cbv zeta.
  rewrite Nat.add_sub.
  match goal with |- context [fold_left ?f (seq 1 ?m) ?s0] =>
    rewrite (fold_left_ext_in f sieve_step (seq 1 m))
  end.
  - rewrite np_nonzero_from_eq, skipn_1_tl, !map_map. cbn [app]. reflexivity.
  - intros sieve i Hi. apply in_seq in Hi. unfold sieve_step. cbv beta zeta.
    destruct (nth i sieve false); [|reflexivity].
    rewrite !np_set_stride_clear.
    pose proof (land_1_le i) as Hl.
    pose proof (lor_1_ge (3 * i + 1) ltac:(lia)) as Hk.
    replace (Nat.lor (3 * i + 1) 1 - 2 * Nat.land i 1 + 4) with (Nat.lor (3 * i + 1) 1 + 4 - 2 * Nat.land i 1) by lia.
    reflexivity.
Qed.

(* the primes below 50, computed from the translated definition *)
Example primes_from_2_to_gen_50 : primes_from_2_to_gen 50 = [2; 3; 5; 7; 11; 13; 17; 19; 23; 29; 31; 37; 41; 43; 47].
Proof. vm_compute. reflexivity. Qed.

(* Print Assumptions of the theorem above is run by harness/core.py translated_obligations (qualified names, whitelist) *)
