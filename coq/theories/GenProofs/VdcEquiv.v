(* The definition generated from artap/doe.py (_van_der_corput) by tools/py2coq.py on THIS run, instantiated
   at the exact rationals (T := Q, + * / := Qplus Qmult Qdiv, the int -> float conversion := qn, the literals
   0. and 1. := 0 and 1), is the hand-written model Model/Samplers.v van_der_corput term for term, for every
   base >= 2 and every fuel >= n_sample (the `while i > 0` loop is a recursion on fuel: one unit per pass and
   one for the final test; for base 1 the loop does not terminate - no fuel is enough -, for base 0 divmod
   raises).  Compiled per run against the freshly generated ArtapGen.VdcGen. *)
From Coq Require Import List ZArith QArith Bool Arith Lia.
From Artap Require Import Model.Samplers.
From ArtapGen Require Import GenTactics VdcGen.
Import ListNotations.
Local Open Scope nat_scope.

Section VdcEquiv.
  Variable base : nat.
  Hypothesis Hbase : 2 <= base.

  Notation wloop := (van_der_corput_w2_loop Qplus Qmult Qdiv qn base).

  Lemma div_lt_self : forall i, 0 < i -> i / base < i.
  Proof. intros i Hi. apply Nat.div_lt; lia. Qed.

  Lemma while_spec : forall F f i sq (denom acc : Q), i <= f -> i < F ->
    wloop sq F i denom acc = Build_van_der_corput_l1_st (sq ++ [vdc_loop f base i denom acc]) None.
  Proof.
    induction F as [|F IH]; intros f i sq denom acc Hf HF; [lia|].
    cbn [van_der_corput_w2_loop].
    destruct i as [|i].
    - cbn [Nat.ltb Nat.leb]. unfold van_der_corput_w2_after. destruct f; reflexivity.
    - change (0 <? S i) with true. cbv iota.
      replace (base =? 0) with false by (symmetry; apply Nat.eqb_neq; lia).
      destruct f as [|f]; [lia|]. cbn [vdc_loop Nat.eqb].
      pose proof (div_lt_self (S i) ltac:(lia)) as Hd.
      apply IH; lia.
  Qed.

  Lemma for_spec : forall fuel (l : list nat) sq, (forall i, In i l -> i < fuel) ->
    fold_left (van_der_corput_l1_body Qplus Qmult Qdiv qn 0%Q 1%Q base fuel) l (Build_van_der_corput_l1_st sq None) =
    Build_van_der_corput_l1_st (sq ++ map (vdc_at base) l) None.
  Proof.
    intros fuel l; induction l as [|i l IH]; intros sq H.
    - cbn. now rewrite app_nil_r.
    - cbn [fold_left]. match goal with |- context [fold_left ?f l (?f ?st i)] => let F := fresh in set (F := fold_left f l); unfold van_der_corput_l1_body; cbn [van_der_corput_l1_ret van_der_corput_l1_v1]; subst F end.
      rewrite (while_spec fuel i i sq 1%Q 0%Q (le_n i)) by (apply H; now left).
      rewrite IH by (intros; apply H; now right). unfold vdc_at at 2. cbn [map]. now rewrite <- app_assoc.
  Qed.

  Theorem van_der_corput_gen_eq_model : forall n_sample fuel, n_sample <= fuel ->
    van_der_corput_gen Qplus Qmult Qdiv qn 0%Q 1%Q n_sample base fuel = Some (van_der_corput n_sample base).
  Proof.
    intros n fuel H. unfold van_der_corput_gen, van_der_corput_l1_run.
    rewrite for_spec by (intros i Hi; apply in_seq in Hi; lia). reflexivity.
  Qed.
End VdcEquiv.

(* Print Assumptions of the theorems above is run by harness/core.py translated_obligations (qualified names, whitelist) *)
