(* Guard mode: the test under which WorstCaseEvaluator.run OVERWRITES the last cost entry of a design
   with the sensitivity (instead of appending a new entry), translated from artap/operators.py by
   tools/py2coq.py on THIS run, is the test of the model Model/Evaluators.v wc_post:
   len(individual.costs) >= self.n with self.n = m + 1 (the F11 repair).  Only the enclosing `if` test
   of the designated statement is translated in this mode (run() works on object lists with effects,
   outside the translated subset). *)
From Coq Require Import List ZArith Bool Arith Lia ZifyBool.
From Artap Require Import Model.Evaluators.
From ArtapGen Require Import GenTactics WorstCaseGuardGen.
Import ListNotations.

Theorem wc_overwrite_guard_gen_eq_model : forall (T : Type) (costs : list T) (m : nat),
  wc_overwrite_guard_gen costs (S m) = (S m <=? length costs)%nat.
Proof. intros. unfold wc_overwrite_guard_gen. case_ifs; lia. Qed.

(* the model's post-processing of one design, with its test replaced by the generated guard *)
Theorem wc_overwrite_guard_gen_post : forall (T : Type) (sub : T -> T -> T) (abs : T -> T) (zero : T)
    (psum : list T -> T) (m : nat) (h : heap T) (id : nat),
  wc_post T sub abs zero psum m h id =
  let d := h_get T h id in
  let x := wc_sens T sub abs zero psum h d in
  if wc_overwrite_guard_gen (d_costs T d) (S m)
  then hupd T h id (set_sens T d (set_last x (d_costs T d)) (set_m2 (@SV T x) (d_signed T d)) x)
  else hupd T h id (set_sens T d (d_costs T d ++ [x]) (insert_m1 (@SV T x) (d_signed T d)) x).
Proof. intros. cbv zeta. rewrite wc_overwrite_guard_gen_eq_model. reflexivity. Qed.

(* Print Assumptions of the theorems above is run by harness/core.py translated_obligations (qualified names, whitelist) *)
