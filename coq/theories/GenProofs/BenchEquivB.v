(* The definitions generated on THIS run by tools/py2coq_bench.py from artap/benchmark_functions.py (classes SixHump,
   Schubert, Zakharov, XinSheYang, XinSheYang2, XinSheYang3, Booth, GramacyLee, AlpineFunction: `evaluate` and the declared
   data of `set`), instantiated at Coq's reals, equal the hand-written models of Model/Bench.v (see BenchEquivA.v).
   Fixed-dimension classes index their vector (x[0], x[1] = nth 0 x 0, nth 1 x 0): equal to the model for every vector
   that is long enough (Python raises IndexError on a shorter one; the model returns 0).  XinSheYang3 draws
   uniform(0, 1) once per coordinate: the generated definition takes the stream of draws, the model the tape of the
   first `length x` draws. *)
From Coq Require Import Reals List Arith Lia Lra.
From Artap Require Import Model.Bench Proofs.BenchGenLemmas.
From ArtapGen Require Import BenchGenB.
Import ListNotations.
Local Open Scope R_scope.

Ltac rops := cbv beta iota zeta delta [R_ops o_ltb o_leb o_eqb o_add o_sub o_mul o_div o_neg o_abs o_pow o_exp o_sin o_cos o_sqrt o_pi o_e o_nat o_int o_dec].

Theorem SixHump_evaluate_gen_eq_model : forall x, (2 <= length x)%nat -> SixHump_evaluate_gen_R x = [sixhump x].
Proof.
  intros [|a [|b t]] H; simpl in H; try lia.
  unfold SixHump_evaluate_gen_R, SixHump_evaluate_gen. rops. reflexivity.
Qed.

Theorem SixHump_set_gen_eq_model : forall n, SixHump_set_gen_R n = declared sixhump_b n.
Proof. intros. unfold SixHump_set_gen_R, SixHump_set_gen, declared. rops. reflexivity. Qed.

Lemma INR_lit : INR 1 = 1 /\ INR 2 = 2 /\ INR 3 = 3 /\ INR 4 = 4 /\ INR 5 = 5 /\ INR 6 = 6.
Proof. repeat split; simpl; ring. Qed.

Theorem Schubert_evaluate_gen_eq_model : forall x, (2 <= length x)%nat -> Schubert_evaluate_gen_R x = [schubert x].
Proof.
  intros [|a [|b t]] H; simpl in H; try lia.
  unfold Schubert_evaluate_gen_R, Schubert_evaluate_gen. rops.
  cbn [seq fold_left Nat.add nth]. destruct INR_lit as (E1 & E2 & E3 & E4 & E5 & E6).
  rewrite E1, E2, E3, E4, E5, E6. unfold schubert, schubert_g. f_equal. ring.
Qed.

Theorem Schubert_set_gen_eq_model : forall n, Schubert_set_gen_R n = declared schubert_b n.
Proof. intros. unfold Schubert_set_gen_R, Schubert_set_gen, declared. rops. reflexivity. Qed.

Theorem Zakharov_evaluate_gen_eq_model : forall x, Zakharov_evaluate_gen_R x = [zakharov x].
Proof.
  intros. unfold Zakharov_evaluate_gen_R, Zakharov_evaluate_gen. rops.
  rewrite fold_left_triple_el, !fold_add_sum_idx, sum_idx_const, !Rplus_0_l.
  rewrite (sum_idx_ext _ (fun i c => 1 / 2 * INR (S i) * c)) by (intros; rewrite INR_add1; lra).
  reflexivity.
Qed.

Theorem Zakharov_set_gen_eq_model : forall n, Zakharov_set_gen_R n = declared zakharov_b n.
Proof. intros. unfold Zakharov_set_gen_R, Zakharov_set_gen, declared. rops. rewrite map_const_seq. reflexivity. Qed.

(* ---- XinSheYang, XinSheYang2: the loop OVERWRITES its accumulators: only the last coordinate counts *)
Theorem XinSheYang_evaluate_gen_eq_model : forall x, XinSheYang_evaluate_gen_R x = [xsy1 x].
Proof.
  intros. unfold XinSheYang_evaluate_gen_R, XinSheYang_evaluate_gen. rops.
  rewrite fold_left_pair, !fold_overwrite. unfold xsy1.
  destruct x; [|reflexivity].
  cbn [last]. rewrite Rabs_R0, !Rmult_0_l. reflexivity.
Qed.

Theorem XinSheYang_set_gen_eq_model : forall n, XinSheYang_set_gen_R n = declared xsy1_b n.
Proof. intros. unfold XinSheYang_set_gen_R, XinSheYang_set_gen, declared. rops. rewrite map_const_seq. reflexivity. Qed.

Theorem XinSheYang2_evaluate_gen_eq_model : forall x, XinSheYang2_evaluate_gen_R x = [xsy2 x].
Proof.
  intros. unfold XinSheYang2_evaluate_gen_R, XinSheYang2_evaluate_gen. rops.
  rewrite fold_left_triple, !fold_overwrite. unfold xsy2, xsy2_1.
  destruct x; [|reflexivity].
  cbn [last]. unfold Rdiv. rewrite Rmult_0_l, !pow_i, Rmult_0_r, cos_0 by lia. f_equal. ring.
Qed.

Theorem XinSheYang2_set_gen_eq_model : forall n, XinSheYang2_set_gen_R n = declared xsy2_b n.
Proof. intros. unfold XinSheYang2_set_gen_R, XinSheYang2_set_gen, declared. rops. rewrite map_const_seq. reflexivity. Qed.

(* ---- XinSheYang3: one draw of uniform(0, 1) per coordinate, in call order *)
Lemma xsy3_fold : forall (draws : nat -> R) x i k f1,
  fold_left (fun (st : R * nat) (el : nat * R) => let '(_, k) := st in let '(i, c) := el in
                (draws k * Rabs (c - 1 / (INR i + 1)), S k)) (combine (seq i (length x)) x) (f1, k)
  = (xsy3_loop i (map draws (seq k (length x))) x f1, (k + length x)%nat).
Proof.
  induction x as [|c x IH]; intros; cbn [length seq combine fold_left map xsy3_loop].
  - rewrite Nat.add_0_r. reflexivity.
  - rewrite IH, INR_plus1, Nat.add_succ_r. reflexivity.
Qed.

Theorem XinSheYang3_evaluate_gen_eq_model : forall (draws : nat -> R) x,
  XinSheYang3_evaluate_gen_R draws x = [xsy3 (map draws (seq 0 (length x))) x].
Proof.
  intros. unfold XinSheYang3_evaluate_gen_R, XinSheYang3_evaluate_gen. rops.
  change (IZR 0) with 0. rewrite xsy3_fold. reflexivity.
Qed.

Theorem XinSheYang3_set_gen_eq_model : forall eps n, XinSheYang3_set_gen_R n = declared (xsy3_b eps) n.
Proof.
  intros. unfold XinSheYang3_set_gen_R, XinSheYang3_set_gen, declared. rops.
  rewrite (map_ext _ (fun j => 1 / INR (S j))) by (intros; rewrite INR_add1; reflexivity). reflexivity.
Qed.

Theorem Booth_evaluate_gen_eq_model : forall x, (2 <= length x)%nat -> Booth_evaluate_gen_R x = [booth x].
Proof.
  intros [|a [|b t]] H; simpl in H; try lia.
  unfold Booth_evaluate_gen_R, Booth_evaluate_gen. rops. reflexivity.
Qed.

Theorem Booth_set_gen_eq_model : forall n, Booth_set_gen_R n = declared booth_b n.
Proof. intros. unfold Booth_set_gen_R, Booth_set_gen, declared. rops. reflexivity. Qed.

Theorem GramacyLee_evaluate_gen_eq_model : forall x, (1 <= length x)%nat -> GramacyLee_evaluate_gen_R x = [gramacylee x].
Proof.
  intros [|a t] H; simpl in H; try lia.
  unfold GramacyLee_evaluate_gen_R, GramacyLee_evaluate_gen. rops. reflexivity.
Qed.

(* the source writes -0.869011134989500, Python prints it as -0.8690111349895: the same decimal *)
Theorem GramacyLee_set_gen_eq_model : forall n, GramacyLee_set_gen_R n = declared gramacylee_b n.
Proof.
  intros. unfold GramacyLee_set_gen_R, GramacyLee_set_gen, declared. rops.
  replace (8690111349895 / 10000000000000) with (869011134989500 / 1000000000000000) by lra.
  replace (5 / 10) with (1 / 2) by lra. replace (25 / 10) with (5 / 2) by lra. reflexivity.
Qed.

Theorem AlpineFunction_evaluate_gen_eq_model : forall x, AlpineFunction_evaluate_gen_R x = [alpine x].
Proof.
  intros. unfold AlpineFunction_evaluate_gen_R, AlpineFunction_evaluate_gen. rops.
  rewrite ?fold_plus_map_sum, ?fold_add_sum_map, Rplus_0_l. reflexivity.   (* loop or sum / np.sum spelling *)
Qed.

Theorem AlpineFunction_set_gen_eq_model : forall n, AlpineFunction_set_gen_R n = declared alpine_b n.
Proof. intros. unfold AlpineFunction_set_gen_R, AlpineFunction_set_gen, declared. rops. rewrite map_const_seq. reflexivity. Qed.
