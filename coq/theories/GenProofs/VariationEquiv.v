(* The definitions generated from artap/operators.py by tools/py2coq_var.py (front-end of tools/py2coq.py) on THIS
   run equal the hand-written models of Model/Variation.v (C08), for all inputs (any dimension, any bounds, any
   random tape):
     PmMutator.mutate (+ pm_mutation)                              = pm_mutate         on the tape pm_tape
     UniformMutator.mutate (+ uniform_mutation)                    = uniform_mutate    on the tape uniform_tape
     NonUniformMutation.mutate (+ non_uniform_mutation, __delta)   = nonuniform_mutate on the tape nonuniform_tape
     SimulatedBinaryCrossover.cross (the whole method)             = sbx_cross         on the tape cross_tape
   Compiled per run against the freshly generated ArtapGen.VariationGen; not part of the normal build.

   Random source: the generated functions read the oracle tapes `unif a b k` (= the k-th draw, made by
   random.uniform(a, b)) and `rnd k` (random.random()), k = the number of draws made so far (last parameter
   draw_k, any start value).  The model consumes a list of entries `Draw r` / `Pre x` (x = the first argument of a
   clip call).  The adapter `mut_tape` below builds, from the same oracles, exactly the entries the model consumes:
   per parameter the threshold draw, and for a varied coordinate the draws of the per-coordinate operator followed
   by its pre-clip value (the float formula with pow, written out here: pm_pre / uniform_pre / nonuniform_pre).
   `pow` is an arbitrary function.  A parameter (lb, ub) is the object whose ['bounds'] is the list [lb; ub]. *)
From Coq Require Import List ZArith Bool Arith Lia.
From Artap Require Import Model.Variation.
From ArtapGen Require Import GenTactics VariationGen.
Import ListNotations.

Section Common.
  Context {T : Type}.

  Definition bnd (p : T * T) : list T := [fst p; snd p].

  Definition glue1 (acc : list T) (r : option (list T)) : option (list T) :=
    match r with Some l => Some (acc ++ l) | None => None end.

  Lemma glue1_step : forall acc c r, glue1 (acc ++ [c]) r = glue1 acc (ocons c r).
  Proof. intros acc c [l|]; cbn; [|reflexivity]. now rewrite <- app_assoc. Qed.

  Lemma nth_error_mid : forall (pre : list T) x r i, i = length pre -> nth_error (pre ++ x :: r) i = Some x.
  Proof. intros pre x r i ->. rewrite nth_error_app2 by lia. now rewrite Nat.sub_diag. Qed.

  Lemma nth_error_end : forall (pre : list T) i, i = length pre -> nth_error (pre ++ []) i = None.
  Proof. intros pre i ->. rewrite app_nil_r. apply nth_error_None. lia. Qed.

  Lemma clip_gen_eq_model : forall (ltb : T -> T -> bool) v lo hi, clip_gen ltb v lo hi = clip ltb v lo hi.
  Proof.
    intros ltb v lo hi. unfold clip_gen, clip, pmax, pmin.
    try unfold clip_py_min; try unfold clip_py_max. finish.
  Qed.
End Common.

(* ---------------------------------------------------------------------------------------------- *)
(* The tape the model consumes for one call of a mutator: `first k` = the threshold draw made when k draws
   were made before, `extra x lb ub k` = the entries of the per-coordinate operator called with counter k
   (its n draws, then its pre-clip value). *)
Section MutTape.
  Context {T : Type} (ltb : T -> T -> bool) (prob : T).
  Variable first : nat -> T.
  Variable n : nat.
  Variable extra : T -> T -> T -> nat -> list (entry (T := T)).

  Fixpoint mut_tape (params : list (T * T)) (parent : list T) (k : nat) : list (entry (T := T)) :=
    match params, parent with
    | (lb, ub) :: ps, x :: xs =>
        if ltb (first k) prob
        then Draw (first k) :: extra x lb ub (S k) ++ mut_tape ps xs (n + S k)
        else Draw (first k) :: mut_tape ps xs (S k)
    | _, _ => []
    end.

  Variable pre : T -> T -> T -> nat -> T.
  Hypothesis extra_shape : forall x lb ub k t, skip_draws n (extra x lb ub k ++ t) = Some (Pre (pre x lb ub k) :: t).

  Lemma mutate_with_step : forall lb ub ps x xs k,
    mutate_with ltb n prob ((lb, ub) :: ps) (x :: xs) (mut_tape ((lb, ub) :: ps) (x :: xs) k) =
    if ltb (first k) prob
    then ocons (clip ltb (pre x lb ub (S k)) lb ub) (mutate_with ltb n prob ps xs (mut_tape ps xs (n + S k)))
    else ocons x (mutate_with ltb n prob ps xs (mut_tape ps xs (S k))).
  Proof.
    intros. cbn [mut_tape]. destruct (ltb (first k) prob) eqn:E; cbn [mutate_with]; rewrite E; [|reflexivity].
    rewrite extra_shape. reflexivity.
  Qed.

  Lemma mutate_with_short : forall p ps k, mutate_with ltb n prob (p :: ps) [] (mut_tape (p :: ps) [] k) = None.
  Proof. intros [lb ub] ps k. reflexivity. Qed.

  Lemma mutate_with_done : forall xs k, mutate_with ltb n prob [] xs (mut_tape [] xs k) = Some [].
  Proof. intros. reflexivity. Qed.
End MutTape.

(* one proof script for the three generated loops.  `stop`: a stopped loop stays stopped; `unf_after`,
   `unf_leaf`: unfold the generated continuation of the loop / the per-coordinate operator *)
Ltac mutate_loop stop step unf_after unf_leaf :=
  let IH := fresh "IH" in
  intros ps; induction ps as [|[lb ub] ps IH]; intros xs prex k acc;
    [ cbn [fold_left]; unf_after; cbn; rewrite app_nil_r; reflexivity | ];
  destruct xs as [|x xs];
    [ rewrite mutate_with_short; cbn [fold_left]; loop_step;
      rewrite nth_error_end by reflexivity;
      match goal with |- context [if ?c then _ else _] => destruct c end;
      (rewrite stop by (cbn; discriminate)); unf_after; reflexivity
    | ];
  step; cbn [fold_left]; loop_step;
  rewrite nth_error_mid by reflexivity;
  match goal with |- context [if ?c then _ else _] => destruct c end;
  rewrite <- glue1_step;
  replace (prex ++ x :: xs) with ((prex ++ [x]) ++ xs) by (now rewrite <- app_assoc);
  replace (S (length prex)) with (length (prex ++ [x])) by (rewrite app_length; cbn; lia);
  repeat rewrite Nat.add_succ_r; rewrite ?Nat.add_0_r;
  [ etransitivity; [ apply IH | ]; unf_leaf; rewrite ?clip_gen_eq_model; reflexivity
  | apply IH ].

(* ---------------------------------------------------------------------------------------------- *)
Section Pm.
  Context {T : Type} (ltb : T -> T -> bool) (add sub mul div : T -> T -> T) (c0 c05 c1 c2 : T).
  Variable unif : T -> T -> nat -> T.           (* random.uniform(a, b) when k draws were made before *)
  Variable pw : T -> T -> T.                    (* pow *)
  Variables (prob dist : T).                    (* self.probability, self.distribution_index *)

  (* the value pm_mutation passes to clip; rnd is the operator's own draw *)
  Definition pm_pre (x lb ub : T) (k : nat) : T :=
    let rnd := unif c0 c1 k in
    let dx := sub ub lb in
    let mut_pow := div c1 (add dist c1) in
    let deltaq :=
      if ltb rnd c05
      then sub (pw (add (mul c2 rnd) (mul (sub c1 (mul c2 rnd)) (pw (sub c1 (div (sub x lb) dx)) (add dist c1)))) mut_pow) c1
      else sub c1 (pw (add (mul c2 (sub c1 rnd)) (mul (mul c2 (sub rnd c05)) (pw (sub c1 (div (sub ub x) dx)) (add dist c1)))) mut_pow) in
    add x (mul deltaq dx).

  Definition pm_extra (x lb ub : T) (k : nat) : list (entry (T := T)) := [Draw (unif c0 c1 k); Pre (pm_pre x lb ub k)].
  Definition pm_tape := mut_tape ltb prob (unif c0 c1) 1 pm_extra.

  Lemma pm_mutation_gen_clip : forall x lb ub k,
    pm_mutation_gen ltb add sub mul div c0 c05 c1 c2 unif pw x lb ub k dist = clip ltb (pm_pre x lb ub k) lb ub.
  Proof.
    intros. unfold pm_mutation_gen, pm_pre. rewrite <- clip_gen_eq_model.
    destruct (ltb (unif c0 c1 k) c05); reflexivity.
  Qed.

  Let body := pm_mutate_l1_body ltb add sub mul div c0 c05 c1 c2 (@bnd T) unif pw.
  Local Arguments pm_mutate_l1_after : simpl never.
  Local Arguments pm_mutation_gen : simpl never.

  Lemma pm_stop : forall parent l st, pm_mutate_l1_ret st <> None -> fold_left (body parent prob dist) l st = st.
  Proof.
    intros parent. apply (fold_left_stop _ (fun st => pm_mutate_l1_ret st <> None)).
    intros st x Hs. unfold body, pm_mutate_l1_body. destruct (pm_mutate_l1_ret st); congruence.
  Qed.

  Lemma pm_loop : forall ps xs prex k acc,
    pm_mutate_l1_run ltb add sub mul div c0 c05 c1 c2 (@bnd T) unif pw (prex ++ xs) prob dist ps (length prex) k acc =
    glue1 acc (pm_mutate ltb prob ps xs (pm_tape ps xs k)).
  Proof.
    unfold pm_mutate_l1_run, pm_mutate, pm_tape.
    mutate_loop pm_stop
      ltac:(rewrite (mutate_with_step ltb prob (unif c0 c1) 1 pm_extra pm_pre) by reflexivity)
      ltac:(unfold pm_mutate_l1_after) ltac:(rewrite pm_mutation_gen_clip).
  Qed.

  Theorem pm_mutate_gen_eq_model : forall (params : list (T * T)) (parent : list T) (iteration : T) (k : nat),
    pm_mutate_gen ltb add sub mul div c0 c05 c1 c2 (@bnd T) unif pw parent iteration k params prob dist =
    pm_mutate ltb prob params parent (pm_tape params parent k).
  Proof.
    intros. unfold pm_mutate_gen.
    etransitivity; [exact (pm_loop params parent [] k [])|].
    destruct (pm_mutate ltb prob params parent _); reflexivity.
  Qed.
End Pm.

(* ---------------------------------------------------------------------------------------------- *)
Section Uniform.
  Context {T : Type} (ltb : T -> T -> bool) (add sub mul : T -> T -> T) (c0 c05 c1 : T).
  Variable unif : T -> T -> nat -> T.           (* random.uniform(a, b) when k draws were made before *)
  Variable rnd : nat -> T.                      (* random.random() when k draws were made before *)
  Variables (prob pert : T).                    (* self.probability, self.perturbation *)

  Definition uniform_pre (x lb ub : T) (k : nat) : T := add x (mul (sub (rnd k) c05) pert).
  Definition uniform_extra (x lb ub : T) (k : nat) : list (entry (T := T)) := [Draw (rnd k); Pre (uniform_pre x lb ub k)].
  Definition uniform_tape := mut_tape ltb prob (unif c0 c1) 1 uniform_extra.

  Lemma uniform_mutation_gen_clip : forall x lb ub k,
    uniform_mutation_gen ltb add sub mul c05 rnd x lb ub k pert = clip ltb (uniform_pre x lb ub k) lb ub.
  Proof. intros. unfold uniform_mutation_gen, uniform_pre. cbv zeta. rewrite clip_gen_eq_model. reflexivity. Qed.

  Let body := uniform_mutate_l1_body ltb add sub mul c0 c05 c1 (@bnd T) unif rnd.
  Local Arguments uniform_mutate_l1_after : simpl never.
  Local Arguments uniform_mutation_gen : simpl never.

  Lemma uniform_stop : forall parent l st, uniform_mutate_l1_ret st <> None -> fold_left (body parent prob pert) l st = st.
  Proof.
    intros parent. apply (fold_left_stop _ (fun st => uniform_mutate_l1_ret st <> None)).
    intros st x Hs. unfold body, uniform_mutate_l1_body. destruct (uniform_mutate_l1_ret st); congruence.
  Qed.

  Lemma uniform_loop : forall ps xs prex k acc,
    uniform_mutate_l1_run ltb add sub mul c0 c05 c1 (@bnd T) unif rnd (prex ++ xs) prob pert ps (length prex) k acc =
    glue1 acc (uniform_mutate ltb prob ps xs (uniform_tape ps xs k)).
  Proof.
    unfold uniform_mutate_l1_run, uniform_mutate, uniform_tape.
    mutate_loop uniform_stop
      ltac:(rewrite (mutate_with_step ltb prob (unif c0 c1) 1 uniform_extra uniform_pre) by reflexivity)
      ltac:(unfold uniform_mutate_l1_after) ltac:(rewrite uniform_mutation_gen_clip).
  Qed.

  Theorem uniform_mutate_gen_eq_model : forall (params : list (T * T)) (parent : list T) (iteration : T) (k : nat),
    uniform_mutate_gen ltb add sub mul c0 c05 c1 (@bnd T) unif rnd parent iteration k params prob pert =
    uniform_mutate ltb prob params parent (uniform_tape params parent k).
  Proof.
    intros. unfold uniform_mutate_gen.
    etransitivity; [exact (uniform_loop params parent [] k [])|].
    destruct (uniform_mutate ltb prob params parent _); reflexivity.
  Qed.
End Uniform.

(* ---------------------------------------------------------------------------------------------- *)
Section NonUniform.
  Context {T : Type} (ltb leb : T -> T -> bool) (sub mul div : T -> T -> T) (c0 c05 c1 : T).
  Variable unif : T -> T -> nat -> T.
  Variable rnd : nat -> T.
  Variable pw : T -> T -> T.
  Variables (prob pert maxit iteration : T).    (* self.probability, self.perturbation, self.max_iterations, current_iteration *)

  (* NonUniformMutation.__delta(y, self.perturbation, current_iteration) drawing at counter k *)
  Definition nonuniform_delta (y : T) (k : nat) : T :=
    mul y (sub c1 (pw (rnd k) (pw (sub c1 (div (mul c1 iteration) maxit)) pert))).
  (* the coordinate is REPLACED by the delta: first draw = the side, second draw inside __delta *)
  Definition nonuniform_pre (x lb ub : T) (k : nat) : T :=
    if leb (rnd k) c05 then nonuniform_delta (sub ub x) (S k) else nonuniform_delta (sub lb x) (S k).
  Definition nonuniform_extra (x lb ub : T) (k : nat) : list (entry (T := T)) :=
    [Draw (rnd k); Draw (rnd (S k)); Pre (nonuniform_pre x lb ub k)].
  Definition nonuniform_tape := mut_tape ltb prob (unif c0 c1) 2 nonuniform_extra.

  Lemma non_uniform_mutation_gen_clip : forall x lb ub k,
    non_uniform_mutation_gen ltb leb sub mul div c05 c1 rnd pw x lb ub iteration k pert maxit =
    clip ltb (nonuniform_pre x lb ub k) lb ub.
  Proof.
    intros. unfold non_uniform_mutation_gen, nonuniform_pre, nonuniform_delta_gen, nonuniform_delta.
    rewrite <- clip_gen_eq_model. rewrite Nat.add_1_r. destruct (leb (rnd k) c05); reflexivity.
  Qed.

  Let body := nonuniform_mutate_l1_body ltb leb sub mul div c0 c05 c1 (@bnd T) unif rnd pw.
  Local Arguments nonuniform_mutate_l1_after : simpl never.
  Local Arguments non_uniform_mutation_gen : simpl never.

  Lemma nonuniform_stop : forall parent l st, nonuniform_mutate_l1_ret st <> None ->
    fold_left (body parent iteration prob pert maxit) l st = st.
  Proof.
    intros parent. apply (fold_left_stop _ (fun st => nonuniform_mutate_l1_ret st <> None)).
    intros st x Hs. unfold body, nonuniform_mutate_l1_body. destruct (nonuniform_mutate_l1_ret st); congruence.
  Qed.

  Lemma nonuniform_loop : forall ps xs prex k acc,
    nonuniform_mutate_l1_run ltb leb sub mul div c0 c05 c1 (@bnd T) unif rnd pw (prex ++ xs) iteration prob pert maxit
                             ps (length prex) k acc =
    glue1 acc (nonuniform_mutate ltb prob ps xs (nonuniform_tape ps xs k)).
  Proof.
    unfold nonuniform_mutate_l1_run, nonuniform_mutate, nonuniform_tape.
    mutate_loop nonuniform_stop
      ltac:(rewrite (mutate_with_step ltb prob (unif c0 c1) 2 nonuniform_extra nonuniform_pre) by reflexivity)
      ltac:(unfold nonuniform_mutate_l1_after) ltac:(rewrite non_uniform_mutation_gen_clip).
  Qed.

  Theorem nonuniform_mutate_gen_eq_model : forall (params : list (T * T)) (parent : list T) (k : nat),
    nonuniform_mutate_gen ltb leb sub mul div c0 c05 c1 (@bnd T) unif rnd pw parent iteration k params prob pert maxit =
    nonuniform_mutate ltb prob params parent (nonuniform_tape params parent k).
  Proof.
    intros. unfold nonuniform_mutate_gen.
    etransitivity; [exact (nonuniform_loop params parent [] k [])|].
    destruct (nonuniform_mutate ltb prob params parent _); reflexivity.
  Qed.
End NonUniform.

(* ---------------------------------------------------------------------------------------------- *)
(* SimulatedBinaryCrossover.cross, the whole method: the copies x1 = list(p1), x2 = list(p2), the probability
   draw, the loop over the parameters with its threshold draw, the abs(x2[i] - x1[i]) > EPSILON test, the
   spread-factor arithmetic, the two clips and the swap draw with the item assignments.
   The model's tests are `ltb half r` (= not r <= 0.5) and `ltb prob r`; the source writes `r <= 0.5` and
   `r <= self.probability`.  The two agree when every draw is comparable with the two thresholds (no NaN):
   hypotheses draws_vs_half / draws_vs_prob, stated on the oracle tape.  The model gives IndexError (None) for a
   parent shorter than the parameter list; the source only reads x1[i], x2[i] when coordinate i is crossed, so
   the statement is for parents at least as long as the parameter list (the box theorems have them equal). *)
Section Sbx.
  Context {T : Type} (ltb leb : T -> T -> bool) (add sub mul div : T -> T -> T) (neg absT : T -> T) (c05 c1 c2 : T).
  Variable rnd : nat -> T.                      (* random.random() when k draws were made before *)
  Variable pw : T -> T -> T.                    (* pow *)
  Variables (prob dist eps : T).                (* self.probability, self.distribution_index, EPSILON *)

  Definition sbx_far (a b : T) : bool := ltb eps (absT (sub b a)).     (* abs(x2[i] - x1[i]) > EPSILON *)

  Definition sbx_alpha (beta : T) : T := sub c2 (pw beta (neg (add dist c1))).
  Definition sbx_betaq (alpha rand : T) : T :=
    if leb rand (div c1 alpha) then pw (mul rand alpha) (div c1 (add dist c1))
    else pw (div c1 (sub c2 (mul rand alpha))) (div c1 (add dist c1)).
  (* y1, y2 = the two coordinates in increasing order *)
  Definition sbx_lo (a b : T) : T := if ltb a b then a else b.
  Definition sbx_hi (a b : T) : T := if ltb a b then b else a.
  (* the values passed to clip; k = the counter of the draw `rand` *)
  Definition sbx_pre1 (y1 y2 lb ub : T) (k : nat) : T :=
    mul c05 (sub (add y1 y2) (mul (sbx_betaq (sbx_alpha (add c1 (div (mul c2 (sub y1 lb)) (sub y2 y1)))) (rnd k)) (sub y2 y1))).
  Definition sbx_pre2 (y1 y2 lb ub : T) (k : nat) : T :=
    mul c05 (add (add y1 y2) (mul (sbx_betaq (sbx_alpha (add c1 (div (mul c2 (sub ub y2)) (sub y2 y1)))) (rnd k)) (sub y2 y1))).

  (* the entries the model consumes in the loop, from counter k on *)
  Fixpoint sbx_tape (params : list (T * T)) (x1 x2 : list T) (k : nat) : list (entry (T := T)) :=
    match params, x1, x2 with
    | (lb, ub) :: ps, a :: x1', b :: x2' =>
        if ltb c05 (rnd k) then Draw (rnd k) :: sbx_tape ps x1' x2' (S k)
        else if sbx_far a b then
          Draw (rnd k) :: Draw (rnd (S k)) ::
          Pre (sbx_pre1 (sbx_lo a b) (sbx_hi a b) lb ub (S k)) :: Pre (sbx_pre2 (sbx_lo a b) (sbx_hi a b) lb ub (S k)) ::
          Draw (rnd (S (S k))) :: sbx_tape ps x1' x2' (S (S (S k)))
        else Draw (rnd k) :: sbx_tape ps x1' x2' (S k)
    | _, _, _ => []
    end.

  Definition cross_tape (params : list (T * T)) (p1 p2 : list T) (k : nat) : list (entry (T := T)) :=
    Draw (rnd k) :: (if ltb prob (rnd k) then [] else sbx_tape params p1 p2 (S k)).

  (* the pair of children as the list [x1; x2] (`return x1, x2`) *)
  Definition pair_list (r : option (list T * list T)) : option (list (list T)) :=
    match r with Some (a, b) => Some [a; b] | None => None end.

  Definition glue2 (pre1 pre2 : list T) (r : option (list T * list T)) : option (list T * list T) :=
    match r with Some (xs, ys) => Some (pre1 ++ xs, pre2 ++ ys) | None => None end.

  Lemma glue2_step : forall pre1 pre2 x y r,
    glue2 (pre1 ++ [x]) (pre2 ++ [y]) r = glue2 pre1 pre2 (ocons2 x y r).
  Proof. intros pre1 pre2 x y [[xs ys]|]; cbn; [|reflexivity]. now rewrite <- !app_assoc. Qed.

  Lemma py_set_nth_mid : forall (pre : list T) x y r i, i = length pre ->
    py_set_nth i y (pre ++ x :: r) = Some (pre ++ y :: r).
  Proof. intros pre x y r i ->. induction pre as [|a pre IH]; cbn; [reflexivity|]. now rewrite IH. Qed.

  Lemma sbx_loop_step : forall lb ub ps a s1 b s2 k,
    sbx_loop ltb sbx_far c05 ((lb, ub) :: ps) (a :: s1) (b :: s2) (sbx_tape ((lb, ub) :: ps) (a :: s1) (b :: s2) k) =
    if ltb c05 (rnd k) then ocons2 a b (sbx_loop ltb sbx_far c05 ps s1 s2 (sbx_tape ps s1 s2 (S k)))
    else if sbx_far a b then
      let v1 := clip ltb (sbx_pre1 (sbx_lo a b) (sbx_hi a b) lb ub (S k)) lb ub in
      let v2 := clip ltb (sbx_pre2 (sbx_lo a b) (sbx_hi a b) lb ub (S k)) lb ub in
      if ltb c05 (rnd (S (S k)))
      then ocons2 v1 v2 (sbx_loop ltb sbx_far c05 ps s1 s2 (sbx_tape ps s1 s2 (S (S (S k)))))
      else ocons2 v2 v1 (sbx_loop ltb sbx_far c05 ps s1 s2 (sbx_tape ps s1 s2 (S (S (S k)))))
    else ocons2 a b (sbx_loop ltb sbx_far c05 ps s1 s2 (sbx_tape ps s1 s2 (S k))).
  Proof.
    intros. cbn [sbx_tape]. destruct (ltb c05 (rnd k)) eqn:E1; [cbn [sbx_loop]; rewrite E1; reflexivity|].
    destruct (sbx_far a b) eqn:E2; cbn [sbx_loop]; rewrite E1, E2; reflexivity.
  Qed.

  Hypothesis draws_vs_half : forall k, leb (rnd k) c05 = negb (ltb c05 (rnd k)).
  Hypothesis draws_vs_prob : forall k, leb (rnd k) prob = negb (ltb prob (rnd k)).

  Let body := sbx_cross_l1_body ltb leb add sub mul div neg absT c05 c1 c2 (@bnd T) rnd pw.
  Local Arguments sbx_cross_l1_after : simpl never.

  Lemma sbx_loop_eq : forall ps s1 s2 pre1 pre2 k,
    length pre1 = length pre2 -> length ps <= length s1 -> length ps <= length s2 ->
    sbx_cross_l1_run ltb leb add sub mul div neg absT c05 c1 c2 (@bnd T) rnd pw eps dist ps (length pre1) k
                     (pre2 ++ s2) (pre1 ++ s1) =
    pair_list (glue2 pre1 pre2 (sbx_loop ltb sbx_far c05 ps s1 s2 (sbx_tape ps s1 s2 k))).
  Proof.
    unfold sbx_cross_l1_run.
    intros ps; induction ps as [|[lb ub] ps IH]; intros s1 s2 pre1 pre2 k Hpre H1 H2.
    { cbn [fold_left]. unfold sbx_cross_l1_after. destruct s1, s2; reflexivity. }
    destruct s1 as [|a s1]; [cbn in H1; lia|]. destruct s2 as [|b s2]; [cbn in H2; lia|].
    cbn [length] in H1, H2.
    assert (Hn : forall (x y : T), pre1 ++ x :: s1 = (pre1 ++ [x]) ++ s1 /\ pre2 ++ y :: s2 = (pre2 ++ [y]) ++ s2
                                 /\ S (length pre1) = length (pre1 ++ [x])
                                 /\ length (pre1 ++ [x]) = length (pre2 ++ [y])).
    { intros. rewrite <- !app_assoc, !app_length. cbn. repeat split; lia. }
    rewrite sbx_loop_step. cbn [fold_left]. loop_step.
    rewrite draws_vs_half. destruct (ltb c05 (rnd k)); cbn [negb].
    - (* coordinate not crossed *)
      rewrite <- glue2_step. destruct (Hn a b) as (-> & -> & -> & Hl). rewrite Nat.add_1_r.
      apply IH; [exact Hl| lia | lia].
    - rewrite (nth_error_mid pre2 b s2) by exact Hpre. rewrite (nth_error_mid pre1 a s1) by reflexivity.
      change (ltb eps (absT (sub b a))) with (sbx_far a b). destruct (sbx_far a b).
      + (* crossed *)
        unfold sbx_lo, sbx_hi.
        destruct (ltb a b); unfold sbx_cross_k2, bnd; cbn [fst snd nth_error]; cbv zeta;
          rewrite !clip_gen_eq_model, !Nat.add_1_r, draws_vs_half;
          (destruct (ltb c05 (rnd (S (S k)))); cbn [negb];
           rewrite (py_set_nth_mid pre1 a _ s1) by reflexivity;
           rewrite (py_set_nth_mid pre2 b _ s2) by exact Hpre;
           rewrite <- glue2_step;
           match goal with
           | |- context [fold_left _ _ (_ _ _ (pre2 ++ ?y :: s2) (pre1 ++ ?x :: s1) None)] =>
               destruct (Hn x y) as (-> & -> & -> & Hl)
           end;
           (etransitivity; [apply IH; [exact Hl | lia | lia] | reflexivity])).
      + rewrite <- glue2_step. destruct (Hn a b) as (-> & -> & -> & Hl). rewrite Nat.add_1_r.
        apply IH; [exact Hl| lia | lia].
  Qed.

  Theorem sbx_cross_gen_eq_model : forall (params : list (T * T)) (p1 p2 : list T) (k : nat),
    length params <= length p1 -> length params <= length p2 ->
    sbx_cross_gen ltb leb add sub mul div neg absT c05 c1 c2 (@bnd T) rnd pw p1 p2 eps k params prob dist =
    pair_list (sbx_cross ltb sbx_far c05 prob params p1 p2 (cross_tape params p1 p2 k)).
  Proof.
    intros params p1 p2 k H1 H2. unfold sbx_cross_gen, sbx_cross, cross_tape. cbv zeta.
    rewrite draws_vs_prob. destruct (ltb prob (rnd k)); cbn [negb]; [reflexivity|].
    rewrite Nat.add_1_r.
    etransitivity; [exact (sbx_loop_eq params p1 p2 [] [] (S k) eq_refl H1 H2)|].
    destruct (sbx_loop _ _ _ params p1 p2 _) as [[a b]|]; reflexivity.
  Qed.
End Sbx.

(* ---------------------------------------------------------------------------------------------- *)
(* Transfer: the C08 box theorems (Props/C08.v), stated about the GENERATED functions, i.e. about what the
   source says on this run: for every strict weak order `ltb`, every arithmetic, every `pow`, every random tape,
   a parent inside the declared box gives a child of the same dimension inside the box. *)
From Artap Require Import Base.Ord Proofs.VariationProofs Props.C08.

Section Transfer.
  Context {T : Type} (ltb : T -> T -> bool) (H : SWO ltb).

  Theorem pm_mutate_gen_in_box : forall add sub mul div c0 c05 c1 c2 unif pw prob dist params parent iteration k child,
    Forall (wf ltb) params -> in_box ltb params parent ->
    pm_mutate_gen ltb add sub mul div c0 c05 c1 c2 (@bnd T) unif pw parent iteration k params prob dist = Some child ->
    length child = length parent /\ in_box ltb params child.
  Proof.
    intros add sub mul div c0 c05 c1 c2 unif pw prob dist params parent iteration k child Hwf Hin E.
    rewrite pm_mutate_gen_eq_model in E. exact (C08_pm_in_box ltb H _ _ _ _ _ Hwf Hin E).
  Qed.

  Theorem uniform_mutate_gen_in_box : forall add sub mul c0 c05 c1 unif rnd prob pert params parent iteration k child,
    Forall (wf ltb) params -> in_box ltb params parent ->
    uniform_mutate_gen ltb add sub mul c0 c05 c1 (@bnd T) unif rnd parent iteration k params prob pert = Some child ->
    length child = length parent /\ in_box ltb params child.
  Proof.
    intros add sub mul c0 c05 c1 unif rnd prob pert params parent iteration k child Hwf Hin E.
    rewrite uniform_mutate_gen_eq_model in E. exact (C08_uniform_in_box ltb H _ _ _ _ _ Hwf Hin E).
  Qed.

  Theorem nonuniform_mutate_gen_in_box : forall leb sub mul div c0 c05 c1 unif rnd pw prob pert maxit iteration params parent k child,
    Forall (wf ltb) params -> in_box ltb params parent ->
    nonuniform_mutate_gen ltb leb sub mul div c0 c05 c1 (@bnd T) unif rnd pw parent iteration k params prob pert maxit = Some child ->
    length child = length parent /\ in_box ltb params child.
  Proof.
    intros leb sub mul div c0 c05 c1 unif rnd pw prob pert maxit iteration params parent k child Hwf Hin E.
    rewrite nonuniform_mutate_gen_eq_model in E. exact (C08_nonuniform_in_box ltb H _ _ _ _ _ Hwf Hin E).
  Qed.

  (* SBX: the draws are comparable with 0.5 and with the probability (numbers, not NaN) *)
  Theorem sbx_cross_gen_in_box : forall leb add sub mul div neg absT c05 c1 c2 rnd pw prob dist eps params p1 p2 k x1 x2,
    (forall j, leb (rnd j) c05 = negb (ltb c05 (rnd j))) -> (forall j, leb (rnd j) prob = negb (ltb prob (rnd j))) ->
    Forall (wf ltb) params -> in_box ltb params p1 -> in_box ltb params p2 ->
    sbx_cross_gen ltb leb add sub mul div neg absT c05 c1 c2 (@bnd T) rnd pw p1 p2 eps k params prob dist = Some [x1; x2] ->
    length x1 = length p1 /\ length x2 = length p2 /\ in_box ltb params x1 /\ in_box ltb params x2.
  Proof.
    intros leb add sub mul div neg absT c05 c1 c2 rnd pw prob dist eps params p1 p2 k x1 x2 Hh Hp Hwf Hin1 Hin2 E.
    rewrite (sbx_cross_gen_eq_model ltb leb add sub mul div neg absT c05 c1 c2 rnd pw prob dist eps Hh Hp) in E
      by (rewrite (in_box_length ltb _ _ Hin1) || rewrite (in_box_length ltb _ _ Hin2); apply Nat.le_refl).
    destruct (sbx_cross ltb _ c05 prob params p1 p2 _) as [[a b]|] eqn:E'; cbn in E; [|discriminate].
    injection E as <- <-. exact (C08_sbx_in_box ltb H _ _ _ _ _ _ _ _ _ Hwf Hin1 Hin2 E').
  Qed.
End Transfer.

(* ---------------------------------------------------------------------------------------------- *)
(* The binary64 instances (they pin operators and literals: the Sections above abstract them positionally):
   the generated instance at PrimFloat equals the model at PrimFloat.ltb, the order of the C08 float theorems,
   on the tape built with IEEE-754 + - * / and the literals 0, 0.5, 1, 2. *)
From Coq Require Import Floats.

Theorem pm_mutate_gen_float : forall unif pw prob dist (params : list (float * float)) parent iteration k,
  pm_mutate_gen_f (@bnd float) unif pw parent iteration k params prob dist =
  pm_mutate PrimFloat.ltb prob params parent
    (pm_tape PrimFloat.ltb PrimFloat.add PrimFloat.sub PrimFloat.mul PrimFloat.div
             0%float 0x1p-1%float 1%float 2%float unif pw prob dist params parent k).
Proof. intros. exact (pm_mutate_gen_eq_model PrimFloat.ltb _ _ _ _ _ _ _ _ unif pw prob dist params parent iteration k). Qed.

Theorem uniform_mutate_gen_float : forall unif rnd prob pert (params : list (float * float)) parent iteration k,
  uniform_mutate_gen_f (@bnd float) unif rnd parent iteration k params prob pert =
  uniform_mutate PrimFloat.ltb prob params parent
    (uniform_tape PrimFloat.ltb PrimFloat.add PrimFloat.sub PrimFloat.mul
                  0%float 0x1p-1%float 1%float unif rnd prob pert params parent k).
Proof. intros. exact (uniform_mutate_gen_eq_model PrimFloat.ltb _ _ _ _ _ _ unif rnd prob pert params parent iteration k). Qed.

Theorem nonuniform_mutate_gen_float : forall unif rnd pw prob pert maxit iteration (params : list (float * float)) parent k,
  nonuniform_mutate_gen_f (@bnd float) unif rnd pw parent iteration k params prob pert maxit =
  nonuniform_mutate PrimFloat.ltb prob params parent
    (nonuniform_tape PrimFloat.ltb PrimFloat.leb PrimFloat.sub PrimFloat.mul PrimFloat.div
                     0%float 0x1p-1%float 1%float unif rnd pw prob pert maxit iteration params parent k).
Proof.
  intros. exact (nonuniform_mutate_gen_eq_model PrimFloat.ltb PrimFloat.leb _ _ _ _ _ _ unif rnd pw prob pert maxit iteration params parent k).
Qed.

(* ---- SBX at binary64: <= and < on floats are related as the model needs when no NaN is drawn ---- *)
From Artap Require Import Base.FloatInst.

Lemma SFcompare_antisym f1 f2 : f1 <> S754_nan -> f2 <> S754_nan ->
  SFcompare f2 f1 = option_map CompOpp (SFcompare f1 f2).
Proof.
  intros H1 H2.
  destruct f1 as [s1|s1| |s1 m1 e1], f2 as [s2|s2| |s2 m2 e2]; try congruence; cbn;
    try (destruct s1); try (destruct s2); cbn; try reflexivity;
    rewrite (Z.compare_antisym e1 e2); destruct (e1 ?= e2)%Z eqn:E; cbn; try reflexivity;
    rewrite (Pos.compare_cont_antisym m1 m2 Eq); cbn; try reflexivity;
    destruct (Pos.compare_cont Eq m1 m2); reflexivity.
Qed.

Lemma float_leb_negb_ltb x y : PrimFloat.is_nan x = false -> PrimFloat.is_nan y = false ->
  PrimFloat.leb x y = negb (PrimFloat.ltb y x).
Proof.
  intros Hx Hy. rewrite leb_spec, ltb_spec. unfold SFleb, SFltb.
  assert (Nx : Prim2SF x <> S754_nan) by (intro E; apply is_nan_spec in E; congruence).
  assert (Ny : Prim2SF y <> S754_nan) by (intro E; apply is_nan_spec in E; congruence).
  rewrite (SFcompare_antisym (Prim2SF x) (Prim2SF y) Nx Ny).
  destruct (SFcompare (Prim2SF x) (Prim2SF y)) as [[]|] eqn:E; cbn; try reflexivity.
  exfalso. destruct (Prim2SF x) as [| | |[] ? ?], (Prim2SF y) as [| | |[] ? ?]; cbn in E; try congruence;
    repeat match goal with b : bool |- _ => destruct b end; cbn in E; congruence.
Qed.

(* every draw and the crossover probability are numbers (random.random() returns values in [0, 1)) *)
Theorem sbx_cross_gen_float : forall rnd pw prob dist eps (params : list (float * float)) p1 p2 k,
  (forall j, PrimFloat.is_nan (rnd j) = false) -> PrimFloat.is_nan prob = false ->
  length params <= length p1 -> length params <= length p2 ->
  sbx_cross_gen_f (@bnd float) rnd pw p1 p2 eps k params prob dist =
  pair_list (sbx_cross PrimFloat.ltb (sbx_far PrimFloat.ltb PrimFloat.sub PrimFloat.abs eps) 0x1p-1%float prob params p1 p2
               (cross_tape PrimFloat.ltb PrimFloat.leb PrimFloat.add PrimFloat.sub PrimFloat.mul PrimFloat.div
                           PrimFloat.opp PrimFloat.abs 0x1p-1%float 1%float 2%float rnd pw prob dist eps params p1 p2 k)).
Proof.
  intros rnd pw prob dist eps params p1 p2 k Hr Hp H1 H2.
  apply (sbx_cross_gen_eq_model PrimFloat.ltb PrimFloat.leb); try assumption;
    intro j; apply float_leb_negb_ltb; auto.
Qed.

(* Print Assumptions of the theorems above is run by harness/core.py translated_obligations (qualified names, whitelist) *)
