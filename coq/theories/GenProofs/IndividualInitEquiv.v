(* The definition generated from artap/individual.py (Individual.__init__) by tools/py2coq_eff.py on THIS run gives a
   new Individual the fields of the model's Model/Job.v `fresh`: a copy of the vector, no costs, no signed costs,
   state EMPTY, features['feasible'] falsy (0.0), features['precision'] = 7.  Compiled per run against the freshly
   generated ArtapGen.IndividualInitGen; not part of the normal build.
   NOT translated (designated in the spec, listed in the generated file): id / counter, population and algorithm ids,
   parents, children, the time stamps, custom, and the hook add_features() (a subclass may set further features). *)
From Coq Require Import List ZArith Bool Arith Floats.
From Artap Require Import Model.Job.
From ArtapGen Require Import GenTactics IndividualInitGen.
Import ListNotations.

(* Python's truth value of a float *)
Definition truthy (x : float) : bool := negb (PrimFloat.eqb x 0%float).

Definition ind_of (g : list float * list float * list float * dstate * float * nat) : ind float :=
  let '(v, c, cs, s, f, p) := g in
  {| ivec := v; icosts := c; isigned := match cs with [] => None | _ => Some (removelast cs, false) end; istate := s;
     ifeas := truthy f; iprec := p |}.

Theorem individual_init_gen_eq_model : forall v : list float,
  ind_of (individual_init_gen_f Empty v) = fresh v.
Proof. intros v. reflexivity. Qed.

(* Print Assumptions of the theorems above is run by harness/core.py translated_obligations (qualified names, whitelist) *)
