(* The definitions generated on THIS run by tools/py2coq_bench.py from artap/benchmark_robust.py (atom_nd, Synthetic1D,
   Synthetic2D, Synthetic5D, Synthetic10D: `evaluate` and the declared data of `set`), instantiated at Coq's reals, equal
   the hand-written models of Model/Bench.v (see BenchEquivA.v).  The Gaussian tables of Synthetic5D/10D are compared
   literal by literal: every width, multiplier and centre coordinate of the source is the model's. *)
From Coq Require Import Reals List Arith Lia Lra.
From Artap Require Import Model.Bench Proofs.BenchGenLemmas.
From ArtapGen Require Import BenchRobustGen.
Import ListNotations.
Local Open Scope R_scope.

Ltac rops := cbv beta iota zeta delta [R_ops o_ltb o_leb o_eqb o_add o_sub o_mul o_div o_neg o_abs o_pow o_exp o_sin o_cos o_sqrt o_pi o_e o_nat o_int o_dec].

(* the source's decimals in the form the model writes them *)
Ltac decimals := replace (1 / 2) with (5 / 10) by lra; replace (5 / 4) with (125 / 100) by lra;
  replace (3 / 2) with (15 / 10) by lra; replace (5 / 2) with (25 / 10) by lra.

Theorem Synthetic1D_evaluate_gen_eq_model : forall x, (1 <= length x)%nat -> Synthetic1D_evaluate_gen_R x = [synthetic1d x].
Proof.
  intros [|a t] H; simpl in H; try lia.
  unfold Synthetic1D_evaluate_gen_R, Synthetic1D_evaluate_gen. rops. cbn [nth].
  unfold synthetic1d, synthetic1d_1, gauss. decimals. f_equal. ring.
Qed.

Theorem Synthetic1D_set_gen_eq_model : forall n, Synthetic1D_set_gen_R n = declared synthetic1d_b n.
Proof. intros. unfold Synthetic1D_set_gen_R, Synthetic1D_set_gen, declared. rops. reflexivity. Qed.

Theorem Synthetic2D_evaluate_gen_eq_model : forall x, (2 <= length x)%nat -> Synthetic2D_evaluate_gen_R x = [synthetic2d x].
Proof.
  intros [|a [|b t]] H; simpl in H; try lia.
  unfold Synthetic2D_evaluate_gen_R, Synthetic2D_evaluate_gen. rops. cbn [nth].
  unfold synthetic2d, synthetic2d_2, gauss2. f_equal. ring.
Qed.

Theorem Synthetic2D_set_gen_eq_model : forall n, Synthetic2D_set_gen_R n = declared synthetic2d_b n.
Proof. intros. unfold Synthetic2D_set_gen_R, Synthetic2D_set_gen, declared. rops. reflexivity. Qed.

(* ---- atom_nd: for i in range(0, len(x)): res += (x[i] - z[i]) ** 2.  (z at least as long as x) *)
Lemma sq_shift : forall (c d : R) x z n k s,
  fold_left (fun s i => s + (nth i (c :: x) 0 - nth i (d :: z) 0) ^ 2) (seq (S k) n) s
  = fold_left (fun s i => s + (nth i x 0 - nth i z 0) ^ 2) (seq k n) s.
Proof. induction n; intros; simpl; [reflexivity | rewrite IHn; reflexivity]. Qed.

Lemma sq_fold : forall x z a, (length x <= length z)%nat ->
  fold_left (fun s i => s + (nth i x 0 - nth i z 0) ^ 2) (seq 0 (length x)) a = a + sqdist x z.
Proof.
  induction x as [|c x IH]; intros z a H; [simpl; ring|].
  destruct z as [|d z]; [simpl in H; lia|]. cbn [length seq fold_left sqdist].
  rewrite sq_shift, IH by (simpl in H; lia). cbn [nth]. ring.
Qed.

Theorem atom_nd_gen_eq_model : forall w m x z, (length x <= length z)%nat -> atom_nd_gen_R w m x z = atom_nd w m x z.
Proof.
  intros. unfold atom_nd_gen_R, atom_nd_gen. rops.
  rewrite sq_fold, Rplus_0_l by assumption. reflexivity.
Qed.

Theorem Synthetic5D_evaluate_gen_eq_model : forall x, (length x <= 5)%nat -> Synthetic5D_evaluate_gen_R x = [synthetic5d x].
Proof.
  intros. unfold Synthetic5D_evaluate_gen_R, Synthetic5D_evaluate_gen. fold atom_nd_gen_R. rops.
  rewrite !atom_nd_gen_eq_model by assumption.
  unfold synthetic5d, atoms_sum, syn5_atoms. cbn [fold_right fst snd]. f_equal. ring.
Qed.

Theorem Synthetic5D_set_gen_eq_model : Synthetic5D_set_gen_R 5 = declared synthetic5d_b 5.
Proof. unfold Synthetic5D_set_gen_R, Synthetic5D_set_gen, declared. rops. reflexivity. Qed.

Theorem Synthetic10D_evaluate_gen_eq_model : forall x, (length x <= 10)%nat -> Synthetic10D_evaluate_gen_R x = [synthetic10d x].
Proof.
  intros. unfold Synthetic10D_evaluate_gen_R, Synthetic10D_evaluate_gen. fold atom_nd_gen_R. rops.
  rewrite !atom_nd_gen_eq_model by assumption.
  unfold synthetic10d, atoms_sum, syn10_atoms. cbn [fold_right fst snd]. f_equal. ring.
Qed.

Theorem Synthetic10D_set_gen_eq_model : Synthetic10D_set_gen_R 10 = declared synthetic10d_b 10.
Proof. unfold Synthetic10D_set_gen_R, Synthetic10D_set_gen, declared. rops. reflexivity. Qed.
