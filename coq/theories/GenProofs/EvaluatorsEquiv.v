(* The definitions generated from artap/operators.py (WorstCaseEvaluator.add, GradientEvaluator.add) by
   tools/py2coq.py on THIS run build the displaced neighbours of Model/Evaluators.v (wc_child_vecs,
   g_child_vecs: which coordinate, which sign, which tolerance / delta, in which order) and update the
   two work lists as wc_add / g_add do, for all inputs.  Compiled per run against the freshly generated
   ArtapGen.EvaluatorsGen; not part of the normal build.

   Reading of the generated interface:
     ind, f_ind_vector        a design and its vector;  o_Individual v = Individual(v), a new design with
                              the vector v (the model allocates it in the heap: alloc / alloc_children)
     param, f_param_tol       a parameter dict and its ['tol']
     result                   (individual.children, self.individuals, self.to_evaluate) after the call
   NOT translated (designated in the spec): `individual.children[-1].parents.append(individual)`, the back
   link of a child to its parent (alloc_children's set_parents); it does not enter the result above.
   The premise `length (vec x) <= length params` is the model's (a missing parameter is an IndexError). *)
From Coq Require Import List ZArith Bool Arith Lia.
From Artap Require Import Model.Evaluators.
From ArtapGen Require Import GenTactics EvaluatorsGen.
Import ListNotations.

Section ListLemmas.
  Context {T : Type}.

  Lemma py_set_nth_set_nth : forall (v : list T) i y, i < length v -> py_set_nth i y v = Some (set_nth T i y v).
  Proof.
    induction v as [|a v IH]; intros [|i] y H; cbn in *; try lia; [reflexivity|].
    rewrite IH by lia. reflexivity.
  Qed.

  Lemma nth_error_nth_lt : forall (v : list T) i d, i < length v -> nth_error v i = Some (nth i v d).
  Proof. intros. now apply nth_error_nth'. Qed.

  Lemma nth_map_of_nth_error : forall {P : Type} (f : P -> T) (ps : list P) i p d,
    nth_error ps i = Some p -> nth i (map f ps) d = f p.
  Proof. intros P f ps i p d H. apply nth_error_nth. now apply map_nth_error. Qed.
End ListLemmas.

(* ---------------------------------------------------------------------------------------------- *)
Section WorstCase.
  Context {T I P : Type} (add mul : T -> T -> T) (zero one mone : T).
  Variables (vec : I -> list T) (tol : P -> T) (mk : list T -> I).
  Variables (x : I) (params : list P).

  Notation v := (vec x).
  Notation cv := (wc_child_vec T add mul zero (map tol params) v).

  Lemma wc_inner : forall i p ch, i < length v -> nth_error params i = Some p ->
    wc_add_l2_run add mul vec tol mk x i p [mone; one] ch =
    Build_wc_add_l1_st (S i) (ch ++ [mk (cv i mone); mk (cv i one)]) None.
  Proof.
    intros i p ch Hi Hp. unfold wc_add_l2_run, wc_add_l2_body, wc_add_l2_after. cbn.
    rewrite !(nth_error_nth_lt v i zero Hi), !py_set_nth_set_nth by exact Hi. cbn.
    unfold wc_child_vec. rewrite (nth_map_of_nth_error tol params i p zero Hp).
    rewrite <- app_assoc. reflexivity.
  Qed.

  Lemma wc_outer : forall (l : list T) i ch, i + length l <= length v -> i + length l <= length params ->
    fold_left (wc_add_l1_body add mul one mone vec tol mk x params) l (Build_wc_add_l1_st i ch None) =
    Build_wc_add_l1_st (i + length l)
      (ch ++ map mk (flat_map (fun j => [cv j mone; cv j one]) (seq i (length l)))) None.
  Proof.
    induction l as [|a l IH]; intros i ch Hv Hp.
    - cbn. now rewrite Nat.add_0_r, app_nil_r.
    - cbn [length] in *. loop_step.
      destruct (nth_error params i) as [p|] eqn:Ep; [|apply nth_error_None in Ep; lia].
      rewrite wc_inner by (lia || exact Ep). rewrite IH by lia.
      cbn [seq flat_map map app]. rewrite <- app_assoc. cbn [app]. f_equal. lia.
  Qed.

  Theorem wc_add_gen_eq_model : forall inds todo, length v <= length params ->
    wc_add_gen add mul one mone vec tol mk x params inds todo =
    let children := map mk (wc_child_vecs T add mul zero one mone (map tol params) v) in
    Some (children, inds ++ [x], (todo ++ [x]) ++ children).
  Proof.
    intros inds todo H. unfold wc_add_gen, wc_add_l1_run. rewrite wc_outer by (cbn; lia).
    unfold wc_add_l1_after, wc_child_vecs. cbn. reflexivity.
  Qed.
End WorstCase.

(* ---------------------------------------------------------------------------------------------- *)
Section Gradient.
  Context {T I : Type} (add : T -> T -> T) (zero delta : T).
  Variables (vec : I -> list T) (mk : list T -> I) (x : I).

  Notation v := (vec x).
  Notation cv := (g_child_vec T add zero delta v).

  Lemma g_loop : forall (l : list T) i ch, i + length l <= length v ->
    fold_left (g_add_l1_body add vec mk x delta) l (Build_g_add_l1_st i ch None) =
    Build_g_add_l1_st (i + length l) (ch ++ map mk (map cv (seq i (length l)))) None.
  Proof.
    induction l as [|a l IH]; intros i ch Hv.
    - cbn. now rewrite Nat.add_0_r, app_nil_r.
    - cbn [length] in *. loop_step.
      rewrite !(nth_error_nth_lt v i zero) by lia. rewrite py_set_nth_set_nth by lia. cbn.
      rewrite IH by lia. cbn [seq map app]. rewrite <- app_assoc. cbn [app].
      unfold g_child_vec. f_equal. lia.
  Qed.

  Theorem g_add_gen_eq_model : forall inds todo,
    g_add_gen add vec mk x delta inds todo =
    let children := map mk (g_child_vecs T add zero delta v) in
    Some (children, inds ++ [x], (todo ++ [x]) ++ children).
  Proof.
    intros inds todo. unfold g_add_gen, g_add_l1_run. rewrite g_loop by (cbn; lia).
    unfold g_add_l1_after, g_child_vecs. cbn. reflexivity.
  Qed.
End Gradient.

(* ---------------------------------------------------------------------------------------------- *)
(* The bodies of the loops `for individual in self.individuals` of the two run() methods (body mode),
   against the model's post-processing of ONE design in the heap h: an Individual is its heap index,
   its costs / children are read from the heap.
     WorstCaseEvaluator.run: result = (features['sensitivity'], costs) after the body = wc_sens, the costs of wc_post
       (NOT translated, designated in the spec: the two statements that update costs_signed the same way)
     GradientEvaluator.run:  result = features['gradient'] = the gradient of g_post; np.zeros(n) is the list
       of n zeros; premise: n_params = number of children (the model's gradient has one entry per child)
   Premise of both: the design and its children have been evaluated (costs[0] exists). *)
Section RunBodies.
  Context {T : Type} (sub div : T -> T -> T) (abs : T -> T) (zero : T) (psum : list T -> T).
  Variable h : heap T.

  Definition costs_of (id : nat) : list T := d_costs T (h_get T h id).
  Definition children_of (id : nat) : list nat := d_children T (h_get T h id).

  Lemma c0_head : forall (l : list T), l <> [] -> nth_error l 0 = Some (c0 T zero l).
  Proof. intros [|a l] H; [congruence|reflexivity]. Qed.

  Lemma py_set_last : forall (l : list T) y, l <> [] -> py_set_nth (Nat.pred (length l)) y l = Some (set_last y l).
  Proof.
    induction l as [|a l IH]; intros y H; [congruence|].
    destruct l as [|b l]; [reflexivity|].
    change (Nat.pred (length (a :: b :: l))) with (S (Nat.pred (length (b :: l)))).
    cbn [py_set_nth]. rewrite IH by discriminate. reflexivity.
  Qed.

  Local Opaque nth_error.      (* keep costs[0] as `nth_error _ 0` while the loop bodies are computed *)

  Lemma wc_loop : forall id (l : list nat) acc, costs_of id <> [] -> (forall c, In c l -> costs_of c <> []) ->
    fold_left (wc_run_body_l1_body sub abs costs_of (costs_of id)) l (Build_wc_run_body_l1_st acc None) =
    Build_wc_run_body_l1_st (acc ++ map (fun c => abs (sub (c0 T zero (costs_of id)) (c0 T zero (costs_of c)))) l) None.
  Proof.
    intros id l; induction l as [|c l IH]; intros acc Hid Hl.
    - cbn. now rewrite app_nil_r.
    - loop_step. rewrite (c0_head _ Hid), (c0_head _ (Hl c (or_introl eq_refl))).
      rewrite IH by (auto; intros; apply Hl; now right). rewrite <- app_assoc. reflexivity.
  Qed.

  Theorem wc_run_body_gen_eq_model : forall m id,
    costs_of id <> [] -> (forall c, In c (children_of id) -> costs_of c <> []) ->
    wc_run_body_gen sub abs costs_of children_of psum id (S m) =
    Some (wc_sens T sub abs zero psum h (h_get T h id),
          d_costs T (h_get T (wc_post T sub abs zero psum m h id) id)).
  Proof.
    intros m id Hid Hch. unfold wc_run_body_gen, wc_run_body_l1_run. rewrite wc_loop by assumption.
    unfold wc_run_body_l1_after, wc_post, wc_sens. cbn [wc_run_body_l1_v1 wc_run_body_l1_ret app].
    fold (costs_of id) (children_of id).
    change (fun c : nat => abs (sub (c0 T zero (costs_of id)) (c0 T zero (d_costs T (h_get T h c)))))
      with (fun c : nat => abs (sub (c0 T zero (costs_of id)) (c0 T zero (costs_of c)))).
    destruct (S m <=? length (costs_of id)); cbn [h_get hupd]; rewrite Nat.eqb_refl; cbn [d_costs set_sens].
    - rewrite py_set_last by assumption. reflexivity.
    - reflexivity.
  Qed.

  Lemma py_zindex_of_nat : forall k n, py_zindex (Z.of_nat k) n = Some k.
  Proof. intros. unfold py_zindex. destruct (Z.leb_spec 0 (Z.of_nat k)); [now rewrite Nat2Z.id|lia]. Qed.

  Lemma py_set_nth_mid' : forall (pre : list T) a y r, py_set_nth (length pre) y (pre ++ a :: r) = Some (pre ++ y :: r).
  Proof. induction pre as [|b pre IH]; intros; cbn; [reflexivity|]. now rewrite IH. Qed.

  Lemma g_loop' : forall id delta (l : list nat) done, costs_of id <> [] -> (forall c, In c l -> costs_of c <> []) ->
    fold_left (g_run_body_l1_body sub div costs_of id delta) l
      (Build_g_run_body_l1_st (done ++ repeat zero (length l)) (Z.of_nat (length done)) None) =
    Build_g_run_body_l1_st (done ++ map (fun c => div (sub (c0 T zero (costs_of c)) (c0 T zero (costs_of id))) delta) l)
      (Z.of_nat (length done + length l)) None.
  Proof.
    intros id delta l; induction l as [|c l IH]; intros done Hid Hl.
    - cbn. now rewrite Nat.add_0_r.
    - cbn [length repeat]. loop_step.
      rewrite py_zindex_of_nat, (c0_head _ Hid), (c0_head _ (Hl c (or_introl eq_refl))), py_set_nth_mid'.
      set (y := div _ delta).
      replace (Z.of_nat (length done) + 1)%Z with (Z.of_nat (length (done ++ [y]))) by (rewrite app_length; cbn; lia).
      replace (done ++ y :: repeat zero (length l)) with ((done ++ [y]) ++ repeat zero (length l)) by (now rewrite <- app_assoc).
      rewrite IH by (auto; intros; apply Hl; now right).
      rewrite <- app_assoc, app_length. cbn. f_equal. lia.
  Qed.

  Local Transparent nth_error.

  Theorem g_run_body_gen_eq_model : forall id delta n,
    n = length (children_of id) ->
    costs_of id <> [] -> (forall c, In c (children_of id) -> costs_of c <> []) ->
    g_run_body_gen sub div costs_of children_of (repeat zero) id n delta =
    d_grad T (h_get T (g_post T sub div zero delta h id) id).
  Proof.
    intros id delta n -> Hid Hch. unfold g_run_body_gen, g_run_body_l1_run.
    pose proof (g_loop' id delta (children_of id) [] Hid Hch) as L. cbn [app length Z.of_nat Nat.add] in L. rewrite L.
    unfold g_run_body_l1_after, g_post. cbn [g_run_body_l1_v1 g_run_body_l1_ret app h_get hupd].
    rewrite Nat.eqb_refl. reflexivity.
  Qed.
End RunBodies.

(* the binary64 instances (they pin + and * and the signs -1, 1, in this order) against the instance the
   executable driver Run/C14Run.v runs *)
From Coq Require Import Floats.

Corollary wc_add_gen_float : forall (I P : Type) (vec : I -> list float) (tol : P -> float) (mk : list float -> I)
    (x : I) (params : list P) inds todo, length (vec x) <= length params ->
  wc_add_gen_f vec tol mk x params inds todo =
  let children := map mk (wc_child_vecs float PrimFloat.add PrimFloat.mul 0%float 1%float (-1)%float (map tol params) (vec x)) in
  Some (children, inds ++ [x], (todo ++ [x]) ++ children).
Proof. intros. now apply (wc_add_gen_eq_model PrimFloat.add PrimFloat.mul 0%float 1%float (-1)%float). Qed.

Corollary g_add_gen_float : forall (I : Type) (vec : I -> list float) (mk : list float -> I) (x : I) (delta : float) inds todo,
  g_add_gen_f vec mk x delta inds todo =
  let children := map mk (g_child_vecs float PrimFloat.add 0%float delta (vec x)) in
  Some (children, inds ++ [x], (todo ++ [x]) ++ children).
Proof. intros. exact (g_add_gen_eq_model PrimFloat.add 0%float delta vec mk x inds todo). Qed.

Corollary run_bodies_gen_float : forall (h : heap float) (psum : list float -> float) m id delta,
  costs_of h id <> [] -> (forall c, In c (children_of h id) -> costs_of h c <> []) ->
  wc_run_body_gen_f (costs_of h) (children_of h) psum id (S m) =
    Some (wc_sens float PrimFloat.sub PrimFloat.abs 0%float psum h (h_get float h id),
          d_costs float (h_get float (wc_post float PrimFloat.sub PrimFloat.abs 0%float psum m h id) id)) /\
  g_run_body_gen_f (costs_of h) (children_of h) (repeat 0%float) id (length (children_of h id)) delta =
    d_grad float (h_get float (g_post float PrimFloat.sub PrimFloat.div 0%float delta h id) id).
Proof.
  intros. split.
  - now apply (wc_run_body_gen_eq_model PrimFloat.sub PrimFloat.abs 0%float psum h m id).
  - now apply (g_run_body_gen_eq_model PrimFloat.sub PrimFloat.div 0%float h id delta).
Qed.

(* Print Assumptions of the theorems above is run by harness/core.py translated_obligations (qualified names, whitelist) *)
