(* The definition generated from artap/operators.py (Selector.pop_acceptance) by tools/py2coq.py on THIS
   run equals the hand-written model Model/Runs.v pop_acceptance, for all populations, offspring and
   random choices.  Compiled per run against the freshly generated ArtapGen.PopAcceptanceGen.

   Reading of the generated interface:
     ind, f_ind_costs_signed   an Individual and its costs_signed      := rind V C, rcost
     o_self_dominance_compare  self.dominance.compare                  := cmp
     eqb_ind item value        Python's item == value inside list.remove:= item_equal value item
                               (identity, else Individual.__eq__ on the vectors)
     pick_1, pick_2            the index random.choice draws in `dominates` / in `individuals`
   The model takes the choice as `ch : option nat` = the POSITION in `individuals` that was chosen
   (None = random.choice was not called); `ch_of` computes it from the two draws. *)
From Coq Require Import List ZArith Bool Arith Lia.
From Artap Require Import Model.Runs.
From ArtapGen Require Import GenTactics PopAcceptanceGen.
Import ListNotations.

Section PopAcceptanceEquiv.
  Context {V C : Type} (veq : V -> V -> bool) (cmp : C -> C -> nat).
  Notation ind := (rind V C).
  Variable x : ind.

  Definition py_eq (item value : ind) : bool := item_equal veq value item.

  (* the positions j (counted from i) of the members the offspring dominates *)
  Fixpoint pos_from (i : nat) (l : list ind) : list nat :=
    match l with
    | [] => []
    | p :: l' => if Nat.eqb (cmp (rcost x) (rcost p)) 1 then i :: pos_from (S i) l' else pos_from (S i) l'
    end.

  Lemma dominated_positions_pos_from_aux : forall l pre,
    filter (fun i => match nth_error (pre ++ l) i with
                     | Some p => Nat.eqb (cmp (rcost x) (rcost p)) 1
                     | None => false end) (seq (length pre) (length l)) = pos_from (length pre) l.
  Proof.
    induction l as [|p l IH]; intros pre; [reflexivity|].
    cbn [length seq filter pos_from].
    replace (nth_error (pre ++ p :: l) (length pre)) with (Some p)
      by (rewrite nth_error_app2 by lia; now rewrite Nat.sub_diag).
    specialize (IH (pre ++ [p])). rewrite <- app_assoc in IH. cbn [app] in IH.
    rewrite app_length in IH. cbn [length] in IH. rewrite Nat.add_1_r in IH.
    rewrite IH. reflexivity.
  Qed.

  Lemma dominated_positions_pos_from : forall pop, dominated_positions cmp pop x = pos_from 0 pop.
  Proof. intros pop. exact (dominated_positions_pos_from_aux pop []). Qed.

  Lemma pos_from_bound : forall l i c, In c (pos_from i l) -> i <= c < i + length l.
  Proof.
    induction l as [|p l IH]; intros i c; cbn; [tauto|].
    destruct (Nat.eqb _ 1); cbn; intros H.
    - destruct H as [<-|H]; [lia|]. apply IH in H. lia.
    - apply IH in H. lia.
  Qed.

  (* the loop: `dominates` collects pos_from, `dominated` the disjunction of the verdicts 2 *)
  Lemma loop_spec : forall l i doms d,
    fold_left (pop_acceptance_l1_body rcost cmp x) l (Build_pop_acceptance_l1_st i doms d None) =
    Build_pop_acceptance_l1_st (i + length l) (doms ++ pos_from i l)
      (d || existsb (fun p => Nat.eqb (cmp (rcost x) (rcost p)) 2) l) None.
  Proof.
    induction l as [|p l IH]; intros i doms d.
    - cbn. now rewrite Nat.add_0_r, app_nil_r, orb_false_r.
    - loop_step.
      (* every verdict: 0, 1 (dominates), 2 (is dominated), anything else *)
      destruct (cmp (rcost x) (rcost p)) as [|[|[|n]]]; cbn; rewrite IH; cbn;
        rewrite <- ?app_assoc, ?orb_true_r; cbn; f_equal; try lia; try reflexivity.
  Qed.

  Lemma py_del_nth_remove_nth : forall (l : list ind) c,
    c < length l -> py_del_nth c l = Some (remove_nth c l).
  Proof.
    induction l as [|y l IH]; intros [|c] H; cbn in *; try lia; [reflexivity|].
    rewrite IH by lia. reflexivity.
  Qed.

  Lemma py_remove_remove_first : forall (y : ind) (l : list ind),
    py_remove py_eq y l = remove_first (item_equal veq y) l.
  Proof.
    intros y; induction l as [|z l IH]; cbn; [reflexivity|].
    unfold py_eq at 1. destruct (item_equal veq y z); [reflexivity|]. now rewrite IH.
  Qed.

  Lemma existsb_eqb_in : forall c l, In c l -> existsb (Nat.eqb c) l = true.
  Proof. intros c l H. apply existsb_exists. exists c. split; [exact H|apply Nat.eqb_refl]. Qed.

  (* the position chosen in `individuals`, from the two draws *)
  Definition ch_of (pop : list ind) (k1 k2 : nat) : option nat :=
    match dominated_positions cmp pop x with
    | (_ :: _) as doms => nth_error doms k1
    | [] => if is_dominated cmp pop x then None
            else if k2 <? length pop then Some k2 else None
    end.

  Theorem pop_acceptance_gen_eq_model : forall pop k1 k2,
    pop_acceptance_gen rcost py_eq cmp k1 k2 pop x = pop_acceptance veq cmp pop x (ch_of pop k1 k2).
  Proof.
    intros pop k1 k2.
    unfold pop_acceptance_gen, pop_acceptance_l1_run. rewrite loop_spec.
    unfold pop_acceptance_l1_after, pop_acceptance, ch_of, is_dominated; try unfold pop_acceptance_k1.
    cbn [pop_acceptance_l1_ret pop_acceptance_l1_v1 pop_acceptance_l1_v2 orb app]. unfold Runs.ind.
    rewrite dominated_positions_pos_from.
    assert (Hl : forall l : list nat, (0 <? length l) = match l with [] => false | _ :: _ => true end)
      by (intros [|? ?]; reflexivity).
    rewrite Hl. clear Hl.
    destruct (pos_from 0 pop) as [|d doms] eqn:Ed.
    - (* nothing is dominated by the offspring *)
      destruct (existsb _ pop); cbn [negb]; [reflexivity|].
      destruct (nth_error pop k2) as [y|] eqn:Ek.
      + assert (Hlt : k2 < length pop) by (apply nth_error_Some; congruence).
        apply Nat.ltb_lt in Hlt. rewrite Hlt. cbv iota. rewrite Ek, py_remove_remove_first.
        reflexivity.
      + apply nth_error_None in Ek. apply Nat.ltb_ge in Ek. rewrite Ek. reflexivity.
    - destruct (nth_error (d :: doms) k1) as [c|] eqn:Ek; [|reflexivity].
      assert (Hin : In c (d :: doms)) by (eapply nth_error_In; eassumption).
      rewrite (existsb_eqb_in c (d :: doms) Hin).
      rewrite <- Ed in Hin. apply pos_from_bound in Hin.
      rewrite py_del_nth_remove_nth by lia. reflexivity.
  Qed.
End PopAcceptanceEquiv.

(* Print Assumptions of the theorems above is run by harness/core.py translated_obligations (qualified names, whitelist) *)
