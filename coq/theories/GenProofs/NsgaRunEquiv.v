(* The definition generated from artap/algorithm_NSGAII.py (NSGAII.run, the WHOLE function) by tools/py2coq_run.py on
   THIS run is tied to the hand-written model Model/Runs.v nsga2_run, for all inputs (every population size N, every
   number of generations G, every initial population, every candidate stream / objective tape, every selector).
   Compiled per run against the freshly generated ArtapGen.NsgaRunGen; not part of the normal build.

   Reading of the generated interface:
     ind := nat                an Individual object is its identity (the model's `rid`)
     ev  := rev                observable events in program order:
                                 RGen                 self.generator.generate()
                                 RNew v               IndividualNSGAII(v)
                                 REval ids            self.evaluate(batch)
                                 RSort ids            self.selector.fast_nondominated_sorting(list)
                                 RGenerate ids        self.generate(parents)
                                 RCopy id             individual.copy()
                                 RTrunc ids n         nondominated_truncate(pool, n)
                                 RStore id tag        individual.population_id = tag   (a field store into an object
                                                      of the outside world: an event, tools/py2coq_run.py)
                                 RSync id             self.problem.data_store.sync_individual(individual)
                                 RSyncAll             self.problem.data_store.sync_all()
     the operator calls are history-dependent oracles.  They are instantiated from the model's run: the ghost trace
     `s_trace st` of the final state (per generation: parents, evaluated offspring, copies, survivors):
       o_gen                   the initial vectors `init`
       o_new                   the k-th object constructed by run() itself gets identity k (mk_cands init 0)
       o_generate              in generation k (= number of RGenerate events so far): the identities of `t_offs`
       o_copy                  the j-th copy made in generation k: the j-th identity of `t_copies`
       o_trunc                 in generation k: the identities of `t_next` (= `select (offs ++ copies) N`)
   THE ADAPTER (defined here, nothing else stands between the two sides): `ids` = map rid; `run_log` = the event
   sequence that the model's trace prescribes (below); `s_rec` projected to identities.
   Result of the generated function: (problem.individuals at the end, event log).
   Not translated (named in the generated file): the construction of generator / crossover / mutator / selector
   (configuration statements pinned by text), the time stamps and the two log lines. *)
From Coq Require Import List ZArith Bool Arith Lia.
From Artap Require Import Model.Runs.
From ArtapGen Require Import GenTactics NsgaRunGen.
Import ListNotations.
Local Open Scope nat_scope.

Section NsgaRunEquiv.
  Context {V C : Type}.
  Variables (veq vexact : V -> V -> bool).
  Variable select : list (rind V C) -> nat -> list (rind V C).
  Notation mind := (rind V C).
  Notation mtrans := (@transition V C).
  Notation mstate := (@state V C).

  Inductive rev : Type :=
  | RGen | RNew (v : V) | REval (xs : list nat) | RSort (xs : list nat) | RGenerate (ps : list nat)
  | RCopy (p : nat) | RTrunc (pool : list nat) (n : nat) | RStore (x tag : nat) | RSync (x : nat) | RSyncAll.

  Definition ids (l : list mind) : list nat := map rid l.

  (* ---------------- the adapter: what the model's trace says the run does ---------------- *)
  Definition store_log (tag : nat) (xs : list nat) : list rev := flat_map (fun x => [RStore x tag; RSync x]) xs.

  (* one pass of `for it in range(G-1)`, for the trace entry t of that pass *)
  Definition step_log (N it : nat) (t : mtrans) : list rev :=
    [RGenerate (ids (t_parents t)); REval (ids (t_offs t))] ++ map RCopy (ids (t_parents t))
    ++ [RSort (ids (t_offs t ++ t_copies t)); RTrunc (ids (t_offs t ++ t_copies t)) N]
    ++ store_log (it + 2) (ids (t_next t)).

  Fixpoint steps_log (N it : nat) (l : list mtrans) : list rev :=
    match l with [] => [] | t :: l' => step_log N it t ++ steps_log N (S it) l' end.

  Definition run_log (N : nat) (init : list V) (tr : list mtrans) : list rev :=
    let p0 := seq 0 (length init) in
    [RGen] ++ map RNew init ++ [REval p0; RSort p0] ++ store_log 1 p0 ++ steps_log N 0 tr ++ [RSyncAll].

  (* the (identity, tag) pairs stored by a log, in order *)
  Definition stored (log : list rev) : list (nat * nat) :=
    flat_map (fun e => match e with RStore x tag => [(tag, x)] | _ => [] end) log.

  (* ---------------- the oracles, from the model's trace ---------------- *)
  Variable init : list V.
  Variable tr : list mtrans.
  Definition dtr : mtrans := mk_tr [] [] [] [].
  Definition ent (i : nat) : mtrans := nth i tr dtr.

  Definition is_gen (e : rev) : bool := match e with RGenerate _ => true | _ => false end.
  Definition is_new (e : rev) : bool := match e with RNew _ => true | _ => false end.
  Definition ngen (log : list rev) : nat := length (filter is_gen log).
  Definition nnew (log : list rev) : nat := length (filter is_new log).
  Definition cupd (a : nat) (e : rev) : nat := match e with RGenerate _ => 0 | RCopy _ => S a | _ => a end.
  (* number of copies made since the last call of self.generate *)
  Definition ncopy (log : list rev) : nat := fold_left cupd log 0.

  Definition o_gen (log : list rev) : list V := init.
  Definition o_new (log : list rev) (v : V) : nat := pred (nnew log).
  Definition o_generate (log : list rev) (ps : list nat) : list nat := ids (t_offs (ent (pred (ngen log)))).
  Definition o_copy (log : list rev) (p : nat) : nat :=
    nth (pred (ncopy log)) (ids (t_copies (ent (pred (ngen log))))) 0.
  Definition o_trunc (log : list rev) (pool : list nat) (n : nat) : list nat := ids (t_next (ent (pred (ngen log)))).

  Notation body1 := (@nsga_run_l1_body V nat rev RNew o_new).
  Notation B1 := (@Build_nsga_run_l1_st nat rev).
  Notation body2 := (@nsga_run_l2_body nat rev RStore RSync).
  Notation B2 := (@Build_nsga_run_l2_st nat rev).
  Notation body4 := (@nsga_run_l4_body nat rev RCopy o_copy).
  Notation B4 := (@Build_nsga_run_l4_st nat rev).
  Notation body5 := (@nsga_run_l5_body nat rev RStore RSync).
  Notation B5 := (@Build_nsga_run_l5_st nat rev).
  Notation body3 := (@nsga_run_l3_body nat rev RStore REval RSort RGenerate RCopy RTrunc RSync o_generate o_copy o_trunc).
  Notation B3 := (@Build_nsga_run_l3_st nat rev).
  Notation gen := (@nsga_run_gen V nat rev RStore RGen RNew REval RSort RGenerate RCopy RTrunc RSync RSyncAll
                     o_gen o_new o_generate o_copy o_trunc).

  (* ---------------- counting events ---------------- *)
  Lemma ngen_app : forall a b, ngen (a ++ b) = ngen a + ngen b.
  Proof. intros; unfold ngen; now rewrite filter_app, app_length. Qed.
  Lemma nnew_app : forall a b, nnew (a ++ b) = nnew a + nnew b.
  Proof. intros; unfold nnew; now rewrite filter_app, app_length. Qed.
  Lemma ngen_copies : forall xs, ngen (map RCopy xs) = 0.
  Proof. induction xs; [reflexivity|exact IHxs]. Qed.
  Lemma ngen_news : forall vs, ngen (map RNew vs) = 0.
  Proof. induction vs; [reflexivity|exact IHvs]. Qed.
  Lemma ngen_store : forall tag xs, ngen (store_log tag xs) = 0.
  Proof. induction xs; [reflexivity|exact IHxs]. Qed.
  Lemma ncopy_snoc : forall l e, ncopy (l ++ [e]) = cupd (ncopy l) e.
  Proof. intros; unfold ncopy; now rewrite fold_left_app. Qed.

  Lemma map_nth_seq : forall (l : list nat) d, map (fun i => nth i l d) (seq 0 (length l)) = l.
  Proof.
    induction l as [|a l IH]; intros d; [reflexivity|].
    cbn [length seq map nth]. f_equal. rewrite <- seq_shift, map_map. exact (IH d).
  Qed.

  (* ---------------- the loops of the generated function ---------------- *)
  (* for vector in vectors: individuals.append(IndividualNSGAII(vector)) *)
  Lemma loop1 : forall vs acc log,
    fold_left body1 vs (B1 acc log None) = B1 (acc ++ seq (nnew log) (length vs)) (log ++ map RNew vs) None.
  Proof.
    induction vs as [|v vs IH]; intros acc log; cbn [fold_left length seq map].
    - now rewrite !app_nil_r.
    - replace (body1 (B1 acc log None) v) with (B1 (acc ++ [pred (nnew (log ++ [RNew v]))]) (log ++ [RNew v]) None)
        by reflexivity.
      rewrite IH, !nnew_app. cbn [nnew filter is_new length]. rewrite Nat.add_1_r. cbn [pred].
      rewrite <- !app_assoc. reflexivity.
  Qed.

  (* first generation: append, tag 1, sync *)
  Lemma loop2 : forall xs P log,
    fold_left body2 xs (B2 P log None) = B2 (P ++ xs) (log ++ store_log 1 xs) None.
  Proof.
    induction xs as [|x xs IH]; intros P log; cbn [fold_left].
    - now rewrite !app_nil_r.
    - replace (body2 (B2 P log None) x) with (B2 (P ++ [x]) ((log ++ [RStore x 1]) ++ [RSync x]) None) by reflexivity.
      rewrite IH. cbn [store_log flat_map]. rewrite <- !app_assoc. reflexivity.
  Qed.

  (* later generations: tag it + 2, append, sync *)
  Lemma loop5 : forall it xs P log,
    fold_left (body5 it) xs (B5 P log None) = B5 (P ++ xs) (log ++ store_log (it + 2) xs) None.
  Proof.
    intros it; induction xs as [|x xs IH]; intros P log; cbn [fold_left].
    - now rewrite !app_nil_r.
    - replace (body5 it (B5 P log None) x) with (B5 (P ++ [x]) ((log ++ [RStore x (it + 2)]) ++ [RSync x]) None)
        by reflexivity.
      rewrite IH. cbn [store_log flat_map]. rewrite <- !app_assoc. reflexivity.
  Qed.

  (* for individual in individuals: offsprings.append(individual.copy()) *)
  Lemma loop4 : forall it ps offs log j,
    ngen log = S it -> ncopy log = j ->
    fold_left body4 ps (B4 offs log None)
    = B4 (offs ++ map (fun i => nth i (ids (t_copies (ent it))) 0) (seq j (length ps))) (log ++ map RCopy ps) None.
  Proof.
    intros it; induction ps as [|p ps IH]; intros offs log j Hg Hc; cbn [fold_left length seq map].
    - now rewrite !app_nil_r.
    - replace (body4 (B4 offs log None) p)
        with (B4 (offs ++ [o_copy (log ++ [RCopy p]) p]) (log ++ [RCopy p]) None) by reflexivity.
      rewrite (IH _ _ (S j)).
      + unfold o_copy. rewrite ncopy_snoc, ngen_app, Hg, Hc. cbn [cupd ngen filter is_gen length pred].
        rewrite Nat.add_0_r. cbn [pred]. rewrite <- !app_assoc. reflexivity.
      + rewrite ngen_app, Hg. cbn. lia.
      + rewrite ncopy_snoc, Hc. reflexivity.
  Qed.

  (* one pass of the generation loop, for the trace entry of that pass *)
  Lemma body3_step : forall N it P log,
    ngen log = it ->
    length (t_copies (ent it)) = length (t_parents (ent it)) ->
    body3 N (B3 (ids (t_parents (ent it))) P log None) it
    = B3 (ids (t_next (ent it))) (P ++ ids (t_next (ent it))) (log ++ step_log N it (ent it)) None.
  Proof.
    intros N it P log Hg Hlen.
    unfold nsga_run_l3_body. cbn [nsga_run_l3_ret nsga_run_l3_v1 nsga_run_l3_v2 nsga_run_l3_v3].
    set (par := ids (t_parents (ent it))).
    assert (Hgen : o_generate (log ++ [RGenerate par]) par = ids (t_offs (ent it))).
    { unfold o_generate. rewrite ngen_app, Hg. cbn [ngen filter is_gen length]. now rewrite Nat.add_1_r. }
    rewrite Hgen.
    unfold nsga_run_l4_run.
    rewrite (loop4 it par _ _ 0).
    2:{ rewrite !ngen_app, Hg. cbn. lia. }
    2:{ rewrite !ncopy_snoc. reflexivity. }
    assert (Hcp : map (fun i => nth i (ids (t_copies (ent it))) 0) (seq 0 (length par)) = ids (t_copies (ent it))).
    { replace (length par) with (length (ids (t_copies (ent it))))
        by (unfold par, ids; rewrite !map_length; exact Hlen).
      apply map_nth_seq. }
    rewrite Hcp.
    unfold nsga_run_l4_after. cbn [nsga_run_l4_ret nsga_run_l4_v1 nsga_run_l4_v2].
    set (pool := ids (t_offs (ent it)) ++ ids (t_copies (ent it))).
    assert (Htr : forall l, ngen l = S it -> o_trunc l pool N = ids (t_next (ent it))).
    { intros l Hl. unfold o_trunc. now rewrite Hl. }
    rewrite Htr.
    2:{ rewrite !ngen_app, ngen_copies, Hg. cbn. lia. }
    unfold nsga_run_l5_run. rewrite loop5. unfold nsga_run_l5_after.
    cbn [nsga_run_l5_ret nsga_run_l5_v1 nsga_run_l5_v2].
    f_equal. unfold step_log. fold par. unfold pool, ids. rewrite map_app. rewrite <- !app_assoc. reflexivity.
  Qed.

  (* a trace in which every entry starts from the survivors of the one before, with one copy per parent *)
  Fixpoint chain (par : list mind) (l : list mtrans) : Prop :=
    match l with
    | [] => True
    | t :: l' => t_parents t = par /\ length (t_copies t) = length par /\ chain (t_next t) l'
    end.

  Fixpoint kept (l : list mtrans) : list nat :=
    match l with [] => [] | t :: l' => ids (t_next t) ++ kept l' end.

  Lemma ngen_step_log : forall N it t, ngen (step_log N it t) = 1.
  Proof.
    intros. unfold step_log. rewrite !ngen_app, ngen_copies, ngen_store. reflexivity.
  Qed.

  Lemma loop3 : forall N suf pre par P log,
    tr = pre ++ suf -> chain par suf -> ngen log = length pre ->
    exists last,
    fold_left (body3 N) (seq (length pre) (length suf)) (B3 (ids par) P log None)
    = B3 last (P ++ kept suf) (log ++ steps_log N (length pre) suf) None.
  Proof.
    intros N; induction suf as [|t suf IH]; intros pre par P log Htr Hch Hg.
    - exists (ids par). cbn. now rewrite !app_nil_r.
    - cbn [length seq fold_left]. destruct Hch as (Hp & Hl & Hch).
      assert (He : ent (length pre) = t).
      { unfold ent. rewrite Htr, app_nth2, Nat.sub_diag by lia. reflexivity. }
      pose proof (body3_step N (length pre) P log Hg) as Hb. rewrite He in Hb.
      rewrite Hp in Hb. rewrite (Hb Hl). clear Hb.
      destruct (IH (pre ++ [t]) (t_next t) (P ++ ids (t_next t)) (log ++ step_log N (length pre) t)) as [last Hlast].
      + rewrite Htr, <- app_assoc. reflexivity.
      + exact Hch.
      + rewrite ngen_app, ngen_step_log, Hg, app_length. reflexivity.
      + exists last. rewrite app_length in Hlast. cbn [length] in Hlast. rewrite Nat.add_1_r in Hlast.
        rewrite Hlast. cbn [kept steps_log]. rewrite <- !app_assoc. reflexivity.
  Qed.

  (* the whole generated function, for a well-formed trace of G - 1 entries *)
  Lemma gen_run : forall N G P par0,
    ids par0 = seq 0 (length init) -> chain par0 tr -> length tr = G - 1 ->
    gen P G N = (P ++ seq 0 (length init) ++ kept tr, run_log N init tr).
  Proof.
    intros N G P par0 H0 Hch Hlen.
    unfold nsga_run_gen. cbn zeta. unfold nsga_run_l1_run, o_gen. rewrite loop1.
    unfold nsga_run_l1_after. cbn [nsga_run_l1_ret nsga_run_l1_v1 nsga_run_l1_v2 app nnew filter is_new length].
    unfold nsga_run_l2_run. rewrite loop2. unfold nsga_run_l2_after.
    cbn [nsga_run_l2_ret nsga_run_l2_v1 nsga_run_l2_v2].
    replace (Z.to_nat (Z.sub (Z.of_nat G) (Z.of_nat 1))) with (length tr) by lia.
    unfold nsga_run_l3_run.
    match goal with |- context [fold_left _ _ (Build_nsga_run_l3_st ?i ?p ?l None)] =>
      destruct (loop3 N tr [] par0 p l eq_refl Hch) as [last Hlast] end.
    - rewrite !ngen_app, ngen_store. cbn [length]. unfold ngen.
      cbn [filter is_gen length app]. rewrite !filter_app, !app_length. cbn [filter is_gen length].
      fold (ngen (map RNew init)). rewrite ngen_news. reflexivity.
    - cbn [length] in Hlast. rewrite H0 in Hlast. rewrite Hlast.
      unfold nsga_run_l3_after. cbn [nsga_run_l3_ret nsga_run_l3_v1 nsga_run_l3_v2 nsga_run_l3_v3].
      unfold run_log. cbn zeta. f_equal; rewrite <- ?app_assoc; cbn [app]; rewrite <- ?app_assoc; reflexivity.
  Qed.
End NsgaRunEquiv.

(* ---------------- facts about the model's run (Model/Runs.v), used to instantiate the trace ---------------- *)
Section ModelFacts.
  Context {V C : Type}.
  Variables (veq vexact : V -> V -> bool).
  Variable select : list (rind V C) -> nat -> list (rind V C).
  Notation mind := (rind V C).
  Notation mtrans := (@transition V C).
  Notation mstate := (@state V C).

  Lemma job_rid : forall c (e : ev_entry V C) (x : mind) lg, job vexact c e = Some (x, lg) -> rid x = fst c.
  Proof.
    intros c e x lg. unfold job. destruct (_ && _); [|discriminate]. intros H; inversion H; reflexivity.
  Qed.

  Lemma eval_ids : forall cs (es : list (ev_entry V C)) (xs : list mind) lg,
    eval_batch vexact cs es = Some (xs, lg) -> map rid xs = map fst cs.
  Proof.
    induction cs as [|c cs IH]; intros [|e es] xs lg; cbn [eval_batch]; try discriminate.
    - intros H; inversion H; reflexivity.
    - destruct (job vexact c e) as [[x l]|] eqn:J; [|discriminate].
      destruct (eval_batch vexact cs es) as [[xs' lgs]|] eqn:E; [|discriminate].
      intros H; inversion H; subst. cbn [map]. f_equal; [exact (job_rid _ _ _ _ J)|exact (IH _ _ _ E)].
  Qed.

  Lemma mk_cands_fst : forall (vs : list V) c, map fst (mk_cands vs c) = seq c (length vs).
  Proof.
    unfold mk_cands. induction vs as [|v vs IH]; intros c; [reflexivity|].
    cbn [length seq combine map fst]. f_equal. apply IH.
  Qed.

  Lemma copy_all_length : forall (ps : list mind) c, length (copy_all ps c) = length ps.
  Proof.
    intros. unfold copy_all. rewrite map_length, combine_length, seq_length. apply Nat.min_id.
  Qed.

  (* what the generations after the first add to problem.individuals, with their tags *)
  Fixpoint recs_of (it : nat) (l : list mtrans) : list (nat * mind) :=
    match l with [] => [] | t :: l' => map (fun x => (it + 2, x)) (t_next t) ++ recs_of (S it) l' end.

  Lemma step_fact : forall N it stm g stm',
    nsga2_step veq vexact select N it stm g = Some stm' ->
    exists t, s_trace stm' = s_trace stm ++ [t] /\ t_parents t = s_par stm
              /\ length (t_copies t) = length (s_par stm) /\ t_next t = s_par stm'
              /\ s_rec stm' = s_rec stm ++ map (fun x => (it + 2, x)) (s_par stm').
  Proof.
    intros N it stm g stm'. unfold nsga2_step.
    destruct (generate veq N (g_stream g) [] (s_ctr stm)) as [[cands c1]|]; [|discriminate].
    destruct (eval_batch vexact cands (g_eval g)) as [[offs lg]|]; [|discriminate].
    intros H; inversion H; subst; clear H. cbn.
    eexists. repeat split. cbn. apply copy_all_length.
  Qed.

  Lemma loop_fact : forall N k it stm gens stf,
    nsga2_loop veq vexact select N it k stm gens = Some stf ->
    exists suf, s_trace stf = s_trace stm ++ suf /\ chain (s_par stm) suf /\ length suf = k
                /\ s_rec stf = s_rec stm ++ recs_of it suf.
  Proof.
    intros N; induction k as [|k IH]; intros it stm [|g gens] stf; cbn [nsga2_loop]; try discriminate.
    - intros H; inversion H; subst. exists []. cbn. now rewrite !app_nil_r.
    - destruct (nsga2_step veq vexact select N it stm g) as [stm'|] eqn:St; [|discriminate].
      intros H. destruct (step_fact _ _ _ _ _ St) as (t & Ht & Hp & Hl & Hn & Hr).
      destruct (IH _ _ _ _ H) as (suf & Hs & Hc & Hk & Hrec).
      exists (t :: suf). cbn [chain length recs_of]. repeat split.
      + rewrite Hs, Ht, <- app_assoc. reflexivity.
      + exact Hp.
      + exact Hl.
      + rewrite Hn. exact Hc.
      + now rewrite Hk.
      + rewrite Hrec, Hr, Hn, <- app_assoc. reflexivity.
  Qed.

  Lemma kept_recs : forall l it, kept l = map (fun r => rid (snd r)) (recs_of it l).
  Proof.
    induction l as [|t l IH]; intros it; [reflexivity|].
    cbn [kept recs_of]. rewrite map_app, map_map. cbn [snd]. unfold ids. f_equal. apply IH.
  Qed.

  Lemma stored_app : forall (a b : list (@rev V)), stored (a ++ b) = stored a ++ stored b.
  Proof. intros; unfold stored; apply flat_map_app. Qed.
  Lemma stored_store : forall tag xs, stored (@store_log V tag xs) = map (fun x => (tag, x)) xs.
  Proof. induction xs as [|x xs IH]; [reflexivity|]. cbn. f_equal. exact IH. Qed.
  Lemma stored_news : forall vs : list V, stored (map (@RNew V) vs) = [].
  Proof. induction vs; [reflexivity|assumption]. Qed.
  Lemma stored_copies : forall xs, stored (map (@RCopy V) xs) = [].
  Proof. induction xs; [reflexivity|assumption]. Qed.

  Lemma stored_steps : forall N l it,
    stored (@steps_log V C N it l) = map (fun r => (fst r, rid (snd r))) (recs_of it l).
  Proof.
    intros N; induction l as [|t l IH]; intros it; [reflexivity|].
    cbn [steps_log recs_of]. rewrite stored_app, map_app, IH. f_equal.
    unfold step_log. rewrite !stored_app, stored_copies, stored_store. cbn [stored flat_map app].
    unfold ids. rewrite !map_map. reflexivity.
  Qed.
End ModelFacts.

(* NSGAII.run as generated from the source = the model's run, through the adapter above:
   - problem.individuals at the end = what it was, followed by the identities of the model's record `s_rec`
     (generation 1 = the N initial designs; generation t+1 = the survivors of pass t), in order;
   - the event log = `run_log` of the model's trace: generator, one constructor call per initial vector, ONE
     evaluation of exactly the initial designs, sort, (tag 1, sync) per design; then per model transition, in order:
     self.generate(parents of the model), ONE evaluation of exactly its offspring BEFORE the copies are appended, one
     copy per parent in order, sort and truncate(pool = offspring ++ copies, N), (tag it + 2, sync) per survivor;
     one sync_all at the very end.  The trace has G - 1 entries: the loop runs G - 1 times;
   - the (tag, identity) pairs stored into `population_id`, in order, are the model's `s_rec`. *)
Theorem nsga_run_gen_eq_model : forall (V C : Type) (veq vexact : V -> V -> bool)
    (select : list (rind V C) -> nat -> list (rind V C)) (N G : nat) (init : list V)
    (e0 : list (ev_entry V C)) (gens : list (@gen_in V C)) (st : @state V C) (P : list nat),
  nsga2_run veq vexact select N G init e0 gens = Some st ->
  let g := @nsga_run_gen V nat (@rev V) (@RStore V) (@RGen V) (@RNew V) (@REval V) (@RSort V) (@RGenerate V) (@RCopy V)
             (@RTrunc V) (@RSync V) (@RSyncAll V) (o_gen init) (@o_new V) (o_generate (s_trace st))
             (o_copy (s_trace st)) (o_trunc (s_trace st)) P G N in
  fst g = P ++ map (fun r => rid (snd r)) (s_rec st) /\
  snd g = run_log N init (s_trace st) /\
  stored (snd g) = map (fun r => (fst r, rid (snd r))) (s_rec st) /\
  length (s_trace st) = G - 1.
Proof.
  intros V C veq vexact select N G init e0 gens st P Hrun g.
  unfold nsga2_run in Hrun.
  destruct (nsga2_init vexact init e0) as [st0|] eqn:Hi; [|discriminate].
  unfold nsga2_init in Hi.
  destruct (eval_batch vexact (mk_cands init 0) e0) as [[inds lg]|] eqn:He; [|discriminate].
  inversion Hi; subst st0; clear Hi.
  destruct (loop_fact veq vexact select _ _ _ _ _ _ Hrun) as (suf & Hs & Hc & Hk & Hrec).
  cbn [s_trace s_par s_rec app] in Hs, Hc, Hrec.
  assert (H0 : ids inds = seq 0 (length init)).
  { unfold ids. rewrite (eval_ids _ _ _ _ _ He). apply mk_cands_fst. }
  assert (Hg : g = (P ++ seq 0 (length init) ++ kept (s_trace st), run_log N init (s_trace st))).
  { subst g. apply (gen_run init (s_trace st) N G P inds H0); rewrite Hs; assumption. }
  rewrite Hg. cbn [fst snd]. rewrite Hrec, Hs. repeat split.
  - rewrite map_app, map_map. cbn [snd]. rewrite <- H0, (kept_recs suf 0). reflexivity.
  - unfold run_log. cbn zeta. rewrite !stored_app, stored_news, stored_store, stored_steps.
    cbn [stored flat_map app]. rewrite map_app, !map_map. cbn [fst snd]. rewrite <- H0.
    unfold ids. rewrite map_map, app_nil_r. reflexivity.
  - exact Hk.
Qed.

(* Print Assumptions of the theorem above is run by harness/core.py translated_obligations (qualified name, whitelist) *)
