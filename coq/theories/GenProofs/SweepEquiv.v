(* The definition generated from artap/algorithm_sweep.py (SweepAlgorithm.run) by tools/py2coq_eff.py on THIS run
   equals the hand-written model Model/Job.v sweep, for all inputs.  Compiled per run against the freshly generated
   ArtapGen.SweepGen; not part of the normal build.

   Reading of the generated interface:
     ind                       an Individual object := its position in the model's heap
     ev                        observable events in program order: WGen (generator.generate()), WNew v (Individual(v) is constructed), WEval ids
                               (self.evaluate(batch)), WSync (data_store.sync_all())
     o_self_generator_generate the generator's vectors (an input)
     o_Individual              the k-th object constructed gets the next free heap position
     o_self_evaluate           Algorithm.evaluate as an effect with an outcome := the model's evaluate_serial on the
                               problem with the new designs appended
   Result: (PyVal tt | PyExc r, problem.individuals, event log).
   Not translated (named in the generated file): the time stamps and the log line. *)
From Coq Require Import List ZArith Bool Arith Lia.
From Artap Require Import Model.Job.
From ArtapGen Require Import GenTactics SweepGen.
Import ListNotations.
Local Open Scope nat_scope.

Section SweepEquiv.
  Context {T : Type} (ltb : T -> T -> bool) (zero : T) (roundp : nat -> T -> T) (smul : bool -> T -> T).
  Variables (e : env T) (st : state T) (vectors : list (list T)).

  Inductive wev := WGen | WNew (v : list T) | WEval (ids : list nat) | WSync.

  Definition out_of (r : result) : py_outcome unit result := match r with Done => PyVal tt | _ => PyExc r end.
  Definition res_of (o : py_outcome unit result) : result := match o with PyVal _ => Done | PyExc r => r end.

  Definition n0 : nat := length (s_heap st).
  Fixpoint nnew (log : list wev) : nat :=
    match log with [] => 0 | WNew _ :: l => S (nnew l) | _ :: l => nnew l end.
  Definition ids : list nat := seq n0 (length vectors).
  Definition st1 : state T := add_pop (set_heap st (s_heap st ++ map (@fresh T) vectors)) ids.
  Definition o_new (log : list wev) (v : list T) : nat := n0 + pred (nnew log).
  Definition o_eval (log : list wev) (b : list nat) : py_outcome unit result :=
    out_of (snd (evaluate_serial ltb zero roundp smul e st1 b)).

  Notation body1 := (@sweep_run_l1_body T result wev nat WNew o_new).
  Notation B1 := (@Build_sweep_run_l1_st result wev nat).
  Notation body2 := (@sweep_run_l2_body result wev nat).
  Notation B2 := (@Build_sweep_run_l2_st result wev nat).

  Lemma nnew_snoc : forall log v, nnew (log ++ [WNew v]) = S (nnew log).
  Proof. induction log as [|[|w|b|] log IH]; intros v; cbn; rewrite ?IH; reflexivity. Qed.

  Lemma loop1 : forall vs acc log,
    fold_left body1 vs (B1 acc log None) = B1 (acc ++ seq (n0 + nnew log) (length vs)) (log ++ map WNew vs) None.
  Proof.
    induction vs as [|v vs IH]; intros acc log; cbn [fold_left length seq map].
    - now rewrite !app_nil_r.
    - unfold sweep_run_l1_body at 2. cbn [sweep_run_l1_ret sweep_run_l1_v1 sweep_run_l1_v2].
      rewrite IH. unfold o_new. rewrite !nnew_snoc. cbn [pred].
      rewrite <- !app_assoc. cbn [app]. rewrite Nat.add_succ_r. reflexivity.
  Qed.

  Lemma loop2 : forall l pop, fold_left body2 l (B2 pop None) = B2 (pop ++ l) None.
  Proof.
    induction l as [|x l IH]; intros pop; cbn [fold_left].
    - now rewrite app_nil_r.
    - unfold sweep_run_l2_body at 2. cbn [sweep_run_l2_ret sweep_run_l2_v1]. rewrite IH, <- app_assoc. reflexivity.
  Qed.

  Notation gen := (@sweep_run_gen T result wev nat WGen WNew WEval WSync (fun _ => vectors) o_new o_eval).

  (* one new design per generated vector, in order, appended to problem.individuals; exactly the new designs are
     evaluated, as one batch; sync_all afterwards unless the evaluation raised *)
  Theorem sweep_run_gen_eq_model_sect :
    let g := gen (s_pop st) in
    sweep ltb zero roundp smul e st vectors = (fst (evaluate_serial ltb zero roundp smul e st1 ids), res_of (fst (fst g))) /\
    snd (fst g) = s_pop st1 /\
    snd g = WGen :: map WNew vectors ++ WEval ids :: (match fst (fst g) with PyVal _ => [WSync] | PyExc _ => [] end).
  Proof.
    unfold sweep_run_gen, sweep_run_l1_run. cbn zeta. rewrite loop1. cbn [nnew app].
    unfold sweep_run_l1_after. cbn [sweep_run_l1_ret sweep_run_l1_v1 sweep_run_l1_v2].
    unfold sweep_run_l2_run. rewrite loop2. unfold sweep_run_l2_after. cbn [sweep_run_l2_ret sweep_run_l2_v1].
    rewrite Nat.add_0_r. fold ids. unfold o_eval, sweep. fold n0. fold ids. fold st1.
    destruct (evaluate_serial ltb zero roundp smul e st1 ids) as [st2 r]. cbn [snd fst].
    destruct r; cbn; repeat split; rewrite <- ?app_assoc; reflexivity.
  Qed.
End SweepEquiv.

Theorem sweep_run_gen_eq_model : forall (T : Type) (ltb : T -> T -> bool) (zero : T) (roundp : nat -> T -> T)
    (smul : bool -> T -> T) (e : env T) (st : state T) (vectors : list (list T)),
  let g := @sweep_run_gen T result (@wev T) nat (@WGen T) (@WNew T) (@WEval T) (@WSync T) (fun _ => vectors) (o_new st)
             (o_eval ltb zero roundp smul e st vectors) (s_pop st) in
  sweep ltb zero roundp smul e st vectors =
    (fst (evaluate_serial ltb zero roundp smul e (st1 st vectors) (ids st vectors)), res_of (fst (fst g))) /\
  snd (fst g) = s_pop (st1 st vectors) /\
  snd g = WGen :: map (@WNew T) vectors ++ WEval (ids st vectors) :: (match fst (fst g) with PyVal _ => [WSync] | PyExc _ => [] end).
Proof. intros. apply sweep_run_gen_eq_model_sect. Qed.

(* Print Assumptions of the theorems above is run by harness/core.py translated_obligations (qualified names, whitelist) *)
