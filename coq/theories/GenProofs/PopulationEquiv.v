(* The definitions generated from artap/problem.py (Problem.population, Problem.last_population) by
   tools/py2coq.py on THIS run equal the hand-written models Model/Results.v population_of and
   last_population, for all lists of individuals and all tags.  Compiled per run against the freshly
   generated ArtapGen.PopulationGen.  An individual is any object with a population_id (an integer);
   the model's record is one instance. *)
From Coq Require Import List ZArith Bool Arith Lia.
From Artap Require Import Model.Results.
From ArtapGen Require Import GenTactics PopulationGen.
Import ListNotations.
Local Open Scope Z_scope.

Section PopulationEquiv.
  Context {I : Type} (tag : I -> Z).

  Lemma population_loop : forall pid (l : list I) acc,
    fold_left (population_l1_body tag pid) l (Build_population_l1_st acc None) =
    Build_population_l1_st (acc ++ filter (fun r => tag r =? pid) l) None.
  Proof.
    intros pid l; induction l as [|x l IH]; intros acc.
    - cbn. now rewrite app_nil_r.
    - loop_step. destruct (tag x =? pid); cbn [negb]; rewrite IH; cbn; rewrite <- ?app_assoc; reflexivity.
  Qed.

  Theorem population_gen_generic : forall pid (rs : list I),
    population_gen tag pid rs = filter (fun r => tag r =? pid) rs.
  Proof. intros. unfold population_gen, population_l1_run. rewrite population_loop. reflexivity. Qed.

  Lemma last_tag_loop : forall (l : list I) m,
    fold_left (last_population_l1_body tag) l (Build_last_population_l1_st m None) =
    Build_last_population_l1_st (fold_left (fun m r => if m <? tag r then tag r else m) l m) None.
  Proof.
    induction l as [|x l IH]; intros m; [reflexivity|].
    loop_step. destruct (m <? tag x); cbn [negb]; rewrite IH; reflexivity.
  Qed.

  Theorem last_population_gen_generic : forall rs : list I,
    last_population_gen tag rs =
    filter (fun r => tag r =? fold_left (fun m r => if m <? tag r then tag r else m) rs (-1)) rs.
  Proof.
    intros rs. unfold last_population_gen, last_population_l1_run. rewrite last_tag_loop.
    unfold last_population_l1_after. cbn. apply population_gen_generic.
  Qed.
  (* Problem.populations(): one pass, a dictionary keyed by tag in first-appearance order *)
  Fixpoint group_insert' (x : I) (g : list (Z * list I)) : list (Z * list I) :=
    match g with
    | [] => [(tag x, [x])]
    | (t, l) :: g' => if t =? tag x then (t, l ++ [x]) :: g' else (t, l) :: group_insert' x g'
    end.

  Lemma populations_step : forall (x : I) (g : list (Z * list I)),
    py_dict_upd Z.eqb (tag x) (fun old => old ++ [x])
      (if negb (py_dict_has Z.eqb (tag x) g) then py_dict_set Z.eqb (tag x) [] g else g) = Some (group_insert' x g).
  Proof.
    intros x g. induction g as [|[t l] g IH].
    - cbn. now rewrite Z.eqb_refl.
    - cbn [py_dict_has group_insert']. destruct (t =? tag x) eqn:E.
      + cbn. now rewrite E.
      + destruct (negb (py_dict_has Z.eqb (tag x) g)); cbn [py_dict_set py_dict_upd]; rewrite ?E;
          cbn [py_dict_upd]; rewrite ?E, IH; reflexivity.
  Qed.

  Lemma populations_loop : forall (l : list I) g,
    fold_left (populations_l1_body tag) l (Build_populations_l1_st g None) =
    Build_populations_l1_st (fold_left (fun g r => group_insert' r g) l g) None.
  Proof.
    induction l as [|x l IH]; intros g; [reflexivity|].
    loop_step. try rewrite populations_step; try (rewrite <- (populations_step x g)); apply IH.
  Qed.

  Theorem populations_gen_generic : forall rs : list I,
    populations_gen tag rs = Some (fold_left (fun g r => group_insert' r g) rs []).
  Proof. intros rs. unfold populations_gen, populations_l1_run. rewrite populations_loop. reflexivity. Qed.
End PopulationEquiv.

Theorem population_gen_eq_model : forall (T : Type) pid (rs : list (record T)),
  population_gen (@r_tag T) pid rs = population_of pid rs.
Proof. intros. apply population_gen_generic. Qed.

Theorem last_population_gen_eq_model : forall (T : Type) (rs : list (record T)),
  last_population_gen (@r_tag T) rs = last_population rs.
Proof. intros. apply last_population_gen_generic. Qed.

Theorem populations_gen_eq_model : forall (T : Type) (rs : list (record T)),
  populations_gen (@r_tag T) rs = Some (populations rs).
Proof.
  intros T rs. rewrite populations_gen_generic. unfold populations. apply f_equal.
  assert (H : forall (r : record T) g, group_insert' (@r_tag T) r g = group_insert r g).
  { intros r g. induction g as [|[t l] g IH]; cbn; [reflexivity|]. now rewrite IH. }
  generalize (@nil (Z * list (record T))). induction rs as [|r rs IH]; intros g; cbn; [reflexivity|].
  now rewrite H, IH.
Qed.

(* Print Assumptions of the theorems above is run by harness/core.py translated_obligations (qualified names, whitelist) *)
