(* crowding_distance (artap/operators.py), translated WHOLE on this run by tools/py2coq_heap.py (object store for
   features['crowding_distance'], the front as a list of references that list.sort permutes; see
   notes/TRANSLATOR.md, phase 5), equals the hand-written model Model/Selection.v crowding for all fronts.
   A member of the front is a reference r; `elt r` is the model's individual, `costs (elt r)` its objectives,
   costs_signed = objectives ++ [marker].  Premises: the references of the front are pairwise different
   (NoDup: position = identity, the members are distinct objects) and every member has as many objectives as
   the first (otherwise Python raises IndexError or reads the marker, and the model's total `nth` differs). *)
From Coq Require Import List ZArith Bool Arith Lia Permutation.
From Artap Require Import Base.StableSort Model.Selection Proofs.HeapGenLemmas.
From ArtapGen Require Import GenTactics CrowdingGen.
Import ListNotations.

Ltac to_g :=
  change @h_next with @g_next in *; change @h_ret with @g_ret in *; change @h_exc with @g_exc in *;
  change @h_stuck with @g_stuck in *; change @h_bind with @g_bind in *; change @h_get with @g_get in *;
  change @h_call with @g_call in *; change @h_for with @g_for in *; change @h_upd with @g_upd in *;
  change @h_is_none with @g_is_none in *; change @h_zindex with @g_zindex in *; change @h_nth_z with @g_nth_z in *;
  change @h_modify_z with @g_modify_z in *; change @h_same_cell with @g_same_cell in *; change @h_pop with @g_pop in *;
  change @h_mapm with @g_mapm in *; change @h_sort_by with @g_sort_by in *.

Ltac gstep := repeat (rewrite ?g_get_some, ?g_bind_next; cbv beta iota zeta); cbv beta iota zeta.

Section CrowdingEquiv.
  Context {T : Type} (ltb : T -> T -> bool) (add sub div : T -> T -> T) (zero : T).
  Context {A : Type} (costs : A -> list T).
  Context (elt : nat -> A) (mk : nat -> T).

  (* float `+` on distances: inf + x = inf *)
  Definition eadd (a b : Ext T) : Ext T := match a, b with Fin x, Fin y => Fin (add x y) | _, _ => Inf end.
  Definition fcs (r : nat) : list T := costs (elt r) ++ [mk r].          (* costs_signed *)
  Definition view (h : nat -> Ext T) (front : list nat) : list (A * Ext T) := map (fun r => (elt r, h r)) front.
  Definition key (d : nat) (r : nat) : T := obj zero costs d (elt r).

  Lemma eadd_fin a t : eadd a (Fin t) = ext_add add a t.
  Proof. destruct a; reflexivity. Qed.

  Lemma fcs_read r d : d < length (costs (elt r)) -> nth_error (fcs r) d = Some (key d r).
  Proof.
    intros H. unfold fcs, key, obj. rewrite nth_error_app1 by exact H. apply nth_error_nth'. exact H.
  Qed.
  Lemma fcs_nobj r : length (removelast (fcs r)) = length (costs (elt r)).
  Proof. unfold fcs. rewrite removelast_last. reflexivity. Qed.

  (* ---- lines 1234-1235: the reset loop ---------------------------------------------------------------------- *)
  Lemma init_spec front (h : nat -> Ext T) :
    exists h', g_for (crowding_l1_body (E := Ext T) Fin zero front) (seq 0 (length front)) h = g_next h' /\
               (forall r, In r front -> h' r = Fin zero) /\ (forall r, ~ In r front -> h' r = h r).
  Proof.
    destruct (g_for_inv (crowding_l1_body (E := Ext T) Fin zero front)
                (fun pre (h' : nat -> Ext T) =>
                   (forall j r, In j pre -> nth_error front j = Some r -> h' r = Fin zero) /\
                   (forall r, ~ In r front -> h' r = h r))
                (seq 0 (length front)) h) as [h' [E1 [P1 P2]]].
    - split; [intros j r []|reflexivity].
    - intros pre x post s Hx [Hp Hq].
      assert (Hxl : x < length front).
      { assert (In x (seq 0 (length front))) by (rewrite Hx; apply in_or_app; right; left; reflexivity).
        apply in_seq in H. lia. }
      unfold crowding_l1_body. to_g. cbv beta iota zeta.
      rewrite (nth_error_nth' front 0 Hxl), g_get_some. eexists. split; [reflexivity|]. split.
      + intros j r Hj Hr. destruct (Nat.eq_dec r (nth x front 0)) as [->|Hne]; [apply g_upd_same|].
        rewrite g_upd_other by exact Hne. apply in_app_or in Hj. destruct Hj as [Hj|[<-|[]]]; [eapply Hp; eassumption|].
        rewrite (nth_error_nth' front 0 Hxl) in Hr. congruence.
      + intros r Hr. rewrite g_upd_other; [apply Hq; exact Hr|]. intros ->. apply Hr. apply nth_In. exact Hxl.
    - exists h'. split; [exact E1|]. split; [|exact P2].
      intros r Hr. destruct (In_nth front r 0 Hr) as [j [Hj <-]]. apply (P1 j); [apply in_seq; lia|].
      apply nth_error_nth'. exact Hj.
  Qed.

  (* ---- lines 1245-1248: the interior members of one objective's order ------------------------------------------ *)
  Section OneObjective.
    Context (d n : nat) (front : list nat) (maxd : T).
    Hypothesis Hlen : length front = n.
    Hypothesis Hnd : NoDup front.
    Hypothesis Hcost : forall r, In r front -> d < length (costs (elt r)).
    Let fr (j : nat) : nat := nth j front 0.

    Lemma fr_in j : j < n -> In (fr j) front.
    Proof. intros H. apply nth_In. rewrite Hlen. exact H. Qed.
    Lemma fr_read j : j < n -> nth_error front j = Some (fr j).
    Proof. intros H. apply nth_error_nth'. rewrite Hlen. exact H. Qed.
    Lemma fr_inj i j : i < n -> j < n -> fr i = fr j -> i = j.
    Proof. intros Hi Hj. apply (proj1 (NoDup_nth front 0) Hnd); rewrite Hlen; assumption. Qed.

    (* what the interior position j receives *)
    Definition newv (h : nat -> Ext T) (j : nat) : Ext T :=
      if ltb zero maxd
      then eadd (h (fr j)) (Fin (div (sub (key d (fr (j + 1))) (key d (fr (j - 1)))) maxd))
      else h (fr j).

    Lemma l3_spec (h : nat -> Ext T) j : 1 <= j -> j + 1 < n ->
      crowding_l3_body (E := Ext T) ltb sub div Fin eadd zero fcs front d maxd h j =
        g_next (if ltb zero maxd then g_upd h (fr j) (newv h j) else h).
    Proof.
      intros H1 H2. unfold crowding_l3_body, newv. to_g. cbv beta iota zeta.
      rewrite (fr_read (j + 1)) by lia. rewrite g_get_some, (fcs_read (fr (j + 1)) d), g_get_some
        by (apply Hcost, fr_in; lia).
      change 1%Z with (Z.of_nat 1). rewrite g_nth_z_sub by lia. rewrite (fr_read (j - 1)) by lia.
      rewrite g_get_some, (fcs_read (fr (j - 1)) d), g_get_some by (apply Hcost, fr_in; lia).
      destruct (ltb zero maxd); [|reflexivity].
      rewrite (fr_read j) by lia. rewrite g_get_some. reflexivity.
    Qed.

    Lemma interior_spec : forall (js : list nat) (h : nat -> Ext T),
      (forall j, In j js -> 1 <= j /\ j + 1 < n) -> NoDup js ->
      exists h', g_for (crowding_l3_body (E := Ext T) ltb sub div Fin eadd zero fcs front d maxd) js h = g_next h' /\
                 (forall j, In j js -> h' (fr j) = newv h j) /\
                 (forall r, (forall j, In j js -> fr j <> r) -> h' r = h r).
    Proof.
      induction js as [|j js IH]; intros h Hjs Hndj.
      - exists h. split; [reflexivity|]. split; [intros j []|reflexivity].
      - cbn [g_for]. destruct (Hjs j (or_introl eq_refl)) as [Hj1 Hj2]. rewrite (l3_spec h j Hj1 Hj2), g_bind_next.
        inversion Hndj as [|? ? Hnotin Hndj' Heq1]. clear Heq1.
        set (h1 := if ltb zero maxd then g_upd h (fr j) (newv h j) else h).
        assert (Hh1 : forall r, r <> fr j -> h1 r = h r).
        { intros r Hr. unfold h1. destruct (ltb zero maxd); [apply g_upd_other; exact Hr|reflexivity]. }
        assert (Hh1j : h1 (fr j) = newv h j).
        { unfold h1. destruct (ltb zero maxd) eqn:El; [apply g_upd_same|].
          unfold newv. rewrite El. reflexivity. }
        destruct (IH h1) as (h' & E1 & N1 & F1); [intros j' Hj'; apply Hjs; right; exact Hj'|exact Hndj'|].
        exists h'. split; [exact E1|]. split.
        + intros j' [<-|Hj'].
          * rewrite F1; [exact Hh1j|]. intros j' Hj' Heq.
            destruct (Hjs j' (or_intror Hj')) as [? ?]. apply fr_inj in Heq; [|lia|lia]. subst j'. contradiction.
          * rewrite (N1 j' Hj'). destruct (Hjs j' (or_intror Hj')) as [? ?].
            assert (Hne : fr j' <> fr j).
            { intros Heq. apply fr_inj in Heq; [|lia|lia]. subst j'. contradiction. }
            unfold newv. rewrite (Hh1 (fr j') Hne). reflexivity.
        + intros r Hr. rewrite F1; [|intros j' Hj'; apply Hr; right; exact Hj'].
          apply Hh1. intros ->. apply (Hr j); [left; reflexivity|reflexivity].
    Qed.
  End OneObjective.

  (* ---- lines 1239-1248: one objective (sort in place, inf at both ends, the guarded accumulation) ---------------- *)
  Lemma l2_spec n front (h : nat -> Ext T) d : length front = n -> 3 <= n -> NoDup front ->
    (forall r, In r front -> d < length (costs (elt r))) ->
    exists front' h',
      crowding_l2_body (E := Ext T) ltb sub div Inf Fin eadd zero fcs n (front, h) d = g_next (front', h') /\
      view h' front' = cstep ltb add sub div zero costs (view h front) d /\
      Permutation front' front /\ (forall r, ~ In r front -> h' r = h r).
  Proof.
    intros Hlen Hn Hnd Hcost. unfold crowding_l2_body. to_g. cbv beta iota zeta.
    rewrite (g_mapm_map _ (key d) front) by (intros r Hr; apply fcs_read, Hcost; exact Hr).
    gstep. rewrite g_sort_by_keys.
    set (front' := ssort (fun a b => negb (ltb (key d b) (key d a))) front).
    assert (Hperm : Permutation front' front) by apply ssort_perm.
    assert (Hlen' : length front' = n) by (rewrite (Permutation_length Hperm); exact Hlen).
    assert (Hnd' : NoDup front') by (eapply Permutation_NoDup; [symmetry; exact Hperm|exact Hnd]).
    assert (Hcost' : forall r, In r front' -> d < length (costs (elt r))).
    { intros r Hr. apply Hcost. eapply Permutation_in; eassumption. }
    set (fr := fun j => nth j front' 0).
    assert (Hin : forall j, j < n -> In (fr j) front') by (intros j Hj; apply nth_In; lia).
    assert (Hinj : forall i j, i < n -> j < n -> fr i = fr j -> i = j).
    { intros i j Hi Hj. apply (proj1 (NoDup_nth front' 0) Hnd'); lia. }
    rewrite (nth_error_nth' front' 0) by lia. gstep.
    rewrite g_nth_z_last by lia. rewrite Hlen', (nth_error_nth' front' 0) by lia. gstep.
    fold (fr 0). fold (fr (n - 1)).
    rewrite (fcs_read (fr (n - 1)) d) by (apply Hcost', Hin; lia). gstep.
    rewrite (fcs_read (fr 0) d) by (apply Hcost', Hin; lia). gstep.
    replace (Z.to_nat (Z.of_nat n - 1 - Z.of_nat 1)) with (n - 2) by lia.
    set (maxd := sub (key d (fr (n - 1))) (key d (fr 0))).
    match goal with |- context [g_for _ _ ?hh] => set (h2 := hh) end.
    assert (H2a : h2 (fr 0) = Inf /\ h2 (fr (n - 1)) = Inf).
    { unfold h2, g_upd. rewrite !Nat.eqb_refl. destruct (_ =? _); split; reflexivity. }
    assert (H2c : forall r, r <> fr 0 -> r <> fr (n - 1) -> h2 r = h r).
    { intros r Hr0 Hrn. unfold h2. rewrite !g_upd_other by assumption. reflexivity. }
    destruct (interior_spec d n front' maxd Hlen' Hnd' Hcost' (seq 1 (n - 2)) h2) as (h' & E1 & N1 & F1).
    { intros j Hj. apply in_seq in Hj. lia. }
    { apply seq_NoDup. }
    assert (N1' : forall j, In j (seq 1 (n - 2)) -> h' (fr j) = newv d front' maxd h2 j) by exact N1.
    assert (F1' : forall r, (forall j, In j (seq 1 (n - 2)) -> fr j <> r) -> h' r = h2 r) by exact F1.
    rewrite E1, g_bind_next. exists front', h'. split; [reflexivity|]. split; [|split; [exact Hperm|]].
    2:{ intros r Hr. rewrite F1.
        - apply H2c; intros ->; apply Hr; (eapply Permutation_in; [exact Hperm|apply Hin; lia]).
        - intros j Hj Heq. subst r. apply in_seq in Hj. apply Hr. eapply Permutation_in; [exact Hperm|apply Hin; lia]. }
    (* the list the model computes *)
    unfold cstep. cbv zeta.
    assert (Hs : ssort (key_leb ltb zero costs d) (view h front) = view h front').
    { unfold view, front'. symmetry. apply ssort_map. reflexivity. }
    rewrite Hs.
    assert (Hks : map (okey zero costs d) (view h front') = map (key d) front').
    { unfold view. rewrite map_map. reflexivity. }
    rewrite Hks.
    assert (Hvl : length (view h front') = n) by (unfold view; rewrite map_length; exact Hlen').
    rewrite Hvl. rewrite <- Hvl at 2.
    rewrite (map_combine_pos _ (view h front') (elt 0, h 0)). rewrite Hvl.
    unfold view at 1. rewrite (map_by_pos _ front' 0), Hlen'.
    apply map_ext_in. intros j Hj. apply in_seq in Hj.
    unfold view. rewrite (map_nth (fun r => (elt r, h r)) front' 0 j). fold (fr j).
    assert (Hnk : forall k, k < n -> nth k (map (key d) front') zero = key d (fr k)).
    { intros k Hk. rewrite (nth_indep _ zero (key d 0)) by (rewrite map_length; lia). apply map_nth. }
    unfold upd. cbv beta iota.
    destruct (Nat.eqb_spec j 0) as [->|Hj0]; cbn [orb].
    - f_equal. rewrite F1'; [|intros j' Hj' Heq; apply in_seq in Hj'; apply Hinj in Heq; lia].
      apply H2a.
    - destruct (Nat.eqb_spec j (n - 1)) as [->|Hjn].
      + f_equal. rewrite F1'; [|intros j' Hj' Heq; apply in_seq in Hj'; apply Hinj in Heq; lia].
        apply H2a.
      + rewrite !Hnk by lia. fold maxd.
        rewrite (N1' j) by (apply in_seq; lia). unfold newv.
        fold (fr j). fold (fr (j + 1)). fold (fr (j - 1)).
        assert (Hh2 : h2 (fr j) = h (fr j)).
        { apply H2c; intros Heq; apply Hinj in Heq; lia. }
        rewrite Hh2. destruct (ltb zero maxd); [|reflexivity]. rewrite eadd_fin. reflexivity.
  Qed.

  (* ---- the whole function ------------------------------------------------------------------------------------------ *)
  Definition uniform (front : list nat) : Prop :=
    forall r, In r front -> length (costs (elt r)) = nobj costs (map elt front).

  Lemma nobj_front front : 1 <= length front -> nobj costs (map elt front) = length (costs (elt (nth 0 front 0))).
  Proof. destruct front; cbn; [lia|reflexivity]. Qed.

  Definition rel (n : nat) (front0 : list nat) (h0 : nat -> Ext T) (g : list nat * (nat -> Ext T)) (l : list (A * Ext T)) : Prop :=
    l = view (snd g) (fst g) /\ length (fst g) = n /\ NoDup (fst g) /\ Permutation (fst g) front0 /\
    (forall r, ~ In r front0 -> snd g r = h0 r).

  Theorem crowding_gen_eq_model : forall front (h0 : nat -> Ext T), NoDup front -> uniform front ->
    exists front' h',
      crowding_gen (E := Ext T) ltb sub div Inf Fin eadd zero fcs front h0 = h_ret (tt, front', h') /\
      view h' front' = crowding ltb add sub div zero costs (map elt front) /\
      Permutation front' front /\ (forall r, ~ In r front -> h' r = h0 r).
  Proof.
    intros front h0 Hnd Hun. unfold crowding_gen, crowding. rewrite map_length. to_g. cbv zeta.
    destruct (le_lt_dec 3 (length front)) as [Hn|Hn].
    - replace (length front =? 0) with false by (symmetry; apply Nat.eqb_neq; lia).
      replace (length front =? 1) with false by (symmetry; apply Nat.eqb_neq; lia).
      replace (length front =? 2) with false by (symmetry; apply Nat.eqb_neq; lia).
      replace (length front <=? 2) with false by (symmetry; apply Nat.leb_gt; lia).
      destruct (init_spec front h0) as (h1 & E1 & Z1 & F1). rewrite E1. gstep.
      rewrite (nth_error_nth' front 0) by lia. gstep.
      rewrite fcs_nobj, <- nobj_front by lia.
      destruct (g_for_fold (rel (length front) front h0)
                  (crowding_l2_body (E := Ext T) ltb sub div Inf Fin eadd zero fcs (length front))
                  (cstep ltb add sub div zero costs) (seq 0 (nobj costs (map elt front))))
        with (s := (front, h1)) (m := map (fun x => (x, Fin zero)) (map elt front))
        as [[front' h'] [E2 (R1 & R2 & R3 & R4 & R5)]].
      + intros [fr h] l d Hd (Q1 & Q2 & Q3 & Q4 & Q5). cbn [fst snd] in *. apply in_seq in Hd.
        destruct (l2_spec (length front) fr h d Q2 Hn Q3) as (fr' & h'' & E' & V' & P' & F').
        { intros r Hr. rewrite (Hun r); [lia|]. eapply Permutation_in; eassumption. }
        exists (fr', h''). split; [exact E'|]. unfold rel. cbn [fst snd]. subst l.
        repeat split.
        * symmetry. exact V'.
        * rewrite (Permutation_length P'). exact Q2.
        * eapply Permutation_NoDup; [symmetry; exact P'|exact Q3].
        * etransitivity; eassumption.
        * intros r Hr. rewrite F'; [apply Q5; exact Hr|]. intros Hin. apply Hr. eapply Permutation_in; eassumption.
      + unfold rel. cbn [fst snd]. repeat split; try assumption; try reflexivity.
        unfold view. rewrite map_map. apply map_ext_in. intros r Hr. rewrite (Z1 r Hr). reflexivity.
      + cbn [fst snd] in *. rewrite E2. gstep. exists front', h'. repeat split; try assumption. symmetry. exact R1.
    - destruct front as [|a [|b [|c rest]]]; [| | |cbn in Hn; lia]; cbn [length Nat.eqb Nat.leb nth_error map]; gstep.
      + exists [], h0. repeat split; auto.
      + exists [a], (g_upd h0 a Inf). repeat split; auto.
        * unfold view. cbn [map]. rewrite g_upd_same. reflexivity.
        * intros r Hr. apply g_upd_other. intros ->. apply Hr. left. reflexivity.
      + assert (Hab : a <> b).
        { inversion Hnd as [|? ? Hnotin ?]; subst. intros ->. apply Hnotin. left. reflexivity. }
        exists [a; b], (g_upd (g_upd h0 a Inf) b Inf). repeat split; auto.
        * unfold view. cbn [map]. rewrite g_upd_same, (g_upd_other _ b Inf a Hab), g_upd_same. reflexivity.
        * intros r Hr. rewrite !g_upd_other; [reflexivity| |]; intros ->; apply Hr; cbn; auto.
  Qed.
End CrowdingEquiv.

(* position = identity: the members of the front are the positions 0 .. length f - 1 of the model's front f *)
Lemma map_nth_seq {A} (f : list A) (dflt : A) : map (fun r => nth r f dflt) (seq 0 (length f)) = f.
Proof. rewrite <- (map_by_pos (fun x => x) f dflt). apply map_id. Qed.

Theorem crowding_gen_positions :
  forall (T : Type) (ltb : T -> T -> bool) (add sub div : T -> T -> T) (zero : T) (A : Type) (costs : A -> list T)
         (f : list A) (dflt : A) (mk : nat -> T) (h0 : nat -> Ext T),
    (forall x, In x f -> length (costs x) = nobj costs f) ->
    exists front' h',
      crowding_gen (E := Ext T) ltb sub div Inf Fin (eadd add) zero (fun r => costs (nth r f dflt) ++ [mk r])
                   (seq 0 (length f)) h0 = h_ret (tt, front', h') /\
      map (fun r => (nth r f dflt, h' r)) front' = crowding ltb add sub div zero costs f /\
      Permutation front' (seq 0 (length f)).
Proof.
  intros T ltb add sub div zero A costs f dflt mk h0 Hun.
  destruct (crowding_gen_eq_model ltb add sub div zero costs (fun r => nth r f dflt) mk (seq 0 (length f)) h0)
    as (front' & h' & E1 & V1 & P1 & _).
  - apply seq_NoDup.
  - intros r Hr. rewrite map_nth_seq. apply Hun. apply nth_In. apply in_seq in Hr. lia.
  - exists front', h'. rewrite map_nth_seq in V1. repeat split; assumption.
Qed.

(* the binary64 instance the translator builds from the operator NAMES: pins `<` (sort key and guard), `-`, `/`,
   `+`, math.inf and the literal 0.0 to their positions in the Section context *)
From Coq Require Import Floats.
Theorem crowding_gen_f_pins :
  crowding_gen_f = @crowding_gen float float PrimFloat.ltb PrimFloat.sub PrimFloat.div infinity (fun x => x) PrimFloat.add 0%float.
Proof. reflexivity. Qed.
