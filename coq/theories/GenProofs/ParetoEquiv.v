(* The definitions generated on THIS run by tools/py2coq_bench.py from artap/benchmark_pareto.py (DTLZI, DTLZII, DTLZIII,
   DTLZIV, ZDT1 with eval_g / eval_h, BiObjectiveTestProblem: `evaluate`), instantiated at Coq's reals, equal the
   hand-written models of Model/ParetoBench.v for every number of objectives m = len(self.costs) and every vector:
   the model mirrors the code loop by loop, so the equalities hold by unfolding; the only lemma is
   `for i in range(0, m): scores.append(f i)` = `map f (seq 0 m)`.  So every C16 theorem about the model is a theorem
   about what the source says now. *)
From Coq Require Import Reals List Arith Lia Lra.
From Artap Require Import Model.ParetoBench Proofs.BenchGenLemmas.
From ArtapGen Require Import ParetoGen.
Import ListNotations.
Local Open Scope R_scope.

Ltac rops := cbv beta iota zeta delta [R_ops o_ltb o_leb o_eqb o_add o_sub o_mul o_div o_neg o_abs o_pow o_exp o_sin o_cos o_sqrt o_pi o_e o_nat o_int o_dec].

Theorem DTLZI_evaluate_gen_eq_model : forall m x, DTLZI_evaluate_gen_R m x = dtlz1 m x.
Proof.
  intros. unfold DTLZI_evaluate_gen_R, DTLZI_evaluate_gen. rops.
  rewrite fold_append_map. reflexivity.
Qed.

Theorem DTLZII_evaluate_gen_eq_model : forall m x, DTLZII_evaluate_gen_R m x = dtlz2 m x.
Proof.
  intros. unfold DTLZII_evaluate_gen_R, DTLZII_evaluate_gen. rops.
  rewrite fold_append_map. reflexivity.
Qed.

Theorem DTLZIII_evaluate_gen_eq_model : forall m x, DTLZIII_evaluate_gen_R m x = dtlz3 m x.
Proof.
  intros. unfold DTLZIII_evaluate_gen_R, DTLZIII_evaluate_gen. rops.
  rewrite fold_append_map. reflexivity.
Qed.

Theorem DTLZIV_evaluate_gen_eq_model : forall m x, DTLZIV_evaluate_gen_R m x = dtlz4 m x.
Proof.
  intros. unfold DTLZIV_evaluate_gen_R, DTLZIV_evaluate_gen. rops.
  rewrite fold_append_map. reflexivity.
Qed.

Theorem ZDT1_eval_g_gen_eq_model : forall x, ZDT1_eval_g_gen_R x = zdt1_eval_g x.
Proof. intros. unfold ZDT1_eval_g_gen_R, ZDT1_eval_g_gen. rops. reflexivity. Qed.

Theorem ZDT1_eval_h_gen_eq_model : forall f g, ZDT1_eval_h_gen_R f g = zdt1_eval_h f g.
Proof. intros. unfold ZDT1_eval_h_gen_R, ZDT1_eval_h_gen. rops. reflexivity. Qed.

Theorem ZDT1_evaluate_gen_eq_model : forall x, ZDT1_evaluate_gen_R x = zdt1 x.
Proof.
  intros. unfold ZDT1_evaluate_gen_R, ZDT1_evaluate_gen. fold ZDT1_eval_g_gen_R ZDT1_eval_h_gen_R. rops.
  rewrite ZDT1_eval_g_gen_eq_model, ZDT1_eval_h_gen_eq_model. reflexivity.
Qed.

Theorem BiObjectiveTestProblem_evaluate_gen_eq_model : forall x, BiObjectiveTestProblem_evaluate_gen_R x = biobj x.
Proof. intros. unfold BiObjectiveTestProblem_evaluate_gen_R, BiObjectiveTestProblem_evaluate_gen. rops. reflexivity. Qed.
