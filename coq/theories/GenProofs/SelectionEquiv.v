(* The definitions generated from artap/operators.py (nondominated_cmp, nondominated_truncate,
   TournamentSelector.select) by tools/py2coq.py on THIS run equal the hand-written models of
   Model/Selection.v (C03), for all inputs.  Compiled per run against the freshly generated
   ArtapGen.SelectionGen; not part of the normal build.

   nondominated_cmp: the only question sorted(key=cmp_to_key(nondominated_cmp)) asks is cmp(p, q) < 0; the
     generated comparison answers it as the model's nd_lt does: equal fronts -> -p.cd < -q.cd, else
     p.front < q.front.  The crowding distance may be math.inf: the model keeps it in Ext T (Fin t | Inf)
     and compares q.cd < p.cd there; the source negates both sides.  The two meet under the premise
     H_neg (`-a < -b` iff `b < a` on the values that occur, through an embedding e into Ext T): a fact of
     binary64 arithmetic with infinities that is assumed here, not proved.
   nondominated_truncate: list(set(population)) is an oracle (o_set: the iteration order of the set, which
     the model receives as `order`); what is proved is the rest: stable sort by the comparison, slice.
   TournamentSelector.select: random.sample(individuals, 2) = the members at two different indices
     (smp_1_1, smp_1_2), random.choice(candidates) = candidates[pick_1]; self.dominance.compare is the
     Pareto comparator of Model/Dominance.v (translated and proved separately: DominanceEquiv.v). *)
From Coq Require Import List ZArith Bool Arith Lia.
From Artap Require Import Base.StableSort Model.Dominance Model.Selection.
From ArtapGen Require Import GenTactics SelectionGen.
Import ListNotations.

Section CmpEquiv.
  Context {K I : Type} (ltbK : K -> K -> bool) (negK : K -> K) (front : I -> nat) (cd : I -> K).

  (* cmp(p, q) < 0 *)
  Definition gen_lt (p q : I) : bool := (nondominated_cmp_gen ltbK negK front cd p q <? 0)%Z.

  Theorem nondominated_cmp_gen_lt : forall p q,
    gen_lt p q = if front p =? front q then ltbK (negK (cd p)) (negK (cd q)) else front p <? front q.
  Proof. intros p q. unfold gen_lt, nondominated_cmp_gen. case_ifs; reflexivity. Qed.

  (* the whole three-way verdict, for the record *)
  Theorem nondominated_cmp_gen_verdict : forall p q,
    nondominated_cmp_gen ltbK negK front cd p q =
    if front p =? front q
    then (if ltbK (negK (cd p)) (negK (cd q)) then (-1)%Z else if ltbK (negK (cd q)) (negK (cd p)) then 1%Z else 0%Z)
    else (if front p <? front q then (-1)%Z else if front q <? front p then 1%Z else 0%Z).
  Proof. intros p q. unfold nondominated_cmp_gen. case_ifs; reflexivity. Qed.

  (* ---- the model's order: crowding distances in Ext T ---- *)
  Context {T : Type} (ltb : T -> T -> bool) (e : K -> Ext T).
  Hypothesis H_neg : forall a b, ltbK (negK a) (negK b) = ext_ltb ltb (e b) (e a).

  Lemma gen_lt_nd_lt : forall p q, gen_lt p q = nd_lt ltb front (fun x => e (cd x)) p q.
  Proof. intros p q. rewrite nondominated_cmp_gen_lt. unfold nd_lt. now rewrite H_neg. Qed.

  Lemma insert_ext : forall (l1 l2 : I -> I -> bool), (forall a b, l1 a b = l2 a b) ->
    forall x l, insert l1 x l = insert l2 x l.
  Proof. intros l1 l2 H x l. induction l as [|y l IH]; cbn; [reflexivity|]. now rewrite H, IH. Qed.

  Lemma py_sorted_ssort_ext : forall (l1 l2 : I -> I -> bool), (forall a b, l1 a b = l2 a b) ->
    forall l, py_sorted l1 l = ssort l2 l.
  Proof.
    intros l1 l2 H l. unfold py_sorted, ssort. induction l as [|a l IH]; [reflexivity|]. cbn [fold_right]. rewrite IH.
    rewrite <- (insert_ext l1 l2 H).
    generalize (fold_right (insert l2) [] l). intros r. induction r as [|b r IHr]; [reflexivity|].
    cbn. destruct (l1 a b); [reflexivity|]. now rewrite IHr.
  Qed.

  (* `o_set` is what list(set(population)) returned: the model gets it as the id order `order` and rebuilds
     the list with `arrange` (None when the order is not a permutation of the de-duplicated population) *)
  Theorem nondominated_truncate_gen_eq_model : forall (iid : I -> nat) (deq : I -> I -> bool) pop order k l,
    (length order =? length (dedupe deq pop)) && nodupb order = true ->
    arrange iid (dedupe deq pop) order = Some l ->
    truncate ltb iid front (fun x => e (cd x)) deq pop order k =
    Some (nondominated_truncate_gen ltbK negK front cd (fun _ => l) pop k).
  Proof.
    intros iid deq pop order k l Hc Ha. unfold truncate, nondominated_truncate_gen. rewrite Hc, Ha.
    f_equal. f_equal. symmetry. apply py_sorted_ssort_ext.
    intros a b. unfold nd_leb. rewrite <- gen_lt_nd_lt. reflexivity.
  Qed.
End CmpEquiv.

(* ---------------------------------------------------------------------------------------------- *)
Section TournamentEquiv.
  Context {T I : Type} (ltb : T -> T -> bool) (front : I -> nat) (cost : I -> list T * Z).

  (* was random.choice called?  (the model's tape has a coin exactly then) *)
  Definition coin_of (pop : list I) (s1 s2 pk : nat) : option nat :=
    match pop with
    | [_] => None
    | _ => match nth_error pop s1, nth_error pop s2 with
           | Some c0, Some c1 =>
               if (front c0 <? front c1) || (front c1 <? front c0) then None
               else match pareto_compare ltb (cost c0) (cost c1) with
                    | 1 | 2 => None
                    | _ => Some pk
                    end
           | _, _ => None
           end
    end.
  Definition smp_of (pop : list I) (s1 s2 : nat) : option (nat * nat) :=
    match pop with [_] => None | _ => Some (s1, s2) end.

  Theorem tournament_select_gen_eq_model : forall pop s1 s2 pk,
    tournament_select_gen front cost (pareto_compare ltb) pk s1 s2 pop =
    tournament ltb front cost pop (smp_of pop s1 s2) (coin_of pop s1 s2 pk).
  Proof.
    intros pop s1 s2 pk. unfold tournament_select_gen, tournament, tournament2, smp_of, coin_of;
      try unfold tournament_select_k1.
    destruct pop as [|x [|y pop]]; cbn [length Nat.eqb].
    - destruct (s1 =? s2); [reflexivity|]. now destruct s1.
    - reflexivity.
    - destruct (s1 =? s2); [reflexivity|].
      destruct (nth_error (x :: y :: pop) s1) as [c0|]; [|reflexivity].
      destruct (nth_error (x :: y :: pop) s2) as [c1|]; [|reflexivity].
      cbn [nth_error].
      destruct (front c0 <? front c1); [reflexivity|].
      destruct (front c1 <? front c0); [reflexivity|]. cbn [orb].
      destruct (pareto_compare ltb (cost c0) (cost c1)) as [|[|[|n]]]; cbn; try reflexivity;
        destruct pk as [|[|pk]]; try reflexivity; destruct pk; reflexivity.
  Qed.
End TournamentEquiv.

(* the binary64 instances pin the operators: Python's `<` and unary minus on the float crowding distances *)
From Coq Require Import Floats.
Corollary selection_gen_float : forall (I : Type) (front : I -> nat) (cd : I -> float) (oset : list I -> list I) p q pop k,
  nondominated_cmp_gen_f front cd p q = nondominated_cmp_gen PrimFloat.ltb PrimFloat.opp front cd p q /\
  nondominated_truncate_gen_f front cd oset pop k = nondominated_truncate_gen PrimFloat.ltb PrimFloat.opp front cd oset pop k.
Proof. intros. split; reflexivity. Qed.

(* Print Assumptions of the theorems above is run by harness/core.py translated_obligations (qualified names, whitelist) *)
