(* The definition generated from artap/utils.py (VectorAndNumbers.gen_number, specialised by the spec to
   distribution = "uniform", p_type = "real", bounds given) by tools/py2coq.py on THIS run equals the
   hand-written exact-rational model Model/Variation.v gen_number, for all inputs: the generated
   definition is abstract in its numbers, and instantiated at Q (Qeq_bool, Qplus, ...; random() = the
   draw r; round = round-half-even) it is the model, term for term.  The branches for the other
   distributions / p_type are not translated (the model does not cover them either).
   gen_number_gen_float_pins states which operations and literals the binary64 instance uses
   (== + - * / , 0 and 1e-12): a changed literal or operator in the source changes that instance. *)
From Coq Require Import List ZArith Bool Arith QArith Qround.
From Artap Require Import Model.Variation.
From ArtapGen Require Import GenTactics GenNumberGen.
Import ListNotations.

Theorem gen_number_gen_eq_model : forall (r lb ub p : Q) (rest : list Q),
  gen_number_gen Qeq_bool Qplus Qminus Qmult Qdiv 0%Q default_precision r
                 (fun y => inject_Z (round_half_even y)) (lb :: ub :: rest) p =
  Some (gen_number r lb ub p).
Proof. intros. reflexivity. Qed.

(* fewer than two bounds: bounds[1] raises IndexError *)
Theorem gen_number_gen_short_bounds : forall (r p : Q) (b : list Q), (length b < 2)%nat ->
  gen_number_gen Qeq_bool Qplus Qminus Qmult Qdiv 0%Q default_precision r
                 (fun y => inject_Z (round_half_even y)) b p = None.
Proof. intros r p [|x [|y b]] H; cbn in *; try reflexivity. exfalso. inversion H as [|? H1]; inversion H1 as [|? H2]; inversion H2. Qed.

From Coq Require Import Floats.
Theorem gen_number_gen_float_pins : forall r round bounds p,
  gen_number_gen_f r round bounds p =
  gen_number_gen PrimFloat.eqb PrimFloat.add PrimFloat.sub PrimFloat.mul PrimFloat.div
                 0%float 0x1.19799812dea11p-40%float r round bounds p.
Proof. reflexivity. Qed.

(* Print Assumptions of the theorems above is run by harness/core.py translated_obligations (qualified names, whitelist) *)
