(* The definitions generated from artap/algorithm_swarm.py by tools/py2coq.py on THIS run equal the
   hand-written models of Model/Swarm.v (C18), for all inputs:
     SwarmAlgorithm.update_particle_best   body of `for particle in population` (the whole method)  = pbest_step
     SwarmAlgorithm.speed_constriction                                                              = speed_constriction
     OMOPSO / SMPSO / PSOGA.update_position body of `for individual in individuals` (whole method)   = position_update
                                                                                      (one particle of update_position)
   Compiled per run against the freshly generated ArtapGen.SwarmGen; not part of the normal build.

   Body mode: the loop body is a function of ONE particle (an opaque object with the accessors
   f_Particle_.. ); its result is the final value of the attributes the body writes.  That the method
   applies it to every particle of the list in order is pinned by the text of the loop header and by
   "the loop is the whole method"; which particles share a `features` dict is not translated (the
   model keeps the personal bests in a store indexed by dict: Model/Swarm.v update_particle_best).
   A parameter is read as parameter['bounds'][0], parameter['bounds'][1]: the model's pair (lb, ub) is the
   parameter whose bounds list is [lb; ub]. *)
From Coq Require Import List ZArith Bool Arith Lia.
From Artap Require Import Model.Variation Model.Swarm.
From ArtapGen Require Import GenTactics SwarmGen.
Import ListNotations.

(* ---------------------------------------------------------------------------------------------- *)
Section PBest.
  Context {T P : Type}.
  Variables (cost best_cost : P -> list T * Z) (vec best_vec : P -> list T).
  Variable cmp : list T * Z -> list T * Z -> nat.

  Theorem update_particle_best_body_gen_eq_model : forall p : P,
    update_particle_best_body_gen cost vec best_cost best_vec cmp p =
    pbest_step cmp {| p_cost := cost p; p_vec := vec p; p_feat := 0 |} (best_cost p, best_vec p).
  Proof.
    intros p. unfold update_particle_best_body_gen, pbest_step. cbn [p_cost p_vec fst snd].
    destruct (Nat.eqb (cmp (cost p) (best_cost p)) 2); reflexivity.
  Qed.
End PBest.

(* ---------------------------------------------------------------------------------------------- *)
Section Speed.
  Context {T : Type} (ltb : T -> T -> bool) (sub div : T -> T -> T) (neg : T -> T) (two : T).

  Theorem speed_constriction_gen_eq_model : forall v ub lb,
    speed_constriction_gen ltb sub div neg two v ub lb = speed_constriction ltb sub div neg two v ub lb.
  Proof. intros. reflexivity. Qed.
End Speed.

(* ---------------------------------------------------------------------------------------------- *)
Section ListLemmas.
  Context {A : Type}.

  Lemma nth_error_mid : forall (pre : list A) x r i, i = length pre -> nth_error (pre ++ x :: r) i = Some x.
  Proof. intros pre x r i ->. rewrite nth_error_app2 by lia. now rewrite Nat.sub_diag. Qed.

  Lemma nth_error_end : forall (pre : list A) i, i = length pre -> nth_error (pre ++ []) i = None.
  Proof. intros pre i ->. rewrite app_nil_r. apply nth_error_None. lia. Qed.

  Lemma py_set_nth_mid : forall (pre : list A) x y r i, i = length pre ->
    py_set_nth i y (pre ++ x :: r) = Some (pre ++ y :: r).
  Proof.
    intros pre x y r i ->. induction pre as [|a pre IH]; cbn; [reflexivity|]. now rewrite IH.
  Qed.
End ListLemmas.

Section Position.
  Context {T : Type} (ltb : T -> T -> bool) (add : T -> T -> T) (bounce : T -> T).

  (* a parameter (lb, ub) as the object whose ['bounds'] is the list [lb; ub] *)
  Definition bnd (p : T * T) : list T := [fst p; snd p].

  Definition glue (prex prev : list T) (r : option (list T * list T)) : option (list T * list T) :=
    match r with Some (xs, vs) => Some (prex ++ xs, prev ++ vs) | None => None end.

  Lemma glue_step : forall prex prev x v r,
    glue (prex ++ [x]) (prev ++ [v]) r = glue prex prev (ocons2 x v r).
  Proof. intros prex prev x v [[xs vs]|]; cbn; [|reflexivity]. now rewrite <- !app_assoc. Qed.

  Lemma position_update_step : forall lb ub ps x xs v vs,
    position_update ltb add bounce ((lb, ub) :: ps) (x :: xs) (v :: vs) =
    ocons2 (fst (position_coord ltb add bounce lb ub x v)) (snd (position_coord ltb add bounce lb ub x v))
           (position_update ltb add bounce ps xs vs).
  Proof. intros. cbn [position_update]. destruct (position_coord ltb add bounce lb ub x v). reflexivity. Qed.
End Position.

(* one proof script for the three generated bodies: `after` / `k1` are the generated continuation of the
   loop and the lifted continuation inside its body (the second test), `stop` the lemma "a stopped
   loop stays stopped" *)
Ltac mids := repeat first [rewrite nth_error_mid by (assumption || reflexivity) | rewrite py_set_nth_mid by (assumption || reflexivity)].

Ltac position_loop stop unfold_after unfold_k1 :=
  let IH := fresh "IH" in
  intros ps; induction ps as [|[lb ub] ps IH]; intros xs vs prex prev i Hx Hv; subst i;
    [ destruct xs; reflexivity | ];
  destruct xs as [|x xs]; [ cbn; unfold_after; cbn; now rewrite !app_nil_r | ];
  destruct vs as [|v vs];
    [ (* the velocity list is exhausted: IndexError *)
      cbn [length seq combine]; loop_step; mids; rewrite nth_error_end by (assumption || reflexivity);
      rewrite stop by (cbn; discriminate); reflexivity
    | ];
  rewrite position_update_step; unfold position_coord;
  cbn [length seq combine]; loop_step;
  repeat (unfold bnd; cbn [fst snd nth_error]; mids; unfold_k1;
          match goal with |- context [if ?c then _ else _] => destruct c end);
  unfold bnd; cbn [fst snd nth_error]; mids; cbn [fst snd];
  match goal with
  | |- context [fold_left _ _ (_ (?px ++ ?x' :: ?r) (?pv ++ ?v' :: ?s) None)] =>
      replace (px ++ x' :: r) with ((px ++ [x']) ++ r) by (now rewrite <- app_assoc);
      replace (pv ++ v' :: s) with ((pv ++ [v']) ++ s) by (now rewrite <- app_assoc);
      rewrite <- glue_step;
      apply (IH r s (px ++ [x']) (pv ++ [v']) (S (length px))); rewrite app_length; cbn; lia
  end.

Section PositionEquiv.
  Context {T P : Type} (ltb : T -> T -> bool) (add mul : T -> T -> T) (vec vel : P -> list T).

  (* ---- OMOPSO ---- *)
  Section Omopso.
    Variable c : T.                                   (* the literal -1 *)
    Let body := omopso_position_body_l1_body ltb add mul c (@bnd T).
    Local Arguments omopso_position_body_l1_after : simpl never.

    Lemma omopso_stop : forall l st, omopso_position_body_l1_ret st <> None -> fold_left body l st = st.
    Proof.
      apply (fold_left_stop _ (fun st => omopso_position_body_l1_ret st <> None)).
      intros st x Hs. unfold body, omopso_position_body_l1_body. destruct (omopso_position_body_l1_ret st); congruence.
    Qed.

    Lemma omopso_loop : forall ps xs vs prex prev i, i = length prex -> i = length prev ->
      omopso_position_body_l1_run ltb add mul c (@bnd T) (combine ps (seq i (length xs))) (prex ++ xs) (prev ++ vs) =
      glue prex prev (position_update ltb add (fun v => mul v c) ps xs vs).
    Proof.
      unfold omopso_position_body_l1_run.
      position_loop omopso_stop ltac:(unfold omopso_position_body_l1_after) ltac:(try unfold omopso_position_body_k1).
    Qed.

    Theorem omopso_position_body_gen_eq_model : forall (p : P) (params : list (T * T)),
      omopso_position_body_gen ltb add mul c vec vel (@bnd T) p params =
      position_update ltb add (fun v => mul v c) params (vec p) (vel p).
    Proof.
      intros p params. unfold omopso_position_body_gen.
      etransitivity; [exact (omopso_loop params (vec p) (vel p) [] [] 0 eq_refl eq_refl)|].
      destruct (position_update _ _ _ params (vec p) (vel p)) as [[a b]|]; reflexivity.
    Qed.
  End Omopso.

  (* ---- SMPSO ---- *)
  Section Smpso.
    Variable c : T.                                   (* the literal 0.001 *)
    Let body := smpso_position_body_l1_body ltb add mul c (@bnd T).
    Local Arguments smpso_position_body_l1_after : simpl never.

    Lemma smpso_stop : forall l st, smpso_position_body_l1_ret st <> None -> fold_left body l st = st.
    Proof.
      apply (fold_left_stop _ (fun st => smpso_position_body_l1_ret st <> None)).
      intros st x Hs. unfold body, smpso_position_body_l1_body. destruct (smpso_position_body_l1_ret st); congruence.
    Qed.

    Lemma smpso_loop : forall ps xs vs prex prev i, i = length prex -> i = length prev ->
      smpso_position_body_l1_run ltb add mul c (@bnd T) (combine ps (seq i (length xs))) (prex ++ xs) (prev ++ vs) =
      glue prex prev (position_update ltb add (fun v => mul v c) ps xs vs).
    Proof.
      unfold smpso_position_body_l1_run.
      position_loop smpso_stop ltac:(unfold smpso_position_body_l1_after) ltac:(try unfold smpso_position_body_k1).
    Qed.

    Theorem smpso_position_body_gen_eq_model : forall (p : P) (params : list (T * T)),
      smpso_position_body_gen ltb add mul c vec vel (@bnd T) p params =
      position_update ltb add (fun v => mul v c) params (vec p) (vel p).
    Proof.
      intros p params. unfold smpso_position_body_gen.
      etransitivity; [exact (smpso_loop params (vec p) (vel p) [] [] 0 eq_refl eq_refl)|].
      destruct (position_update _ _ _ params (vec p) (vel p)) as [[a b]|]; reflexivity.
    Qed.
  End Smpso.

  (* ---- PSOGA ---- *)
  Section Psoga.
    Variable c : T.                                   (* the literal -1 *)
    Let body := psoga_position_body_l1_body ltb add mul c (@bnd T).
    Local Arguments psoga_position_body_l1_after : simpl never.

    Lemma psoga_stop : forall l st, psoga_position_body_l1_ret st <> None -> fold_left body l st = st.
    Proof.
      apply (fold_left_stop _ (fun st => psoga_position_body_l1_ret st <> None)).
      intros st x Hs. unfold body, psoga_position_body_l1_body. destruct (psoga_position_body_l1_ret st); congruence.
    Qed.

    Lemma psoga_loop : forall ps xs vs prex prev i, i = length prex -> i = length prev ->
      psoga_position_body_l1_run ltb add mul c (@bnd T) (combine ps (seq i (length xs))) (prex ++ xs) (prev ++ vs) =
      glue prex prev (position_update ltb add (fun v => mul v c) ps xs vs).
    Proof.
      unfold psoga_position_body_l1_run.
      position_loop psoga_stop ltac:(unfold psoga_position_body_l1_after) ltac:(try unfold psoga_position_body_k1).
    Qed.

    Theorem psoga_position_body_gen_eq_model : forall (p : P) (params : list (T * T)),
      psoga_position_body_gen ltb add mul c vec vel (@bnd T) p params =
      position_update ltb add (fun v => mul v c) params (vec p) (vel p).
    Proof.
      intros p params. unfold psoga_position_body_gen.
      etransitivity; [exact (psoga_loop params (vec p) (vel p) [] [] 0 eq_refl eq_refl)|].
      destruct (position_update _ _ _ params (vec p) (vel p)) as [[a b]|]; reflexivity.
    Qed.
  End Psoga.
End PositionEquiv.

(* ---------------------------------------------------------------------------------------------- *)
(* update_velocity: the body of `for i in range(0, len(individual.vector))` (one coordinate of one particle) of
   SwarmAlgorithm.update_velocity (OMOPSO, SMPSO) and of PSOGA.update_velocity, in body mode: a function of the
   coordinate index i, the particle, the leader and the four rounded draws (locals of the enclosing loop);
   self.inertia_weight() is one draw, self.khi an arbitrary function, self.speed_constriction the translated
   function above.  The new velocity entry is the model's speed_constriction (raw_velocity ...) with the
   parameter's bounds in the order (upper, lower); the draws record d only collects the locals. *)
Section VelocityBody.
  Context {T P : Type} (ltb : T -> T -> bool) (add sub mul div : T -> T -> T) (neg : T -> T) (two : T).
  Variables (vec vel best : P -> list T) (khi : T -> T -> T).

  Definition draws_of (c1 c2 r1 r2 : T) : draws :=
    {| d_r1 := r1; d_r2 := r2; d_c1 := c1; d_c2 := c2; d_khi := khi c1 c2; d_w := [] |}.

  Theorem velocity_body_gen_eq_model : forall (w : T) i (p g : P) c1 c2 r1 r2 (params : list (T * T)) x b gx lb ub,
    nth_error (vec p) i = Some x -> nth_error (best p) i = Some b -> nth_error (vec g) i = Some gx ->
    nth_error params i = Some (lb, ub) ->
    velocity_body_gen ltb add sub mul div neg two vec vel best (@bnd T) w khi i p g c1 c2 r1 r2 params =
    py_set_nth i (speed_constriction ltb sub div neg two
                    (raw_velocity add sub mul VBase (draws_of c1 c2 r1 r2) w x b gx) ub lb) (vel p).
  Proof.
    intros w i p g c1 c2 r1 r2 params x b gx lb ub Hx Hb Hg Hp.
    unfold velocity_body_gen. rewrite ?Hx, ?Hb, ?Hg, ?Hp. cbn [bnd fst snd nth_error].
    rewrite speed_constriction_gen_eq_model. unfold raw_velocity, draws_of. cbn [d_r1 d_r2 d_c1 d_c2 d_khi].
    destruct (py_set_nth i _ (vel p)); reflexivity.
  Qed.

  Theorem psoga_velocity_body_gen_eq_model : forall i (p g : P) c1 c2 r1 r2 (params : list (T * T)) x b gx lb ub,
    nth_error (vec p) i = Some x -> nth_error (best p) i = Some b -> nth_error (vec g) i = Some gx ->
    nth_error params i = Some (lb, ub) ->
    psoga_velocity_body_gen ltb add sub mul div neg two vec vel best (@bnd T) khi i p g c1 c2 r1 r2 params =
    py_set_nth i (speed_constriction ltb sub div neg two
                    (raw_velocity add sub mul VPsoga (draws_of c1 c2 r1 r2) (khi c1 c2) x b gx) ub lb) (vel p).
  Proof.
    intros i p g c1 c2 r1 r2 params x b gx lb ub Hx Hb Hg Hp.
    unfold psoga_velocity_body_gen. rewrite ?Hx, ?Hb, ?Hg, ?Hp. cbn [bnd fst snd nth_error].
    rewrite ?Hx, ?Hb, ?Hg, ?Hp.
    rewrite speed_constriction_gen_eq_model. unfold raw_velocity, draws_of. cbn [d_r1 d_r2 d_c1 d_c2 d_khi].
    destruct (py_set_nth i _ (vel p)); reflexivity.
  Qed.
End VelocityBody.

(* ---------------------------------------------------------------------------------------------- *)
(* the binary64 instances (they pin the operators and the literals 2, -1, 0.001) against the instances
   the executable driver Run/C18Run.v runs; the driver's order fltb is PrimFloat.ltb on non-NaN values
   (Base/FloatInst.v fltb_is_ltb) *)
From Coq Require Import Floats.
From Artap Require Import Run.C18Run.

Corollary speed_constriction_gen_float : forall v ub lb,
  speed_constriction_gen_f v ub lb = speed_constriction PrimFloat.ltb PrimFloat.sub PrimFloat.div PrimFloat.opp TWO v ub lb.
Proof. intros. reflexivity. Qed.

Corollary position_bodies_gen_float : forall (P : Type) (vec vel : P -> list float) (p : P) (params : list (float * float)),
  omopso_position_body_gen_f vec vel (@bnd float) p params = position_update PrimFloat.ltb PrimFloat.add fflip params (vec p) (vel p) /\
  smpso_position_body_gen_f vec vel (@bnd float) p params = position_update PrimFloat.ltb PrimFloat.add fdamp params (vec p) (vel p) /\
  psoga_position_body_gen_f vec vel (@bnd float) p params = position_update PrimFloat.ltb PrimFloat.add fflip params (vec p) (vel p).
Proof.
  intros. split; [|split].
  - exact (omopso_position_body_gen_eq_model PrimFloat.ltb PrimFloat.add PrimFloat.mul vec vel _ p params).
  - exact (smpso_position_body_gen_eq_model PrimFloat.ltb PrimFloat.add PrimFloat.mul vec vel _ p params).
  - exact (psoga_position_body_gen_eq_model PrimFloat.ltb PrimFloat.add PrimFloat.mul vec vel _ p params).
Qed.

Corollary velocity_bodies_gen_float : forall (P : Type) (vec vel best : P -> list float) (w : float) khi i (p g : P) c1 c2 r1 r2 params,
  velocity_body_gen_f vec vel best (@bnd float) w khi i p g c1 c2 r1 r2 params =
  velocity_body_gen PrimFloat.ltb PrimFloat.add PrimFloat.sub PrimFloat.mul PrimFloat.div PrimFloat.opp TWO vec vel best (@bnd float) w khi i p g c1 c2 r1 r2 params /\
  psoga_velocity_body_gen_f vec vel best (@bnd float) khi i p g c1 c2 r1 r2 params =
  psoga_velocity_body_gen PrimFloat.ltb PrimFloat.add PrimFloat.sub PrimFloat.mul PrimFloat.div PrimFloat.opp TWO vec vel best (@bnd float) khi i p g c1 c2 r1 r2 params.
Proof. intros. split; reflexivity. Qed.

(* Print Assumptions of the theorems above is run by harness/core.py translated_obligations (qualified names, whitelist) *)
