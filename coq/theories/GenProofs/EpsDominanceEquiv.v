(* The definition generated from artap/operators.py (EpsilonDominance.compare) by tools/py2coq.py on
   THIS run equals the hand-written model Model/Dominance.v eps_compare, for all inputs.  Compiled per
   run against the freshly generated ArtapGen.EpsDominanceGen; not part of the normal build. *)
From Coq Require Import List ZArith Bool Arith Lia.
From Artap Require Import Model.Dominance.
From ArtapGen Require Import GenTactics EpsDominanceGen.
Import ListNotations.

(* ------------------------------------------------------------------------------------------ *)
(* EpsilonDominance.compare: numbers abstract, math.pow an arbitrary function (oracle).  The
   model's scaling function and tie-break sums are the ones the source computes:
     gsc eps i x   = x / (e if e != 0 else 1e-3),  e = eps[i % len(eps)]     (first loop)
     gtie          = the two sums of pow(c - (c/e)*e, 2.0) over the zipped objectives (second loop)
   For an empty epsilon list the source raises ZeroDivisionError (generated: None). *)
Section EpsEquiv.
  Context {T : Type} (ltb eqb : T -> T -> bool) (add sub mul div : T -> T -> T)
          (c_0 c_0_001 c_2 : T) (pow : T -> T -> T) (dflt : T).

  Definition geps (eps : list T) (i : nat) : T := nth (Nat.modulo i (length eps)) eps dflt.
  Definition gsc (eps : list T) (i : nat) (x : T) : T :=
    div x (if eqb (geps eps i) c_0 then c_0_001 else geps eps i).
  Fixpoint gtie (eps : list T) (i : nat) (p q : list T) (d1 d2 : T) : T * T :=
    match p, q with
    | a :: p', b :: q' =>
        let e := geps eps i in
        gtie eps (S i) p' q' (add d1 (pow (sub a (mul (div a e) e)) c_2))
                             (add d2 (pow (sub b (mul (div b e) e)) c_2))
    | _, _ => (d1, d2)
    end.

  Notation l1_body := (eps_compare_l1_body ltb eqb div c_0 c_0_001).
  Notation l2_body := (eps_compare_l2_body add sub mul div c_2 pow).
  Notation l1_run := (eps_compare_l1_run ltb eqb add sub mul div c_0 c_0_001 c_2 pow).
  Notation l2_run := (eps_compare_l2_run ltb add sub mul div c_2 pow).

  Lemma eps_l1_stop eps : forall l st, eps_compare_l1_ret st <> None -> fold_left (l1_body eps) l st = st.
  Proof.
    apply (fold_left_stop _ (fun st => eps_compare_l1_ret st <> None)).
    intros st x Hs. unfold eps_compare_l1_body. destruct (eps_compare_l1_ret st); congruence.
  Qed.

  Lemma eps_l2_stop eps : forall l st, eps_compare_l2_ret st <> None -> fold_left (l2_body eps) l st = st.
  Proof.
    apply (fold_left_stop _ (fun st => eps_compare_l2_ret st <> None)).
    intros st x Hs. unfold eps_compare_l2_body. destruct (eps_compare_l2_ret st); congruence.
  Qed.

  Local Arguments eps_compare_l1_after : simpl never.
  Local Arguments eps_compare_l2_after : simpl never.
  Local Arguments Nat.modulo : simpl never.

  Ltac eps_facts Heps :=
    rewrite ?(length_eqb_0 _ Heps); rewrite ?(nth_error_mod_some _ _ dflt Heps); cbn.

  Lemma eps_l2_run_tie eps (Heps : eps <> []) : forall pc qc i d1 d2,
    l2_run eps (combine pc qc) i d1 d2 =
    Some (if ltb (fst (gtie eps i pc qc d1 d2)) (snd (gtie eps i pc qc d1 d2)) then 1 else 2)%nat.
  Proof.
    unfold eps_compare_l2_run.
    induction pc as [|a pc IH]; intros [|b qc] i d1 d2;
      try (cbn; unfold eps_compare_l2_after; solve [finish]).
    cbn [gtie]. loop_step. eps_facts Heps. unfold geps. case_ifs; loop_branch IH (eps_l2_stop eps); finish.
  Qed.

  Lemma eps_l1_run_escan p q eps (Heps : eps <> []) : forall pc qc i dp dq,
    l1_run p q eps (combine pc qc) i dq dp =
    match escan ltb (gsc eps) i dp dq pc qc with
    | Some v => Some v
    | None => l2_run eps (combine (fst p) (fst q)) 0%nat c_0 c_0
    end.
  Proof.
    unfold eps_compare_l1_run.
    induction pc as [|a pc IH]; intros [|b qc] i dp dq;
      try (cbn; unfold eps_compare_l1_after; solve [finish]).
    cbn [escan]. loop_step. eps_facts Heps. unfold gsc, geps.
    case_ifs; loop_branch IH (eps_l1_stop eps); finish.
  Qed.

  Theorem eps_compare_gen_eq_model : forall p q eps, eps <> [] ->
    eps_compare_gen ltb eqb add sub mul div c_0 c_0_001 c_2 pow p q eps =
    Some (eps_compare ltb (gsc eps) (fst (gtie eps 0 (fst p) (fst q) c_0 c_0))
                                   (snd (gtie eps 0 (fst p) (fst q) c_0 c_0)) p q).
  Proof.
    intros [pc pm] [qc qm] eps Heps.
    unfold eps_compare_gen, eps_compare_k1, eps_compare, marker_verdict; cbn [fst snd].
    rewrite !(eps_l1_run_escan _ _ _ Heps). cbn [fst snd]. rewrite !(eps_l2_run_tie _ Heps).
    case_ifs; cbn in *; try congruence;
      destruct (escan ltb (gsc eps) 0 false false pc qc); reflexivity.
  Qed.
End EpsEquiv.

(* the binary64 instance: exactly the scaling function of the executable driver Run/C01Run.v *)
From Coq Require Import Floats.
From Artap Require Import Base.FloatInst Run.C01Run.

Corollary eps_compare_gen_float : forall pow p q eps, eps <> [] ->
  let sums := gtie PrimFloat.add PrimFloat.sub PrimFloat.mul PrimFloat.div 2%float pow 1%float eps 0
                   (fst p) (fst q) 0%float 0%float in
  eps_compare_gen fltb PrimFloat.eqb PrimFloat.add PrimFloat.sub PrimFloat.mul PrimFloat.div
                  0%float 0x1.0624dd2f1a9fcp-10%float 2%float pow p q eps =
  Some (eps_compare fltb (fsc eps) (fst sums) (snd sums) p q).
Proof.
  intros pow p q eps Heps.
  exact (eps_compare_gen_eq_model fltb PrimFloat.eqb PrimFloat.add PrimFloat.sub PrimFloat.mul PrimFloat.div
           0%float 0x1.0624dd2f1a9fcp-10%float 2%float pow 1%float p q eps Heps).
Qed.

Print Assumptions eps_compare_gen_eq_model.
Print Assumptions eps_compare_gen_float.
