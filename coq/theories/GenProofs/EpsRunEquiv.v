(* The definition generated from artap/algorithm_genetic.py (EpsMOEA.run, the WHOLE function) by tools/py2coq_run.py on
   THIS run is tied to the hand-written model Model/Runs.v eps_run, for all inputs (every population size, every
   number of generations, every initial population, candidate stream, objective tape and random.choice answer).
   Compiled per run against the freshly generated ArtapGen.EpsRunGen; not part of the normal build.

   Reading of the generated interface:
     ind := nat                an Individual object is its identity (the model's `rid`)
     ev  := eev                observable events in program order:
                                 EGen / ENew v        self.generator.generate() / IndividualEpsMOEA(v)
                                 EEval ids            self.evaluator.evaluate(batch)
                                 EAdd id              self.archive.add(individual)
                                 EGenerate ids        self.generate(individuals, archive=self.archive)
                                 EAccept pop id       self.selector.pop_acceptance(individuals, individual); the
                                                      callee changes the list `individuals` in place: the oracle's
                                                      answer is its new value
                                 EStore id tag        individual.population_id = tag
                                 ESync id / ESyncAll  data_store.sync_individual(individual) / sync_all()
     the oracles replay a TRACE (one entry per generation: the working population the pass starts from, the
     identities of its offspring, the working population after every acceptance step).  The theorem says that for
     every run the model describes there is such a trace, tied to the model's final state by `es_rec` (which designs
     are recorded, in which order, under which tag), `es_sizes` (the length of the working population after every
     acceptance), `es_pop` (the final working population) and G (its length).
   THE ADAPTER: `ids` = map rid, `erun_log` = the event sequence the trace prescribes.
   Not translated (named in the generated file): the construction of generator / crossover / mutator / selector /
   archive (configuration statements pinned by text), the time stamps and the two log lines. *)
From Coq Require Import List ZArith Bool Arith Lia.
From Artap Require Import Model.Runs.
From ArtapGen Require Import GenTactics EpsRunGen.
Import ListNotations.
Local Open Scope nat_scope.

Record etrans : Type := mk_et { et_par : list nat; et_offs : list nat; et_pops : list (list nat) }.

Section EpsRunEquiv.
  Context {V : Type}.

  Inductive eev : Type :=
  | EGen | ENew (v : V) | EEval (xs : list nat) | EAdd (x : nat) | EGenerate (ps : list nat)
  | EAccept (pop : list nat) (x : nat) | EStore (x tag : nat) | ESync (x : nat) | ESyncAll.

  (* ---------------- the adapter: what a trace says the run does ---------------- *)
  Fixpoint acc_log (tag : nat) (pop : list nat) (xs : list nat) (pops : list (list nat)) : list eev :=
    match xs, pops with
    | x :: xs', p :: ps => [EAccept pop x; EAdd x; EStore x tag; ESync x] ++ acc_log tag p xs' ps
    | _, _ => []
    end.
  (* the working population after the acceptance steps *)
  Fixpoint final (pop : list nat) (xs : list nat) (pops : list (list nat)) : list nat :=
    match xs, pops with
    | _ :: xs', p :: ps => final p xs' ps
    | _, _ => pop
    end.
  Definition final_of (t : etrans) : list nat := final (et_par t) (et_offs t) (et_pops t).

  Definition estep_log (it : nat) (t : etrans) : list eev :=
    [EGenerate (et_par t); EEval (et_offs t)] ++ acc_log (it + 1) (et_par t) (et_offs t) (et_pops t).
  Fixpoint esteps_log (it : nat) (l : list etrans) : list eev :=
    match l with [] => [] | t :: l' => estep_log it t ++ esteps_log (S it) l' end.

  Definition erun_log (init : list V) (tr : list etrans) : list eev :=
    let p0 := seq 0 (length init) in
    [EGen] ++ map ENew init ++ map (fun x => EStore x 0) p0 ++ [EEval p0] ++ map EAdd p0 ++ map ESync p0
    ++ esteps_log 0 tr ++ [ESyncAll].

  Definition stored (log : list eev) : list (nat * nat) :=
    flat_map (fun e => match e with EStore x tag => [(tag, x)] | _ => [] end) log.

  Fixpoint ekept (l : list etrans) : list nat :=
    match l with [] => [] | t :: l' => et_offs t ++ ekept l' end.

  (* every entry starts from the working population the one before ends with; one population per offspring *)
  Fixpoint echain (par : list nat) (l : list etrans) : Prop :=
    match l with
    | [] => True
    | t :: l' => et_par t = par /\ length (et_pops t) = length (et_offs t) /\ echain (final_of t) l'
    end.
  Fixpoint elast (par : list nat) (l : list etrans) : list nat :=
    match l with [] => par | t :: l' => elast (final_of t) l' end.

  (* ---------------- the oracles, from the trace ---------------- *)
  Variable init : list V.
  Variable tr : list etrans.
  Definition ent (i : nat) : etrans := nth i tr (mk_et [] [] []).

  Definition is_gen (e : eev) : bool := match e with EGenerate _ => true | _ => false end.
  Definition is_new (e : eev) : bool := match e with ENew _ => true | _ => false end.
  Definition ngen (log : list eev) : nat := length (filter is_gen log).
  Definition nnew (log : list eev) : nat := length (filter is_new log).
  Definition aupd (a : nat) (e : eev) : nat := match e with EGenerate _ => 0 | EAccept _ _ => S a | _ => a end.
  (* number of acceptance steps since the last call of self.generate *)
  Definition nacc (log : list eev) : nat := fold_left aupd log 0.

  Definition o_gen (log : list eev) : list V := init.
  Definition o_new (log : list eev) (v : V) : nat := pred (nnew log).
  Definition o_generate (log : list eev) (ps : list nat) : list nat := et_offs (ent (pred (ngen log))).
  Definition o_accept (log : list eev) (pop : list nat) (x : nat) : list nat :=
    nth (pred (nacc log)) (et_pops (ent (pred (ngen log)))) [].

  Notation body1 := (@eps_run_l1_body V nat eev ENew o_new).
  Notation B1 := (@Build_eps_run_l1_st nat eev).
  Notation body2 := (@eps_run_l2_body nat eev EStore).
  Notation B2 := (@Build_eps_run_l2_st nat eev).
  Notation body3 := (@eps_run_l3_body nat eev EAdd).
  Notation B3 := (@Build_eps_run_l3_st nat eev).
  Notation body4 := (@eps_run_l4_body nat eev ESync).
  Notation B4 := (@Build_eps_run_l4_st nat eev).
  Notation body6 := (@eps_run_l6_body nat eev EStore EAdd EAccept ESync o_accept).
  Notation B6 := (@Build_eps_run_l6_st nat eev).
  Notation body5 := (@eps_run_l5_body nat eev EStore EEval EAdd EGenerate EAccept ESync o_generate o_accept).
  Notation B5 := (@Build_eps_run_l5_st nat eev).
  Notation gen := (@eps_run_gen V nat eev EStore EGen ENew EEval EAdd EGenerate EAccept ESync ESyncAll
                     o_gen o_new o_generate o_accept).

  (* ---------------- counting events ---------------- *)
  Lemma ngen_app : forall a b, ngen (a ++ b) = ngen a + ngen b.
  Proof. intros; unfold ngen; now rewrite filter_app, app_length. Qed.
  Lemma nnew_app : forall a b, nnew (a ++ b) = nnew a + nnew b.
  Proof. intros; unfold nnew; now rewrite filter_app, app_length. Qed.
  Lemma ngen_map : forall (A : Type) (f : A -> eev) xs, (forall x, is_gen (f x) = false) -> ngen (map f xs) = 0.
  Proof. intros A f xs Hf; induction xs as [|x xs IH]; [reflexivity|]. unfold ngen in *. cbn. now rewrite Hf. Qed.
  Lemma ngen_acc : forall tag xs pop pops, ngen (acc_log tag pop xs pops) = 0.
  Proof. induction xs as [|x xs IH]; intros pop [|p ps]; try reflexivity. cbn [acc_log]. rewrite ngen_app, IH. reflexivity. Qed.
  Lemma nacc_snoc : forall l e, nacc (l ++ [e]) = aupd (nacc l) e.
  Proof. intros; unfold nacc; now rewrite fold_left_app. Qed.

  (* ---------------- the loops of the generated function ---------------- *)
  Lemma loop1 : forall vs acc log,
    fold_left body1 vs (B1 acc log None) = B1 (acc ++ seq (nnew log) (length vs)) (log ++ map ENew vs) None.
  Proof.
    induction vs as [|v vs IH]; intros acc log; cbn [fold_left length seq map].
    - now rewrite !app_nil_r.
    - replace (body1 (B1 acc log None) v) with (B1 (acc ++ [pred (nnew (log ++ [ENew v]))]) (log ++ [ENew v]) None)
        by reflexivity.
      rewrite IH, !nnew_app. cbn [nnew filter is_new length]. rewrite Nat.add_1_r. cbn [pred].
      rewrite <- !app_assoc. reflexivity.
  Qed.

  Lemma loop2 : forall xs P log,
    fold_left body2 xs (B2 P log None) = B2 (P ++ xs) (log ++ map (fun x => EStore x 0) xs) None.
  Proof.
    induction xs as [|x xs IH]; intros P log; cbn [fold_left map].
    - now rewrite !app_nil_r.
    - replace (body2 (B2 P log None) x) with (B2 (P ++ [x]) (log ++ [EStore x 0]) None) by reflexivity.
      rewrite IH, <- !app_assoc. reflexivity.
  Qed.

  Lemma loop3 : forall xs log, fold_left body3 xs (B3 log None) = B3 (log ++ map EAdd xs) None.
  Proof.
    induction xs as [|x xs IH]; intros log; cbn [fold_left map].
    - now rewrite !app_nil_r.
    - replace (body3 (B3 log None) x) with (B3 (log ++ [EAdd x]) None) by reflexivity.
      rewrite IH, <- !app_assoc. reflexivity.
  Qed.

  Lemma loop4 : forall xs log, fold_left body4 xs (B4 log None) = B4 (log ++ map ESync xs) None.
  Proof.
    induction xs as [|x xs IH]; intros log; cbn [fold_left map].
    - now rewrite !app_nil_r.
    - replace (body4 (B4 log None) x) with (B4 (log ++ [ESync x]) None) by reflexivity.
      rewrite IH, <- !app_assoc. reflexivity.
  Qed.

  (* for individual in offsprings: pop_acceptance; archive.add; tag; append; sync *)
  Lemma loop6 : forall k it xs ps done pop P log,
    et_pops (ent k) = done ++ ps -> length ps = length xs ->
    ngen log = S k -> nacc log = length done ->
    fold_left (body6 it) xs (B6 pop P log None)
    = B6 (final pop xs ps) (P ++ xs) (log ++ acc_log (it + 1) pop xs ps) None.
  Proof.
    intros k it; induction xs as [|x xs IH]; intros [|p ps] done pop P log Hp Hl Hg Ha;
      try discriminate; cbn [fold_left final acc_log].
    - now rewrite !app_nil_r.
    - assert (Ho : o_accept (log ++ [EAccept pop x]) pop x = p).
      { unfold o_accept. rewrite nacc_snoc, ngen_app, Hg, Ha. cbn [aupd ngen filter is_gen length pred].
        rewrite Nat.add_0_r. cbn [pred]. rewrite Hp, app_nth2, Nat.sub_diag by lia. reflexivity. }
      replace (body6 it (B6 pop P log None) x)
        with (B6 (o_accept (log ++ [EAccept pop x]) pop x) (P ++ [x])
                 ((((log ++ [EAccept pop x]) ++ [EAdd x]) ++ [EStore x (it + 1)]) ++ [ESync x]) None) by reflexivity.
      rewrite Ho. rewrite (IH ps (done ++ [p])).
      + rewrite <- !app_assoc. reflexivity.
      + rewrite Hp, <- app_assoc. reflexivity.
      + cbn in Hl. lia.
      + rewrite !ngen_app, Hg. cbn. lia.
      + rewrite !nacc_snoc, Ha, app_length. cbn. lia.
  Qed.

  (* one pass of the generation loop *)
  Lemma body5_step : forall it P log,
    ngen log = it -> length (et_pops (ent it)) = length (et_offs (ent it)) ->
    body5 (B5 (et_par (ent it)) P log None) it
    = B5 (final_of (ent it)) (P ++ et_offs (ent it)) (log ++ estep_log it (ent it)) None.
  Proof.
    intros it P log Hg Hlen.
    unfold eps_run_l5_body. cbn [eps_run_l5_ret eps_run_l5_v1 eps_run_l5_v2 eps_run_l5_v3].
    set (par := et_par (ent it)).
    assert (Hgen : o_generate (log ++ [EGenerate par]) par = et_offs (ent it)).
    { unfold o_generate. rewrite ngen_app, Hg. cbn [ngen filter is_gen length]. now rewrite Nat.add_1_r. }
    rewrite Hgen. unfold eps_run_l6_run.
    rewrite (loop6 it it (et_offs (ent it)) (et_pops (ent it)) []).
    - unfold eps_run_l6_after. cbn [eps_run_l6_ret eps_run_l6_v1 eps_run_l6_v2 eps_run_l6_v3].
      unfold estep_log, final_of. fold par. rewrite <- !app_assoc. reflexivity.
    - reflexivity.
    - exact Hlen.
    - rewrite !ngen_app, Hg. cbn. lia.
    - rewrite !nacc_snoc. reflexivity.
  Qed.

  Lemma ngen_estep : forall it t, ngen (estep_log it t) = 1.
  Proof. intros. unfold estep_log. rewrite ngen_app, ngen_acc. reflexivity. Qed.

  Lemma loop5 : forall suf pre par P log,
    tr = pre ++ suf -> echain par suf -> ngen log = length pre ->
    fold_left body5 (seq (length pre) (length suf)) (B5 par P log None)
    = B5 (elast par suf) (P ++ ekept suf) (log ++ esteps_log (length pre) suf) None.
  Proof.
    induction suf as [|t suf IH]; intros pre par P log Htr Hch Hg.
    - cbn. now rewrite !app_nil_r.
    - cbn [length seq fold_left]. destruct Hch as (Hp & Hl & Hch).
      assert (He : ent (length pre) = t).
      { unfold ent. rewrite Htr, app_nth2, Nat.sub_diag by lia. reflexivity. }
      pose proof (body5_step (length pre) P log Hg) as Hb. rewrite He in Hb.
      rewrite Hp in Hb. rewrite (Hb Hl). clear Hb.
      pose proof (IH (pre ++ [t]) (final_of t) (P ++ et_offs t) (log ++ estep_log (length pre) t)) as Hi.
      rewrite app_length in Hi. cbn [length] in Hi. rewrite Nat.add_1_r in Hi.
      rewrite Hi.
      + cbn [elast ekept esteps_log]. rewrite <- !app_assoc. reflexivity.
      + rewrite Htr, <- app_assoc. reflexivity.
      + exact Hch.
      + rewrite ngen_app, ngen_estep, Hg. lia.
  Qed.

  (* the whole generated function, for a well-formed trace of G entries *)
  Lemma gen_run : forall G P,
    echain (seq 0 (length init)) tr -> length tr = G ->
    gen P G = (P ++ seq 0 (length init) ++ ekept tr, erun_log init tr).
  Proof.
    intros G P Hch Hlen.
    unfold eps_run_gen. cbn zeta. unfold eps_run_l1_run, o_gen. rewrite loop1.
    unfold eps_run_l1_after. cbn [eps_run_l1_ret eps_run_l1_v1 eps_run_l1_v2 app nnew filter is_new length].
    unfold eps_run_l2_run. rewrite loop2. unfold eps_run_l2_after.
    cbn [eps_run_l2_ret eps_run_l2_v1 eps_run_l2_v2].
    unfold eps_run_l3_run. rewrite loop3. unfold eps_run_l3_after. cbn [eps_run_l3_ret eps_run_l3_v1].
    unfold eps_run_l4_run. rewrite loop4. unfold eps_run_l4_after. cbn [eps_run_l4_ret eps_run_l4_v1].
    rewrite <- Hlen. unfold eps_run_l5_run.
    match goal with |- context [fold_left _ _ (Build_eps_run_l5_st ?i ?p ?l None)] =>
      pose proof (loop5 tr [] i p l eq_refl Hch) as H5 end.
    cbn [length] in H5. rewrite H5.
    - unfold eps_run_l5_after. cbn [eps_run_l5_ret eps_run_l5_v1 eps_run_l5_v2 eps_run_l5_v3].
      unfold erun_log. cbn zeta. f_equal; rewrite <- ?app_assoc; cbn [app]; rewrite <- ?app_assoc; reflexivity.
    - rewrite !ngen_app. rewrite !ngen_map by reflexivity.
      change (EGen :: map ENew init) with ([EGen] ++ map ENew init).
      rewrite ngen_app, ngen_map by reflexivity. reflexivity.
  Qed.
End EpsRunEquiv.

(* ---------------- facts about the model's run (Model/Runs.v) ---------------- *)
Section EpsModelFacts.
  Context {V C : Type}.
  Variables (veq vexact : V -> V -> bool) (cmp : C -> C -> nat).
  Notation mind := (rind V C).
  Definition ids (l : list mind) : list nat := map rid l.
  Definition idrec (r : nat * mind) : nat * nat := (fst r, rid (snd r)).

  Lemma job_rid : forall c (e : ev_entry V C) (x : mind) lg, job vexact c e = Some (x, lg) -> rid x = fst c.
  Proof.
    intros c e x lg. unfold job. destruct (_ && _); [|discriminate]. intros H; inversion H; reflexivity.
  Qed.

  Lemma eval_ids : forall cs (es : list (ev_entry V C)) (xs : list mind) lg,
    eval_batch vexact cs es = Some (xs, lg) -> map rid xs = map fst cs.
  Proof.
    induction cs as [|c cs IH]; intros [|e es] xs lg; cbn [eval_batch]; try discriminate.
    - intros H; inversion H; reflexivity.
    - destruct (job vexact c e) as [[x l]|] eqn:J; [|discriminate].
      destruct (eval_batch vexact cs es) as [[xs' lgs]|] eqn:E; [|discriminate].
      intros H; inversion H; subst. cbn [map]. f_equal; [exact (job_rid _ _ _ _ J)|exact (IH _ _ _ E)].
  Qed.

  Lemma mk_cands_fst : forall (vs : list V) c, map fst (mk_cands vs c) = seq c (length vs).
  Proof.
    unfold mk_cands. induction vs as [|v vs IH]; intros c; [reflexivity|].
    cbn [length seq combine map fst]. f_equal. apply IH.
  Qed.

  (* the (tag, identity) pairs the generations record *)
  Fixpoint erecs (it : nat) (l : list etrans) : list (nat * nat) :=
    match l with [] => [] | t :: l' => map (fun x => (it + 1, x)) (et_offs t) ++ erecs (S it) l' end.
  Fixpoint esizes (l : list etrans) : list nat :=
    match l with [] => [] | t :: l' => map (@length nat) (et_pops t) ++ esizes l' end.

  Lemma accept_fact : forall offs chs tag pop recs sizes pop' recs' sizes',
    accept_all veq cmp tag pop recs sizes offs chs = Some (pop', recs', sizes') ->
    exists pops : list (list mind), length pops = length offs /\
      final (ids pop) (ids offs) (map ids pops) = ids pop' /\
      recs' = recs ++ map (fun x => (tag, x)) offs /\ sizes' = sizes ++ map (@length mind) pops.
  Proof.
    induction offs as [|x offs IH]; intros [|ch chs] tag pop recs sizes pop' recs' sizes';
      cbn [accept_all]; try discriminate.
    - intros H; inversion H; subst. exists []. cbn. now rewrite !app_nil_r.
    - destruct (pop_acceptance veq cmp pop x ch) as [pop1|]; [|discriminate].
      intros H. apply IH in H. destruct H as (pops & Hl & Hf & Hr & Hs).
      exists (pop1 :: pops). cbn [length map final ids]. repeat split.
      + now rewrite Hl.
      + exact Hf.
      + rewrite Hr, <- app_assoc. reflexivity.
      + rewrite Hs, <- app_assoc. reflexivity.
  Qed.

  Lemma step_fact : forall N it st g st',
    eps_step veq vexact cmp N it st g = Some st' ->
    exists t : etrans, et_par t = ids (es_pop st) /\ length (et_pops t) = length (et_offs t)
      /\ final_of t = ids (es_pop st')
      /\ map idrec (es_rec st') = map idrec (es_rec st) ++ map (fun x => (it + 1, x)) (et_offs t)
      /\ es_sizes st' = es_sizes st ++ map (@length nat) (et_pops t).
  Proof.
    intros N it st g st'. unfold eps_step.
    destruct (generate veq N (eg_stream g) [] (es_ctr st)) as [[cands c1]|]; [|discriminate].
    destruct (eval_batch vexact cands (eg_eval g)) as [[offs lg]|]; [|discriminate].
    destruct (accept_all veq cmp (it + 1) (es_pop st) (es_rec st) (es_sizes st) offs (eg_choice g))
      as [[[pop' recs'] sizes']|] eqn:A; [|discriminate].
    intros H; inversion H; subst; clear H. cbn [es_pop es_rec es_sizes].
    destruct (accept_fact _ _ _ _ _ _ _ _ _ A) as (pops & Hl & Hf & Hr & Hs).
    exists (mk_et (ids (es_pop st)) (ids offs) (map ids pops)). unfold final_of. cbn [et_par et_offs et_pops].
    repeat split.
    - unfold ids. now rewrite !map_length.
    - exact Hf.
    - rewrite Hr, map_app. f_equal. unfold ids. rewrite !map_map. reflexivity.
    - rewrite Hs. f_equal. rewrite map_map. apply map_ext. intros a. unfold ids. now rewrite map_length.
  Qed.

  Lemma loop_fact : forall N k it st gens stf,
    eps_loop veq vexact cmp N it k st gens = Some stf ->
    exists suf, echain (ids (es_pop st)) suf /\ length suf = k /\ elast (ids (es_pop st)) suf = ids (es_pop stf)
      /\ map idrec (es_rec stf) = map idrec (es_rec st) ++ erecs it suf
      /\ es_sizes stf = es_sizes st ++ esizes suf.
  Proof.
    intros N; induction k as [|k IH]; intros it st [|g gens] stf; cbn [eps_loop]; try discriminate.
    - intros H; inversion H; subst. exists []. cbn. now rewrite !app_nil_r.
    - destruct (eps_step veq vexact cmp N it st g) as [st'|] eqn:St; [|discriminate].
      intros H. destruct (step_fact _ _ _ _ _ St) as (t & Hp & Hl & Hf & Hr & Hs).
      destruct (IH _ _ _ _ H) as (suf & Hc & Hk & Hla & Hrec & Hsz).
      exists (t :: suf). cbn [echain length elast erecs esizes]. repeat split.
      + exact Hp.
      + exact Hl.
      + rewrite Hf. exact Hc.
      + now rewrite Hk.
      + rewrite Hf. exact Hla.
      + rewrite Hrec, Hr, <- app_assoc. reflexivity.
      + rewrite Hsz, Hs, <- app_assoc. reflexivity.
  Qed.

  Lemma ekept_erecs : forall l it, ekept l = map snd (erecs it l).
  Proof.
    induction l as [|t l IH]; intros it; [reflexivity|].
    cbn [ekept erecs]. rewrite map_app, map_map. cbn [snd]. rewrite map_id. f_equal. apply IH.
  Qed.

  Lemma stored_app : forall (a b : list (@eev V)), stored (a ++ b) = stored a ++ stored b.
  Proof. intros; unfold stored; apply flat_map_app. Qed.
  Lemma stored_map0 : forall (A : Type) (f : A -> @eev V) xs,
    (forall x, match f x with EStore _ _ => False | _ => True end) -> stored (map f xs) = [].
  Proof.
    intros A f xs Hf; induction xs as [|x xs IH]; [reflexivity|]. cbn [map]. 
    change (stored (f x :: map f xs)) with (stored ([f x] ++ map f xs)). rewrite stored_app, IH, app_nil_r.
    specialize (Hf x). unfold stored. cbn. destruct (f x); try reflexivity. contradiction.
  Qed.
  Lemma stored_stores : forall tag xs, stored (map (fun x => @EStore V x tag) xs) = map (fun x => (tag, x)) xs.
  Proof. induction xs as [|x xs IH]; [reflexivity|]. cbn. f_equal. exact IH. Qed.
  Lemma stored_acc : forall tag xs pops pop, length pops = length xs ->
    stored (@acc_log V tag pop xs pops) = map (fun x => (tag, x)) xs.
  Proof.
    induction xs as [|x xs IH]; intros [|p ps] pop Hl; try discriminate; [reflexivity|].
    cbn [acc_log]. rewrite stored_app, IH by (cbn in Hl; lia). reflexivity.
  Qed.
  Lemma stored_esteps : forall l par it, echain par l -> stored (@esteps_log V it l) = erecs it l.
  Proof.
    induction l as [|t l IH]; intros par it Hc; [reflexivity|]. destruct Hc as (_ & Hl & Hc).
    cbn [esteps_log erecs]. rewrite stored_app, (IH _ _ Hc). f_equal.
    unfold estep_log. rewrite stored_app, stored_acc by exact Hl. reflexivity.
  Qed.
End EpsModelFacts.

(* EpsMOEA.run as generated from the source = the model's run: for every run the model describes there is a trace
   (offspring identities and working population after every acceptance, per generation) such that, with the
   operator calls answered from it,
   - problem.individuals at the end = what it was ++ the identities of the model's record `es_rec`, in order;
   - the event log = `erun_log`: generator, one constructor call per initial vector, (append, tag 0) per design, ONE
     evaluation of exactly the initial designs, archive.add per design, sync per design; then per generation, in
     order: self.generate(working population, archive=self.archive), ONE evaluation of exactly its offspring, and per
     offspring pop_acceptance(working population so far, offspring), archive.add, tag it + 1, append, sync;
     sync_all at the very end;
   - the (tag, identity) pairs stored into `population_id` are the model's `es_rec`;
   - there are G generations; the lengths of the working population after every acceptance are the model's
     `es_sizes`; the last working population is the model's `es_pop`. *)
Theorem eps_run_gen_eq_model : forall (V C : Type) (veq vexact : V -> V -> bool) (cmp : C -> C -> nat)
    (N G : nat) (init : list V) (e0 : list (ev_entry V C)) (gens : list (@egen_in V C)) (st : @estate V C)
    (P : list nat),
  eps_run veq vexact cmp N G init e0 gens = Some st ->
  exists tr : list etrans,
  let g := @eps_run_gen V nat (@eev V) (@EStore V) (@EGen V) (@ENew V) (@EEval V) (@EAdd V) (@EGenerate V)
             (@EAccept V) (@ESync V) (@ESyncAll V) (o_gen init) (@o_new V) (@o_generate V tr) (@o_accept V tr) P G in
  fst g = P ++ map (fun r => rid (snd r)) (es_rec st) /\
  snd g = erun_log init tr /\
  stored (snd g) = map (fun r => (fst r, rid (snd r))) (es_rec st) /\
  length tr = G /\
  echain (seq 0 (length init)) tr /\
  es_sizes st = esizes tr /\
  elast (seq 0 (length init)) tr = map rid (es_pop st).
Proof.
  intros V C veq vexact cmp N G init e0 gens st P Hrun.
  unfold eps_run in Hrun.
  destruct (eps_init vexact init e0) as [st0|] eqn:Hi; [|discriminate].
  unfold eps_init in Hi.
  destruct (eval_batch vexact (mk_cands init 0) e0) as [[inds lg]|] eqn:He; [|discriminate].
  inversion Hi; subst st0; clear Hi.
  destruct (loop_fact veq vexact cmp _ _ _ _ _ _ Hrun) as (tr & Hc & Hk & Hla & Hrec & Hsz).
  cbn [es_pop es_rec es_sizes app] in Hc, Hla, Hrec, Hsz.
  assert (H0 : ids inds = seq 0 (length init)).
  { unfold ids. rewrite (eval_ids _ _ _ _ _ He). apply mk_cands_fst. }
  rewrite H0 in Hc, Hla.
  exists tr. cbn zeta. rewrite (gen_run init tr G P Hc Hk). cbn [fst snd].
  assert (Hrec' : map idrec (es_rec st) = map (fun x => (0, x)) (seq 0 (length init)) ++ erecs 0 tr).
  { rewrite Hrec. f_equal. rewrite map_map. unfold idrec. cbn [fst snd]. rewrite <- H0. unfold ids.
    now rewrite map_map. }
  repeat split; try assumption.
  - replace (map (fun r => rid (snd r)) (es_rec st)) with (map snd (map idrec (es_rec st)))
      by (rewrite map_map; reflexivity).
    rewrite Hrec', map_app, map_map. cbn [snd]. rewrite map_id, <- (ekept_erecs tr 0). reflexivity.
  - change (map (fun r => (fst r, rid (snd r))) (es_rec st)) with (map idrec (es_rec st)). rewrite Hrec'.
    unfold erun_log. cbn zeta. rewrite !stored_app, stored_stores, (stored_esteps tr _ 0 Hc).
    rewrite !stored_map0 by (intros; exact I). cbn [stored flat_map app]. rewrite app_nil_r. reflexivity.
Qed.

(* Print Assumptions of the theorem above is run by harness/core.py translated_obligations (qualified name, whitelist) *)
