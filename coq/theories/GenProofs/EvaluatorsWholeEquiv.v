(* The definitions generated from artap/operators.py (WorstCaseEvaluator.evaluate / run, GradientEvaluator.evaluate /
   run, as WHOLE functions) by tools/py2coq_eff.py on THIS run equal the hand-written models Model/Evaluators.v
   wc_evaluate / wc_run / g_evaluate / g_run, for all inputs.  Compiled per run against the freshly generated
   ArtapGen.EvaluatorsWholeGen; not part of the normal build.

   The generated definitions say WHICH effectful calls happen in WHICH order and what becomes of the two work lists:
     WEval ids   super().evaluate(ids)        (Evaluator.evaluate: the model's eval_serial)
     WAdd id     self.add(individual)         (translated on its own: wc_add_gen / g_add_gen, EvaluatorsEquiv.v)
     WRun        self.run()
     WPost id    one pass of the loop `for individual in self.individuals` of run() (translated on its own in body mode:
                 wc_run_body_gen / g_run_body_gen, EvaluatorsEquiv.v); here one event per element, in order
   and `sem_wc` / `sem_g` give every event the model's meaning: the theorems say that running the generated event
   sequence through them is the model function, and that run() leaves both work lists empty (the F2 site), that
   evaluate() starts with super().evaluate (the F14 site).
   The model excludes exceptions of Job.evaluate (five failures in a row): the outcome oracles answer PyVal here; what
   the generated definitions do with an exception (it ends the function at once) is visible in the generated text. *)
From Coq Require Import List ZArith Bool Arith Lia.
From Artap Require Import Model.Evaluators.
From ArtapGen Require Import GenTactics EvaluatorsWholeGen.
Import ListNotations.
Local Open Scope nat_scope.

Section WholeEquiv.
  Context {T : Type} (add sub mul div : T -> T -> T) (abs : T -> T) (zero one mone delta : T) (psum : list T -> T)
          (m : nat) (tols : list T) (f sgn : list T -> list T) (infeas : list T -> bool) (fails : nat -> option (list T)).

  Notation ES := (eval_serial T f sgn infeas fails).
  Notation WCRUN := (wc_run T sub abs zero psum m f sgn infeas fails).
  Notation WCEVAL := (wc_evaluate T add sub mul abs zero one mone psum m tols f sgn infeas fails).
  Notation WCADD := (wc_add T add mul zero one mone tols).
  Notation WCPOST := (wc_post T sub abs zero psum m).
  Notation GRUN := (g_run T sub div zero delta f sgn infeas fails).
  Notation GEVAL := (g_evaluate T add sub div zero delta f sgn infeas fails).
  Notation GADD := (g_add T add zero delta).
  Notation GPOST := (g_post T sub div zero delta).

  Inductive wev := WEval (ids : list nat) | WAdd (id : nat) | WRun | WPost (id : nat).

  Definition set_hl (s : st T) (hl : heap T * list (list T)) : st T :=
    Build_st T (fst hl) (s_inds T s) (s_todo T s) (snd hl) (s_proc T s).
  Definition set_heap (s : st T) (h : heap T) : st T :=
    Build_st T h (s_inds T s) (s_todo T s) (s_log T s) (s_proc T s).

  Definition sem_wc (s : st T) (ev : wev) : st T :=
    match ev with
    | WEval ids => set_hl s (ES (s_heap T s, s_log T s) ids)
    | WAdd id => WCADD s id
    | WRun => WCRUN s
    | WPost id => set_heap s (WCPOST (s_heap T s) id)
    end.

  Definition sem_g (os : option (st T)) (ev : wev) : option (st T) :=
    match os with
    | None => None
    | Some s => match ev with
                | WEval ids => Some (set_hl s (ES (s_heap T s, s_log T s) ids))
                | WAdd id => Some (GADD s id)
                | WRun => GRUN s
                | WPost id => Some (set_heap s (GPOST (s_heap T s) id))
                end
    end.

  Definition ok1 (log : list wev) (ids : list nat) : py_outcome unit unit := PyVal tt.
  Definition ok0 (log : list wev) : py_outcome unit unit := PyVal tt.

  (* ------------------------------------------------------------------ evaluate *)
  Lemma wc_adds : forall l log,
    fold_left (@wc_evaluate_l1_body nat unit wev WAdd) l (@Build_wc_evaluate_l1_st unit wev log None) =
    @Build_wc_evaluate_l1_st unit wev (log ++ map WAdd l) None.
  Proof.
    induction l as [|x l IH]; intros log; cbn [fold_left map]; [now rewrite app_nil_r|].
    unfold wc_evaluate_l1_body at 2. cbn [wc_evaluate_l1_ret wc_evaluate_l1_v1]. rewrite IH, <- app_assoc. reflexivity.
  Qed.

  Lemma g_adds : forall l log,
    fold_left (@g_evaluate_l1_body nat unit wev WAdd) l (@Build_g_evaluate_l1_st unit wev log None) =
    @Build_g_evaluate_l1_st unit wev (log ++ map WAdd l) None.
  Proof.
    induction l as [|x l IH]; intros log; cbn [fold_left map]; [now rewrite app_nil_r|].
    unfold g_evaluate_l1_body at 2. cbn [g_evaluate_l1_ret g_evaluate_l1_v1]. rewrite IH, <- app_assoc. reflexivity.
  Qed.

  Lemma fold_adds_wc : forall l s, fold_left sem_wc (map WAdd l) s = fold_left WCADD l s.
  Proof. induction l as [|x l IH]; intros s; cbn; [reflexivity|apply IH]. Qed.

  Lemma fold_adds_g : forall l s, fold_left sem_g (map WAdd l) (Some s) = Some (fold_left GADD l s).
  Proof. induction l as [|x l IH]; intros s; cbn; [reflexivity|apply IH]. Qed.

  (* super().evaluate(individuals) first, then add() for every design in order, then run() *)
  Theorem wc_evaluate_gen_eq_model_sect : forall (s : st T) (ids : list nat),
    @wc_evaluate_gen nat unit wev WEval WAdd WRun ok1 ok0 ids = (PyVal tt, WEval ids :: map WAdd ids ++ [WRun]) /\
    fold_left sem_wc (WEval ids :: map WAdd ids ++ [WRun]) s = WCEVAL s ids.
  Proof.
    intros s ids. split.
    - unfold wc_evaluate_gen, ok1. cbn zeta. cbn [app]. unfold wc_evaluate_l1_run. rewrite wc_adds.
      unfold wc_evaluate_l1_after, ok0. cbn. rewrite <- ?app_assoc. reflexivity.
    - cbn [fold_left]. rewrite fold_left_app, fold_adds_wc. cbn [fold_left sem_wc].
      unfold wc_evaluate, set_hl. destruct (ES (s_heap T s, s_log T s) ids) as [h1 log1]. reflexivity.
  Qed.

  Theorem g_evaluate_gen_eq_model_sect : forall (s : st T) (ids : list nat),
    @g_evaluate_gen nat unit wev WEval WAdd WRun ok1 ok0 ids = (PyVal tt, WEval ids :: map WAdd ids ++ [WRun]) /\
    fold_left sem_g (WEval ids :: map WAdd ids ++ [WRun]) (Some s) = GEVAL s ids.
  Proof.
    intros s ids. split.
    - unfold g_evaluate_gen, ok1. cbn zeta. cbn [app]. unfold g_evaluate_l1_run. rewrite g_adds.
      unfold g_evaluate_l1_after, ok0. cbn. rewrite <- ?app_assoc. reflexivity.
    - cbn [fold_left sem_g]. rewrite fold_left_app, fold_adds_g. cbn [fold_left sem_g].
      unfold g_evaluate, set_hl. destruct (ES (s_heap T s, s_log T s) ids) as [h1 log1]. reflexivity.
  Qed.

  (* ------------------------------------------------------------------ run *)
  Lemma fold_posts_wc : forall l s,
    fold_left sem_wc (map WPost l) s = set_heap s (fold_left WCPOST l (s_heap T s)).
  Proof.
    induction l as [|x l IH]; intros s; cbn [map fold_left sem_wc]; [destruct s; reflexivity|].
    rewrite IH. reflexivity.
  Qed.

  Lemma fold_posts_g : forall l s,
    fold_left sem_g (map WPost l) (Some s) = Some (set_heap s (fold_left GPOST l (s_heap T s))).
  Proof.
    induction l as [|x l IH]; intros s; cbn [map fold_left sem_g]; [destruct s; reflexivity|].
    rewrite IH. reflexivity.
  Qed.

  (* what run() leaves behind: the world after its events, both work lists as the generated definition leaves them,
     the ghost list of processed designs *)
  Definition finish (s : st T) (after : st T) (inds todo : list nat) : st T :=
    Build_st T (s_heap T after) inds todo (s_log T after) (s_proc T s ++ [s_inds T s]).

  (* super().evaluate(self.to_evaluate), then one pass of the post-processing loop per design of self.individuals in
     order, then both work lists are empty *)
  Theorem wc_run_gen_eq_model_sect : forall (s : st T),
    @wc_run_gen nat unit wev WPost WEval ok1 (s_inds T s) (s_todo T s) =
      (PyVal tt, [], [], WEval (s_todo T s) :: map WPost (s_inds T s)) /\
    WCRUN s = finish s (fold_left sem_wc (WEval (s_todo T s) :: map WPost (s_inds T s)) s) [] [].
  Proof.
    intros s. split; [reflexivity|].
    cbn [fold_left sem_wc]. rewrite fold_posts_wc. unfold wc_run, finish, set_heap, set_hl.
    destruct (ES (s_heap T s, s_log T s) (s_todo T s)) as [h1 log1]. reflexivity.
  Qed.

  Theorem g_run_gen_eq_model_sect : forall (s : st T),
    let g := @g_run_gen T unit wev nat (fun id => d_vec T (h_get T (s_heap T s) id)) WPost WEval ok1 (s_inds T s) (s_todo T s) in
    match s_inds T s with
    | [] => g = None /\ GRUN s = None            (* self.individuals[0]: IndexError *)
    | _ => g = Some (PyVal tt, [], [], WEval (s_todo T s) :: map WPost (s_inds T s)) /\
           option_map (fun after => finish s after [] [])
             (fold_left sem_g (WEval (s_todo T s) :: map WPost (s_inds T s)) (Some s)) = GRUN s
    end.
  Proof.
    intros s. unfold g_run_gen, g_run. destruct (s_inds T s) as [|i0 inds] eqn:Hi; cbn zeta.
    - split; reflexivity.
    - split; [reflexivity|].
      cbn [fold_left sem_g]. rewrite fold_posts_g. unfold finish, set_heap, set_hl. cbn [option_map].
      destruct (ES (s_heap T s, s_log T s) (s_todo T s)) as [h1 log1]. rewrite Hi. reflexivity.
  Qed.
End WholeEquiv.

Definition wc_evaluate_gen_eq_model := @wc_evaluate_gen_eq_model_sect.
Definition g_evaluate_gen_eq_model := @g_evaluate_gen_eq_model_sect.
Definition wc_run_gen_eq_model := @wc_run_gen_eq_model_sect.
Definition g_run_gen_eq_model := @g_run_gen_eq_model_sect.

(* Print Assumptions of the theorems above is run by harness/core.py translated_obligations (qualified names, whitelist) *)
