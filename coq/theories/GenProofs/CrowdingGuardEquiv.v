(* Guard mode: the test under which crowding_distance adds `distance / max_distance` to an interior
   member, translated from artap/operators.py by tools/py2coq.py on THIS run, is the test of the model
   Model/Selection.v upd: `max_distance > 0.0`, i.e. ltb zero range.  Only the enclosing `if` tests of
   the designated statement are translated in this mode (crowding_distance sorts object lists in place,
   outside the translated subset); how max_distance is computed is covered by the correspondence. *)
From Coq Require Import List ZArith Bool Arith Lia ZifyBool.
From Artap Require Import Model.Selection.
From ArtapGen Require Import GenTactics CrowdingGuardGen.
Import ListNotations.

Section CrowdingGuardEquiv.
  Context {T : Type} (ltb : T -> T -> bool) (add sub div : T -> T -> T) (zero : T).

  Theorem crowding_guard_gen_eq_model : forall range, crowding_guard_gen ltb zero range = ltb zero range.
  Proof. intros range. unfold crowding_guard_gen. finish. Qed.

  (* the model's per-position update, with its test replaced by the generated guard *)
  Theorem crowding_guard_gen_upd : forall {A : Type} (ks : list T) (n i : nat) (x : A) (acc : Ext T),
    upd ltb add sub div zero ks n (i, (x, acc)) =
    if (i =? 0)%nat || (i =? n - 1)%nat then (x, Inf)
    else if crowding_guard_gen ltb zero (sub (nth (n - 1) ks zero) (nth 0 ks zero))
         then (x, ext_add add acc (div (sub (nth (i + 1) ks zero) (nth (i - 1) ks zero))
                                       (sub (nth (n - 1) ks zero) (nth 0 ks zero))))
         else (x, acc).
  Proof. intros. rewrite crowding_guard_gen_eq_model. reflexivity. Qed.
End CrowdingGuardEquiv.

(* the assignments of inf to front[0] before the loops: the first (of three textual occurrences) is
   reached exactly for n = 1, the second exactly for n = 2; with the `n == 0: return` branch these are
   the fronts the model answers with Inf for every member (`length f <=? 2` in Selection.crowding).
   The third occurrence sits in the per-objective loop (no enclosing test). *)
Theorem crowding_inf_guards_eq_model : forall n : nat,
  crowding_inf1_guard_gen n = (n =? 1)%nat /\ crowding_inf2_guard_gen n = (n =? 2)%nat.
Proof. intros n. unfold crowding_inf1_guard_gen, crowding_inf2_guard_gen. split; case_ifs; lia. Qed.

Theorem crowding_inf_guards_small_front : forall n : nat,
  (n =? 0)%nat || crowding_inf1_guard_gen n || crowding_inf2_guard_gen n = (n <=? 2)%nat.
Proof. intros n. destruct (crowding_inf_guards_eq_model n) as [-> ->]. lia. Qed.

(* the binary64 instance: Python's `max_distance > 0.0` with the literal 0.0 *)
From Coq Require Import Floats.
Corollary crowding_guard_gen_float : forall range, crowding_guard_gen_f range = PrimFloat.ltb 0%float range.
Proof. exact (crowding_guard_gen_eq_model PrimFloat.ltb 0%float). Qed.

(* Print Assumptions of the theorems above is run by harness/core.py translated_obligations (qualified names, whitelist) *)
