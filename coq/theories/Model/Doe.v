(* Model of the factorial / screening designs of artap/doe.py as driven by the Generator
   classes of artap/operators.py (FullFactorGenerator, FullFactorLevelsGenerator,
   PlackettBurmanGenerator, BoxBehnkenGenerator, GSDGenerator).

   Designs only *select* levels, so everything is polymorphic in the level type T; the coded
   design matrices are lists of rows over nat (level indices) or Z (the -1/0/+1 coding).
   A numpy 2-d array is a list of rows.  Exceptions are the constructor Err with the kind
   of exception the code raises.  Definitions only; proofs are in Proofs/Doe*.v. *)
From Coq Require Import List ZArith Bool Arith.
Import ListNotations.
Local Open Scope nat_scope.

Inductive err := EAssert | EValue | EType | EIndex.
Inductive res (A : Type) := Ok (a : A) | Err (e : err).
Arguments Ok {A} a.
Arguments Err {A} e.

Definition res_bind {A B} (x : res A) (f : A -> res B) : res B :=
  match x with Ok a => f a | Err e => Err e end.

(* ---------------------------------------------------------------------------------- *)
(* construct_df(x, factor_lists): row[index] -> factor_lists[index][int(row[index])]   *)
Section Select.
  Context {T : Type}.

  Fixpoint select_row (row : list nat) (factor_lists : list (list T)) : res (list T) :=
    match row with
    | [] => Ok []                                   (* range(len(col)): extra factor lists are ignored *)
    | i :: row' =>
        match factor_lists with
        | [] => Err EIndex
        | l :: fl' =>
            match nth_error l i with
            | None => Err EIndex
            | Some v => match select_row row' fl' with
                        | Ok r => Ok (v :: r)
                        | Err e => Err e
                        end
            end
        end
    end.

  Fixpoint construct_df (x : list (list nat)) (factor_lists : list (list T)) : res (list (list T)) :=
    match x with
    | [] => Ok []
    | row :: x' =>
        match select_row row factor_lists with
        | Err e => Err e
        | Ok r => match construct_df x' factor_lists with
                  | Ok d => Ok (r :: d)
                  | Err e => Err e
                  end
        end
    end.
End Select.

(* ---------------------------------------------------------------------------------- *)
(* fullfact(levels): column i is  (concat_j [j]*level_repeat) * range_repeat           *)
Definition prod_list (l : list nat) : nat := fold_right Nat.mul 1 l.

Definition ff_lvl (L level_repeat : nat) : list nat :=
  flat_map (fun j => repeat j level_repeat) (seq 0 L).

(* the loop over the factors, threading level_repeat and range_repeat; yields the columns *)
Fixpoint ff_cols (levels : list nat) (level_repeat range_repeat : nat) : list (list nat) :=
  match levels with
  | [] => []
  | L :: rest =>
      let rr := range_repeat / L in                       (* range_repeat //= levels[i] *)
      let rng := concat (repeat (ff_lvl L level_repeat) rr) in
      rng :: ff_cols rest (level_repeat * L) rr            (* level_repeat *= levels[i]   *)
  end.

(* H[:, i] = rng for every i: the matrix whose columns are cols, as a list of N rows *)
Fixpoint rows_of_cols (N : nat) (cols : list (list nat)) : list (list nat) :=
  match N with
  | 0 => []
  | S N' => map (hd 0) cols :: rows_of_cols N' (map (@tl nat) cols)
  end.

Definition fullfact_rows (levels : list nat) : list (list nat) :=
  let N := prod_list levels in rows_of_cols N (ff_cols levels 1 N).

(* np.prod([]) is the float 1.0 and np.zeros((1.0, 0)) raises TypeError *)
Definition fullfact (levels : list nat) : res (list (list nat)) :=
  match levels with [] => Err EType | _ => Ok (fullfact_rows levels) end.

Definition build_full_fact {T} (factor_lists : list (list T)) : res (list (list T)) :=
  res_bind (fullfact (map (@length T) factor_lists)) (fun x => construct_df x factor_lists).

(* ff2n(n) = 2 * fullfact([2]*n) - 1 *)
Definition ff2n (n : nat) : list (list Z) :=
  map (map (fun x => (2 * Z.of_nat x - 1)%Z)) (fullfact_rows (repeat 2 n)).

(* ---------------------------------------------------------------------------------- *)
(* bbdesign(n, center)                                                                 *)
Fixpoint upd {A} (i : nat) (v : A) (l : list A) : list A :=
  match l with
  | [] => []
  | h :: t => match i with 0 => v :: t | S i' => h :: upd i' v t end
  end.

(* the four rows written for the pair (i, j):  H[4(Index-1):4 Index, i] = H_fact[:,0],
   H[..., j] = H_fact[:,1]  on the zero matrix *)
Definition bb_block (n i j : nat) : list (list Z) :=
  map (fun hf => upd j (nth 1 hf 0%Z) (upd i (nth 0 hf 0%Z) (repeat 0%Z n))) (ff2n 2).

Definition bb_rows (n center : nat) : list (list Z) :=
  flat_map (fun i => flat_map (fun j => bb_block n i j) (seq (i + 1) (n - (i + 1)))) (seq 0 (n - 1))
  ++ repeat (repeat 0%Z n) center.

Definition bbdesign (n center : nat) : res (list (list Z)) :=
  if n <? 3 then Err EAssert else Ok (bb_rows n center).

(* build_box_behnken on prepared three-level lists: x = bbdesign(k, center=1) + 1 *)
Definition build_box_behnken {T} (factor_lists : list (list T)) : res (list (list T)) :=
  res_bind (bbdesign (length factor_lists) 1)
           (fun x => construct_df (map (map (fun z => Z.to_nat (z + 1))) x) factor_lists).

(* ---------------------------------------------------------------------------------- *)
(* pbdesign(n)                                                                          *)
Local Open Scope Z_scope.

Definition mat := list (list Z).

(* scipy.linalg.toeplitz(c, r): T[i][j] = c[i-j] if i >= j else r[j-i] *)
Definition toeplitz (c r : list Z) : mat :=
  map (fun i => map (fun j => if (j <=? i)%nat then nth (i - j) c 0 else nth (j - i) r 0)
                    (seq 0 (length r))) (seq 0 (length c)).

(* scipy.linalg.hankel(c, r): H[i][j] = (c ++ r[1:])[i+j] *)
Definition hankel (c r : list Z) : mat :=
  let vals := c ++ tl r in
  map (fun i => map (fun j => nth (i + j) vals 0) (seq 0 (length r))) (seq 0 (length c)).

Definition ones (rows cols : nat) : mat := repeat (repeat 1 cols) rows.
Definition vstack (A B : mat) : mat := A ++ B.
Fixpoint hstack (A B : mat) : mat :=
  match A, B with
  | a :: A', b :: B' => (a ++ b) :: hstack A' B'
  | _, _ => []
  end.
Definition mneg (A : mat) : mat := map (map Z.opp) A.

Definition pb_seed1 : mat := ones 1 1.
Definition pb_seed12 : mat :=
  vstack (ones 1 12)
         (hstack (ones 11 1)
                 (toeplitz [-1; -1; 1; -1; -1; -1; 1; 1; 1; -1; 1]
                           [-1; 1; -1; 1; 1; 1; -1; -1; -1; 1; -1])).
Definition pb_seed20 : mat :=
  vstack (ones 1 20)
         (hstack (ones 19 1)
                 (hankel [-1; -1; 1; 1; -1; -1; -1; -1; 1; -1; 1; -1; 1; 1; 1; 1; -1; -1; 1]
                         [1; -1; -1; 1; 1; -1; -1; -1; -1; 1; -1; 1; -1; 1; 1; 1; 1; -1; -1])).

(* H = vstack(hstack(H, H), hstack(H, -H)) *)
Definition kron_double (H : mat) : mat := vstack (hstack H H) (hstack H (mneg H)).

Local Open Scope nat_scope.

(* np.frexp(x) = (0.5, e) with e > 0  <=>  x = 2^(e-1) is a power of two >= 1.
   frexp_pow2 N d = Some (e-1) iff the real number N/d is such a power of two. *)
Definition pow2_exp (n : nat) : option nat :=
  if n =? 2 ^ Nat.log2 n then Some (Nat.log2 n) else None.
Definition frexp_pow2 (N d : nat) : option nat :=
  if N mod d =? 0 then pow2_exp (N / d) else None.

Definition pb_select (N : nat) : option (mat * nat) :=
  match frexp_pow2 N 1 with
  | Some e => Some (pb_seed1, e)                       (* k = 0 *)
  | None =>
      match frexp_pow2 N 12 with
      | Some e => Some (pb_seed12, e)                  (* k = 1 *)
      | None =>
          match frexp_pow2 N 20 with
          | Some e => Some (pb_seed20, e)              (* k = 2 *)
          | None => None                               (* k == [] : AssertionError *)
          end
      end
  end.

Definition pbdesign (n : nat) : res mat :=
  if n =? 0 then Err EAssert else
  let keep := n in
  let N := 4 * (n / 4 + 1) in
  match pb_select N with
  | None => Err EAssert
  | Some (H, e) =>
      let H := Nat.iter e kron_double H in
      let H := map (fun row => firstn keep (skipn 1 row)) H in      (* H[:, 1:(keep+1)] *)
      Ok (rev H)                                                     (* np.flipud *)
  end.

(* index_change: -1 -> 0, anything else unchanged *)
Definition pb_index (z : Z) : nat := if (z =? -1)%Z then 0 else Z.to_nat z.

Definition build_plackett_burman {T} (factor_lists : list (list T)) : res (list (list T)) :=
  res_bind (pbdesign (length factor_lists))
           (fun x => construct_df (map (map pb_index) x) factor_lists).

(* ---------------------------------------------------------------------------------- *)
(* build_gsd and helpers                                                                *)

(* _make_partitions: partitions[p-1][factor] = [p + (l-1) r | l in range(1, L), p + (l-1) r <= L] *)
Definition make_partitions (factor_levels : list nat) (num_partitions : nat) : list (list (list nat)) :=
  map (fun partition_i =>
         map (fun num_levels =>
                filter (fun index => index <=? num_levels)
                       (map (fun level_i => partition_i + (level_i - 1) * num_partitions)
                            (seq 1 (num_levels - 1))))
             factor_levels)
      (seq 1 num_partitions).

(* np.roll(numbers, -i) *)
Definition roll_left {A} (i : nat) (l : list A) : list A := skipn i l ++ firstn i l.
Definition make_latin_square (n : nat) : list (list nat) :=
  map (fun i => roll_left i (seq 0 n)) (seq 0 n).

(* one pass of the while loop of _make_orthogonal_arrays *)
Definition oa_step (latin_square : list (list nat)) (A : list (list (list nat))) : list (list (list nat)) :=
  let first_row := hd [] latin_square in
  map (fun i =>
         concat (map (fun co => map (cons (fst co)) (snd co))
                     (combine first_row (map (fun idx => nth idx A []) (nth i latin_square [])))))
      (seq 0 (length A)).

(* the width starts at 1 and grows by one per pass: max(0, n_cols - 1) passes *)
Definition make_orthogonal_arrays (latin_square : list (list nat)) (n_cols : nat) : list (list (list nat)) :=
  Nat.iter (n_cols - 1) (oa_step latin_square) (map (fun v => [[v]]) (hd [] latin_square)).

(* itertools.product over the sets: last factor fastest *)
Fixpoint cart {A} (sets : list (list A)) : list (list A) :=
  match sets with
  | [] => [[]]
  | s :: rest => flat_map (fun x => map (cons x) (cart rest)) s
  end.

Definition is_nil {A} (l : list A) : bool := match l with [] => true | _ => false end.

Definition list_min (l : list nat) : nat :=
  match l with [] => 0 | a :: t => fold_right Nat.min a t end.

Definition map_partitions_to_design (partitions : list (list (list nat))) (oa : list (list nat))
  : res (list (list nat)) :=
  if (length partitions =? list_max (concat oa) + 1) && (list_min (concat oa) =? 0) then
    let mappings :=
      flat_map (fun row =>
                  let sets := map (fun fp => nth (fst fp) (nth (snd fp) partitions []) [])
                                  (combine (seq 0 (length row)) row) in
                  if existsb (@is_nil nat) sets then [] else [cart sets])
               oa in
    match mappings with
    | [] => Err EValue                 (* np.vstack([]) -> ValueError('reduction too large ...') *)
    | _ => Ok (concat mappings)
    end
  else Err EAssert.

Fixpoint res_all {A} (l : list (res A)) : res (list A) :=
  match l with
  | [] => Ok []
  | Ok a :: t => match res_all t with Ok r => Ok (a :: r) | Err e => Err e end
  | Err e :: _ => Err e
  end.

(* all `reduction` designs (every one is built, whatever n is) *)
Definition gsd_designs (levels : list nat) (reduction : nat) : res (list (list (list nat))) :=
  let partitions := make_partitions levels reduction in
  let latin_square := make_latin_square reduction in
  let oas := make_orthogonal_arrays latin_square (length levels) in
  res_all (map (fun oa => match map_partitions_to_design partitions oa with
                          | Ok d => Ok (map (map Nat.pred) d)            (* ... - 1 *)
                          | Err e => Err e
                          end) oas).

(* n = 1 returns designs[0] (observed as a one-element list), otherwise designs[:n] *)
Definition build_gsd (levels : list nat) (reduction n : nat) : res (list (list (list nat))) :=
  if (reduction <=? 1) || (n =? 0) then Err EValue else
  res_bind (gsd_designs levels reduction) (fun designs => Ok (firstn n designs)).

(* GSDGenerator.generate with n = 1: vals[i] = values[i][vector[i]] *)
Definition gsd_generate {T} (values : list (list T)) (reduction : nat) : res (list (list T)) :=
  res_bind (build_gsd (map (@length T) values) reduction 1)
           (fun ds => construct_df (hd [] ds) values).
