(* Model of artap/quality_indicator.py.
   epsilon_add: exact rationals (regime R3) - the code only subtracts and compares.
   gd: real numbers (regime R4), mirroring the code's structure: the cdist matrix
   (one row per reference point), nanmin along axis 0 (column minima, one per
   computed point), np.sum / len(computed).  An exact rational companion
   (minimal squared distances, integer-square-root enclosure) makes the model
   executable for the correspondence; Proofs/IndicatorsProofs.v ties the two. *)
From Coq Require Import List ZArith QArith Reals Bool.
From Artap Require Import Base.QInst.
Import ListNotations.

(* ------------------------------------------------------------------ *)
(* additive epsilon indicator, in Q *)
Local Open Scope Q_scope.

(* Python's max(a, b) / min(a, b): the second argument only if strictly better *)
Definition pymax (a b : Q) : Q := if Qltb a b then b else a.
Definition pymin (a b : Q) : Q := if Qltb b a then b else a.

(* np.subtract(comp_val, ref_val) *)
Definition diffs (c r : list Q) : list Q := map (fun p => fst p - snd p) (combine c r).
(* max(np.subtract(comp_val, ref_val)); the code raises on zero coordinates (driver checks) *)
Definition maxdiff (c r : list Q) : Q :=
  match diffs c r with [] => 0 | x :: xs => fold_left pymax xs x end.

Inductive qx := Fin (q : Q) | PInf.          (* eps_j starts at np.inf *)

(* inner loop: eps_j = min(eps_k, eps_j) over the computed points *)
Definition eps_inner (r : list Q) (comp : list (list Q)) : qx :=
  fold_left (fun acc c => match acc with
                          | PInf => Fin (maxdiff c r)
                          | Fin j => Fin (pymin (maxdiff c r) j)
                          end) comp PInf.

(* outer loop: eps = max(eps, eps_j) over the reference points, eps starts at 0.0 *)
Definition epsilon_add (ref comp : list (list Q)) : qx :=
  fold_left (fun eps r => match eps, eps_inner r comp with
                          | Fin e, Fin j => Fin (pymax e j)
                          | _, _ => PInf
                          end) ref (Fin 0).

(* exact squared euclidean distance and, per computed point, its minimum over the reference *)
Definition sqdistQ (a b : list Q) : Q :=
  fold_right Qplus 0 (map (fun p => (fst p - snd p) * (fst p - snd p)) (combine a b)).
Definition minsq1 (ref : list (list Q)) (c : list Q) : Q :=
  match ref with
  | [] => 0
  | r :: rs => fold_left (fun m r' => pymin m (sqdistQ r' c)) rs (sqdistQ r c)
  end.
Definition minsq (ref comp : list (list Q)) : list Q := map (minsq1 ref) comp.

(* enclosure of sqrt(a/b) = sqrt(a*b)/b by the integer square root at 2^-p resolution *)
Definition sqrt_lo (p : positive) (q : Q) : Q :=
  let a := Qnum q in let b := Qden q in
  (Z.sqrt (a * Zpos b * 4 ^ Zpos p)) # (b * 2 ^ p).
Definition sqrt_hi (p : positive) (q : Q) : Q :=
  let a := Qnum q in let b := Qden q in
  (Z.sqrt (a * Zpos b * 4 ^ Zpos p) + 1) # (b * 2 ^ p).
Definition qsum (l : list Q) : Q := fold_right Qplus 0 l.
(* [lo, hi] containing gd(ref, comp) for rational points *)
Definition gd_enclosure (p : positive) (ref comp : list (list Q)) : Q * Q :=
  let ms := minsq ref comp in
  let n := inject_Z (Z.of_nat (length comp)) in
  (qsum (map (sqrt_lo p) ms) / n, qsum (map (sqrt_hi p) ms) / n).

(* the same enclosure with the partial sums kept in lowest terms (Qred): equal as rationals to gd_enclosure
   (Proofs/IndicatorsProofs.v gd_enclosure_red_eq), evaluated by the correspondence for computed sets of hundreds
   to thousands of points, where the unreduced denominators of qsum grow with every term *)
Definition qsum_red (l : list Q) : Q := fold_right (fun x acc => Qred (x + acc)) 0 l.
Definition gd_enclosure_red (p : positive) (ref comp : list (list Q)) : Q * Q :=
  let ms := minsq ref comp in
  let n := inject_Z (Z.of_nat (length comp)) in
  (qsum_red (map (sqrt_lo p) ms) / n, qsum_red (map (sqrt_hi p) ms) / n).

(* ------------------------------------------------------------------ *)
(* generational distance, in R *)
Local Open Scope R_scope.

Definition rsum (l : list R) : R := fold_right Rplus 0 l.
Definition sqdist (a b : list R) : R :=
  rsum (map (fun p => (fst p - snd p) * (fst p - snd p)) (combine a b)).
Definition dist (a b : list R) : R := sqrt (sqdist a b).

(* scipy.spatial.distance.cdist(reference, computed): rows = reference points *)
Definition cdist (ref comp : list (list R)) : list (list R) :=
  map (fun r => map (fun c => dist r c) comp) ref.

Fixpoint map2 {A B C} (f : A -> B -> C) (l1 : list A) (l2 : list B) : list C :=
  match l1, l2 with
  | a :: l1', b :: l2' => f a b :: map2 f l1' l2'
  | _, _ => []
  end.

(* np.nanmin(m, axis=0) without NaNs: the minimum of every column *)
Definition colmin (m : list (list R)) : list R :=
  match m with
  | [] => []
  | row :: rows => fold_left (map2 Rmin) rows row
  end.

(* np.sum(minimums) / len(computed) *)
Definition gd (ref comp : list (list R)) : R :=
  rsum (colmin (cdist ref comp)) / INR (length comp).
