(* Model of the SQLite data store of artap (datastore.py SqliteDataStore, individual.py
   to_dict / from_dict / _replace_individual_id, problem.py ProblemViewDataStore) and of the
   commit protocol that job.py / the algorithms drive it with (C10, C11).

   Numbers are opaque tokens: the model moves them around and never computes with them.
   NInt z   = a Python int,  NFlt bits = a binary64 value given by its 64-bit pattern
   (so -0.0, +-inf and every finite value are distinct tokens and equality is bit equality).

   The JSON text and the SQLite engine are not modelled: a row holds the JSON tree itself
   (assumption json.loads (json.dumps t) = t) and a table is an association list
   (assumption: INSERT .. ON CONFLICT(id) DO UPDATE / SELECT behave as `upsert` / the list). *)
From Coq Require Import List ZArith Bool String.
Import ListNotations.
Local Open Scope Z_scope.
Local Open Scope string_scope.
Local Open Scope list_scope.

(* ------------------------------------------------------------------------- *)
(* JSON trees                                                                  *)
(* ------------------------------------------------------------------------- *)
Inductive num := NInt (z : Z) | NFlt (bits : Z).

Inductive jv :=
| JNull
| JBool (b : bool)
| JNum (n : num)
| JStr (s : string)
| JArr (l : list jv)
| JObj (kv : list (string * jv)).

Definition num_eqb (a b : num) : bool :=
  match a, b with
  | NInt x, NInt y => Z.eqb x y
  | NFlt x, NFlt y => Z.eqb x y
  | _, _ => false
  end.

Fixpoint jv_eqb (a b : jv) {struct a} : bool :=
  match a, b with
  | JNull, JNull => true
  | JBool x, JBool y => Bool.eqb x y
  | JNum x, JNum y => num_eqb x y
  | JStr x, JStr y => String.eqb x y
  | JArr l1, JArr l2 =>
      (fix go (l1 l2 : list jv) {struct l1} : bool :=
         match l1, l2 with
         | [], [] => true
         | x :: xs, y :: ys => jv_eqb x y && go xs ys
         | _, _ => false
         end) l1 l2
  | JObj l1, JObj l2 =>
      (fix go (l1 l2 : list (string * jv)) {struct l1} : bool :=
         match l1, l2 with
         | [], [] => true
         | (k1, x) :: xs, (k2, y) :: ys => String.eqb k1 k2 && jv_eqb x y && go xs ys
         | _, _ => false
         end) l1 l2
  | _, _ => false
  end.

Fixpoint list_eqb {A} (eqb : A -> A -> bool) (l1 l2 : list A) : bool :=
  match l1, l2 with
  | [], [] => true
  | x :: xs, y :: ys => eqb x y && list_eqb eqb xs ys
  | _, _ => false
  end.

(* dict[key] on a JSON object (first binding; JSON objects written by json.dumps of a
   Python dict have no duplicate keys) *)
Fixpoint jget (k : string) (kv : list (string * jv)) : option jv :=
  match kv with
  | [] => None
  | (k', v) :: kv' => if String.eqb k' k then Some v else jget k kv'
  end.

(* ------------------------------------------------------------------------- *)
(* Individuals (individual.py)                                                 *)
(* ------------------------------------------------------------------------- *)
(* A Python value as found in features / parents / children before to_dict: it may contain
   Individual objects.  PSeq = any Iterable the framework writes there (list, tuple, numpy
   array, a set in its iteration order, the empty dict() some algorithms use as a default).
   Non-empty str / dict values are outside the model: _replace_individual_id recurses
   without end on a one-character string. *)
Inductive pv :=
| PNull
| PBool (b : bool)
| PNum (n : num)
| PInd (id : Z)                 (* an Individual; only its .id is read *)
| PSeq (l : list pv).

(* Individual._replace_individual_id *)
Fixpoint replace_id (v : pv) : jv :=
  match v with
  | PNull => JNull
  | PBool b => JBool b
  | PNum n => JNum n
  | PInd id => JNum (NInt id)
  | PSeq l => JArr (map replace_id l)
  end.

(* Loaded: an individual rebuilt by Individual.from_dict (a store re-opened in write mode on an existing
   file): its `state` attribute is the *string* of the row, not a State member *)
Inductive istate := Empty | InProgress | Evaluated | Failed | Loaded.

(* Individual.to_string: compares with the four State members and falls through (returns None) otherwise *)
Definition state_json (s : istate) : jv :=
  match s with
  | Empty => JStr "empty" | InProgress => JStr "in_progress" | Evaluated => JStr "evaluated" | Failed => JStr "failed"
  | Loaded => JNull
  end.

Record individual := {
  i_id : Z;
  i_vector : list jv;
  i_costs : list jv;
  i_costs_signed : jv;              (* stored as it is (a list of numbers and the feasibility bool) *)
  i_state : istate;
  i_population_id : jv;
  i_algorithm_id : jv;
  i_custom : jv;
  i_features : list (string * pv);
  i_parents : list pv;
  i_children : list pv }.

Definition replace_features (f : list (string * pv)) : list (string * jv) :=
  map (fun kv => (fst kv, replace_id (snd kv))) f.

(* Individual.to_dict: key order as the dict is built (the 'features' slot is created
   before parents/children and overwritten afterwards, which keeps its position) *)
Definition to_dict (x : individual) : jv :=
  JObj [("id", JNum (NInt (i_id x)));
        ("vector", JArr (i_vector x));
        ("costs", JArr (i_costs x));
        ("costs_signed", i_costs_signed x);
        ("state", state_json (i_state x));
        ("population_id", i_population_id x);
        ("algorithm_id", i_algorithm_id x);
        ("custom", i_custom x);
        ("features", JObj (replace_features (i_features x)));
        ("parents", JArr (map replace_id (i_parents x)));
        ("children", JArr (map replace_id (i_children x)))].

(* what Individual.from_dict restores (parents/children stay in the row only) *)
Record view_ind := {
  v_id : jv; v_vector : jv; v_costs : jv; v_state : jv; v_costs_signed : jv;
  v_population_id : jv; v_algorithm_id : jv; v_custom : jv; v_features : jv }.

Definition obj_fields (d : jv) : option (list (string * jv)) :=
  match d with JObj kv => Some kv | _ => None end.

(* Individual.from_dict; None = KeyError / TypeError *)
Definition from_dict (d : jv) : option view_ind :=
  match obj_fields d with
  | None => None
  | Some kv =>
      match jget "id" kv, jget "vector" kv, jget "costs" kv, jget "state" kv, jget "costs_signed" kv with
      | Some a, Some b, Some c, Some s, Some e =>
          match jget "population_id" kv, jget "algorithm_id" kv, jget "custom" kv, jget "features" kv with
          | Some f, Some g, Some h, Some i =>
              Some {| v_id := a; v_vector := b; v_costs := c; v_state := s; v_costs_signed := e;
                      v_population_id := f; v_algorithm_id := g; v_custom := h; v_features := i |}
          | _, _, _, _ => None
          end
      | _, _, _, _, _ => None
      end
  end.

(* the view of an individual the property promises *)
Definition view_of (x : individual) : view_ind :=
  {| v_id := JNum (NInt (i_id x)); v_vector := JArr (i_vector x); v_costs := JArr (i_costs x);
     v_state := state_json (i_state x); v_costs_signed := i_costs_signed x;
     v_population_id := i_population_id x; v_algorithm_id := i_algorithm_id x;
     v_custom := i_custom x; v_features := JObj (replace_features (i_features x)) |}.

(* What read_from_datastore puts into problem.individuals when a store is opened in write mode on an
   existing file: Individual.from_dict of every row.  The values are plain JSON (individuals were
   replaced by ids when the row was written); parents / children are not restored. *)
Fixpoint pv_of_jv (j : jv) : pv :=
  match j with
  | JNull => PNull
  | JBool b => PBool b
  | JNum n => PNum n
  | JArr l => PSeq (map pv_of_jv l)
  | JStr _ => PNull          (* not reachable from rows the model writes: a string / object feature value *)
  | JObj _ => PNull          (* cannot be written in the first place (see pv) *)
  end.

Definition arr_items (j : jv) : list jv := match j with JArr l => l | _ => [] end.

Definition loaded_of_row (id : Z) (row : jv) : individual :=
  match from_dict row with
  | Some v =>
      {| i_id := match v_id v with JNum (NInt z) => z | _ => id end;      (* individual.id = dictionary['id'] *)
         i_vector := arr_items (v_vector v); i_costs := arr_items (v_costs v);
         i_costs_signed := v_costs_signed v; i_state := Loaded; i_population_id := v_population_id v;
         i_algorithm_id := v_algorithm_id v; i_custom := v_custom v;
         i_features := match v_features v with
                       | JObj kv => map (fun p => (fst p, pv_of_jv (snd p))) kv
                       | _ => []
                       end;
         i_parents := []; i_children := [] |}
  | None =>
      {| i_id := id; i_vector := []; i_costs := []; i_costs_signed := JNull; i_state := Loaded;
         i_population_id := JNull; i_algorithm_id := JNull; i_custom := JNull; i_features := [];
         i_parents := []; i_children := [] |}
  end.

(* ------------------------------------------------------------------------- *)
(* The individuals table and its upsert (datastore.py)                         *)
(* ------------------------------------------------------------------------- *)
Definition store := list (Z * jv).

(* INSERT INTO individuals (id, individual) VALUES(?,?) ON CONFLICT(id) DO UPDATE SET individual=excluded.individual *)
Fixpoint upsert (id : Z) (row : jv) (st : store) : store :=
  match st with
  | [] => [(id, row)]
  | (k, r) :: st' => if Z.eqb k id then (k, row) :: st' else (k, r) :: upsert id row st'
  end.

Fixpoint lookup (id : Z) (st : store) : option jv :=
  match st with
  | [] => None
  | (k, r) :: st' => if Z.eqb k id then Some r else lookup id st'
  end.

Definition keys (st : store) : list Z := map fst st.

Definition sync_individual (st : store) (x : individual) : store := upsert (i_id x) (to_dict x) st.
Definition sync_all (st : store) (xs : list individual) : store := fold_left sync_individual xs st.

(* a history of store calls; every call carries the data of the individual(s) at that moment *)
Inductive op := OSync (x : individual) | OSyncAll (xs : list individual).

Definition exec_op (st : store) (o : op) : store :=
  match o with OSync x => sync_individual st x | OSyncAll xs => sync_all st xs end.
Definition exec (ops : list op) (st : store) : store := fold_left exec_op ops st.

(* the individuals a history writes, in write order *)
Definition op_inds (o : op) : list individual := match o with OSync x => [x] | OSyncAll xs => xs end.
Definition flatten (ops : list op) : list individual := flat_map op_inds ops.

(* the last individual with a given id in a list *)
Definition has_id (id : Z) (x : individual) : bool := Z.eqb (i_id x) id.
Definition last_sync (id : Z) (xs : list individual) : option individual := find (has_id id) (rev xs).

(* read_from_datastore of a read-mode view: one Individual.from_dict per row *)
Definition read_view (st : store) : list (Z * option view_ind) :=
  map (fun kr => (fst kr, from_dict (snd kr))) st.

(* ------------------------------------------------------------------------- *)
(* main / parameters / costs tables (_create_structure, read_from_datastore)   *)
(* ------------------------------------------------------------------------- *)
Record tables := {
  t_main : list (string * string);
  t_parameters : list (string * jv);        (* name text PRIMARY KEY, parameter json *)
  t_costs : list (string * jv);
  t_individuals : store }.

(* INSERT into a table with a text primary key: None = sqlite3.IntegrityError *)
Definition insert_pk (k : string) (v : jv) (t : list (string * jv)) : option (list (string * jv)) :=
  if existsb (String.eqb k) (map fst t) then None else Some (t ++ [(k, v)]).

(* parameter["name"]: None = KeyError (or a non-string name, not modelled) *)
Definition name_of (d : jv) : option string :=
  match obj_fields d with
  | Some kv => match jget "name" kv with Some (JStr s) => Some s | _ => None end
  | None => None
  end.

Fixpoint insert_all (ds : list jv) (t : list (string * jv)) : option (list (string * jv)) :=
  match ds with
  | [] => Some t
  | d :: ds' =>
      match name_of d with
      | None => None
      | Some k => match insert_pk k d t with None => None | Some t' => insert_all ds' t' end
      end
  end.

Definition create_structure (name description : string) (params costs : list jv) : option tables :=
  match insert_all params [], insert_all costs [] with
  | Some tp, Some tc =>
      Some {| t_main := [(name, description)]; t_parameters := tp; t_costs := tc; t_individuals := [] |}
  | _, _ => None
  end.

Record problem_meta := {
  p_name : string; p_description : string; p_parameters : list jv; p_costs : list jv }.

(* None = IndexError on rows[0] (no main row) *)
Definition read_meta (t : tables) : option problem_meta :=
  match t_main t with
  | [] => None
  | (n, d) :: _ =>
      Some {| p_name := n; p_description := d;
              p_parameters := map snd (t_parameters t); p_costs := map snd (t_costs t) |}
  end.

Definition with_individuals (t : tables) (st : store) : tables :=
  {| t_main := t_main t; t_parameters := t_parameters t; t_costs := t_costs t; t_individuals := st |}.
