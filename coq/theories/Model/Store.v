(* Model of the SQLite data store of artap (datastore.py SqliteDataStore, individual.py
   to_dict / from_dict / _replace_individual_id, problem.py ProblemViewDataStore) and of the
   commit protocol that job.py / the algorithms drive it with (C10, C11).

   Numbers are opaque tokens: the model moves them around and never computes with them.
   NInt z   = a Python int,  NFlt bits = a binary64 value given by its 64-bit pattern
   (so -0.0, +-inf and every finite value are distinct tokens and equality is bit equality).

   The JSON text and the SQLite engine are not modelled: a row holds the JSON tree itself
   (assumption json.loads (json.dumps t) = t) and a table is an association list
   (assumption: INSERT .. ON CONFLICT(id) DO UPDATE / SELECT behave as `upsert` / the list). *)
From Coq Require Import List ZArith Bool String.
Import ListNotations.
Local Open Scope Z_scope.
Local Open Scope string_scope.
Local Open Scope list_scope.

(* ------------------------------------------------------------------------- *)
(* JSON trees                                                                  *)
(* ------------------------------------------------------------------------- *)
Inductive num := NInt (z : Z) | NFlt (bits : Z).

Inductive jv :=
| JNull
| JBool (b : bool)
| JNum (n : num)
| JStr (s : string)
| JArr (l : list jv)
| JObj (kv : list (string * jv)).

Definition num_eqb (a b : num) : bool :=
  match a, b with
  | NInt x, NInt y => Z.eqb x y
  | NFlt x, NFlt y => Z.eqb x y
  | _, _ => false
  end.

Fixpoint jv_eqb (a b : jv) {struct a} : bool :=
  match a, b with
  | JNull, JNull => true
  | JBool x, JBool y => Bool.eqb x y
  | JNum x, JNum y => num_eqb x y
  | JStr x, JStr y => String.eqb x y
  | JArr l1, JArr l2 =>
      (fix go (l1 l2 : list jv) {struct l1} : bool :=
         match l1, l2 with
         | [], [] => true
         | x :: xs, y :: ys => jv_eqb x y && go xs ys
         | _, _ => false
         end) l1 l2
  | JObj l1, JObj l2 =>
      (fix go (l1 l2 : list (string * jv)) {struct l1} : bool :=
         match l1, l2 with
         | [], [] => true
         | (k1, x) :: xs, (k2, y) :: ys => String.eqb k1 k2 && jv_eqb x y && go xs ys
         | _, _ => false
         end) l1 l2
  | _, _ => false
  end.

Fixpoint list_eqb {A} (eqb : A -> A -> bool) (l1 l2 : list A) : bool :=
  match l1, l2 with
  | [], [] => true
  | x :: xs, y :: ys => eqb x y && list_eqb eqb xs ys
  | _, _ => false
  end.

(* dict[key] on a JSON object (first binding; JSON objects written by json.dumps of a
   Python dict have no duplicate keys) *)
Fixpoint jget (k : string) (kv : list (string * jv)) : option jv :=
  match kv with
  | [] => None
  | (k', v) :: kv' => if String.eqb k' k then Some v else jget k kv'
  end.

(* ------------------------------------------------------------------------- *)
(* Individuals (individual.py)                                                 *)
(* ------------------------------------------------------------------------- *)
(* A Python value as found in features / parents / children before to_dict: it may contain
   Individual objects.  PSeq = any Iterable the framework writes there (list, tuple, numpy
   array, a set in its iteration order, the empty dict() some algorithms use as a default).
   Non-empty str / dict values are outside the model: _replace_individual_id recurses
   without end on a one-character string. *)
Inductive pv :=
| PNull
| PBool (b : bool)
| PNum (n : num)
| PInd (id : Z)                 (* an Individual; only its .id is read *)
| PSeq (l : list pv).

(* Individual._replace_individual_id *)
Fixpoint replace_id (v : pv) : jv :=
  match v with
  | PNull => JNull
  | PBool b => JBool b
  | PNum n => JNum n
  | PInd id => JNum (NInt id)
  | PSeq l => JArr (map replace_id l)
  end.

Inductive istate := Empty | InProgress | Evaluated | Failed.

(* Individual.to_string *)
Definition state_string (s : istate) : string :=
  match s with
  | Empty => "empty" | InProgress => "in_progress" | Evaluated => "evaluated" | Failed => "failed"
  end.

Record individual := {
  i_id : Z;
  i_vector : list jv;
  i_costs : list jv;
  i_costs_signed : jv;              (* stored as it is (a list of numbers and the feasibility bool) *)
  i_state : istate;
  i_population_id : jv;
  i_algorithm_id : jv;
  i_custom : jv;
  i_features : list (string * pv);
  i_parents : list pv;
  i_children : list pv }.

Definition replace_features (f : list (string * pv)) : list (string * jv) :=
  map (fun kv => (fst kv, replace_id (snd kv))) f.

(* Individual.to_dict: key order as the dict is built (the 'features' slot is created
   before parents/children and overwritten afterwards, which keeps its position) *)
Definition to_dict (x : individual) : jv :=
  JObj [("id", JNum (NInt (i_id x)));
        ("vector", JArr (i_vector x));
        ("costs", JArr (i_costs x));
        ("costs_signed", i_costs_signed x);
        ("state", JStr (state_string (i_state x)));
        ("population_id", i_population_id x);
        ("algorithm_id", i_algorithm_id x);
        ("custom", i_custom x);
        ("features", JObj (replace_features (i_features x)));
        ("parents", JArr (map replace_id (i_parents x)));
        ("children", JArr (map replace_id (i_children x)))].

(* what Individual.from_dict restores (parents/children stay in the row only) *)
Record view_ind := {
  v_id : jv; v_vector : jv; v_costs : jv; v_state : jv; v_costs_signed : jv;
  v_population_id : jv; v_algorithm_id : jv; v_custom : jv; v_features : jv }.

Definition obj_fields (d : jv) : option (list (string * jv)) :=
  match d with JObj kv => Some kv | _ => None end.

(* Individual.from_dict; None = KeyError / TypeError *)
Definition from_dict (d : jv) : option view_ind :=
  match obj_fields d with
  | None => None
  | Some kv =>
      match jget "id" kv, jget "vector" kv, jget "costs" kv, jget "state" kv, jget "costs_signed" kv with
      | Some a, Some b, Some c, Some s, Some e =>
          match jget "population_id" kv, jget "algorithm_id" kv, jget "custom" kv, jget "features" kv with
          | Some f, Some g, Some h, Some i =>
              Some {| v_id := a; v_vector := b; v_costs := c; v_state := s; v_costs_signed := e;
                      v_population_id := f; v_algorithm_id := g; v_custom := h; v_features := i |}
          | _, _, _, _ => None
          end
      | _, _, _, _, _ => None
      end
  end.

(* the view of an individual the property promises *)
Definition view_of (x : individual) : view_ind :=
  {| v_id := JNum (NInt (i_id x)); v_vector := JArr (i_vector x); v_costs := JArr (i_costs x);
     v_state := JStr (state_string (i_state x)); v_costs_signed := i_costs_signed x;
     v_population_id := i_population_id x; v_algorithm_id := i_algorithm_id x;
     v_custom := i_custom x; v_features := JObj (replace_features (i_features x)) |}.

(* ------------------------------------------------------------------------- *)
(* The individuals table and its upsert (datastore.py)                         *)
(* ------------------------------------------------------------------------- *)
Definition store := list (Z * jv).

(* INSERT INTO individuals (id, individual) VALUES(?,?) ON CONFLICT(id) DO UPDATE SET individual=excluded.individual *)
Fixpoint upsert (id : Z) (row : jv) (st : store) : store :=
  match st with
  | [] => [(id, row)]
  | (k, r) :: st' => if Z.eqb k id then (k, row) :: st' else (k, r) :: upsert id row st'
  end.

Fixpoint lookup (id : Z) (st : store) : option jv :=
  match st with
  | [] => None
  | (k, r) :: st' => if Z.eqb k id then Some r else lookup id st'
  end.

Definition keys (st : store) : list Z := map fst st.

Definition sync_individual (st : store) (x : individual) : store := upsert (i_id x) (to_dict x) st.
Definition sync_all (st : store) (xs : list individual) : store := fold_left sync_individual xs st.

(* a history of store calls; every call carries the data of the individual(s) at that moment *)
Inductive op := OSync (x : individual) | OSyncAll (xs : list individual).

Definition exec_op (st : store) (o : op) : store :=
  match o with OSync x => sync_individual st x | OSyncAll xs => sync_all st xs end.
Definition exec (ops : list op) (st : store) : store := fold_left exec_op ops st.

(* the individuals a history writes, in write order *)
Definition op_inds (o : op) : list individual := match o with OSync x => [x] | OSyncAll xs => xs end.
Definition flatten (ops : list op) : list individual := flat_map op_inds ops.

(* the last individual with a given id in a list *)
Definition has_id (id : Z) (x : individual) : bool := Z.eqb (i_id x) id.
Definition last_sync (id : Z) (xs : list individual) : option individual := find (has_id id) (rev xs).

(* read_from_datastore of a read-mode view: one Individual.from_dict per row *)
Definition read_view (st : store) : list (Z * option view_ind) :=
  map (fun kr => (fst kr, from_dict (snd kr))) st.

(* ------------------------------------------------------------------------- *)
(* main / parameters / costs tables (_create_structure, read_from_datastore)   *)
(* ------------------------------------------------------------------------- *)
Record tables := {
  t_main : list (string * string);
  t_parameters : list (string * jv);        (* name text PRIMARY KEY, parameter json *)
  t_costs : list (string * jv);
  t_individuals : store }.

(* INSERT into a table with a text primary key: None = sqlite3.IntegrityError *)
Definition insert_pk (k : string) (v : jv) (t : list (string * jv)) : option (list (string * jv)) :=
  if existsb (String.eqb k) (map fst t) then None else Some (t ++ [(k, v)]).

(* parameter["name"]: None = KeyError (or a non-string name, not modelled) *)
Definition name_of (d : jv) : option string :=
  match obj_fields d with
  | Some kv => match jget "name" kv with Some (JStr s) => Some s | _ => None end
  | None => None
  end.

Fixpoint insert_all (ds : list jv) (t : list (string * jv)) : option (list (string * jv)) :=
  match ds with
  | [] => Some t
  | d :: ds' =>
      match name_of d with
      | None => None
      | Some k => match insert_pk k d t with None => None | Some t' => insert_all ds' t' end
      end
  end.

Definition create_structure (name description : string) (params costs : list jv) : option tables :=
  match insert_all params [], insert_all costs [] with
  | Some tp, Some tc =>
      Some {| t_main := [(name, description)]; t_parameters := tp; t_costs := tc; t_individuals := [] |}
  | _, _ => None
  end.

Record problem_meta := {
  p_name : string; p_description : string; p_parameters : list jv; p_costs : list jv }.

(* None = IndexError on rows[0] (no main row) *)
Definition read_meta (t : tables) : option problem_meta :=
  match t_main t with
  | [] => None
  | (n, d) :: _ =>
      Some {| p_name := n; p_description := d;
              p_parameters := map snd (t_parameters t); p_costs := map snd (t_costs t) |}
  end.

Definition with_individuals (t : tables) (st : store) : tables :=
  {| t_main := t_main t; t_parameters := t_parameters t; t_costs := t_costs t; t_individuals := st |}.

(* ------------------------------------------------------------------------- *)
(* Commit protocol and crash points (C11)                                      *)
(* ------------------------------------------------------------------------- *)
(* The objective and the signed-cost computation are inputs of the model. *)
Section Crash.
  Variable objective : list jv -> list jv.        (* problem.evaluate on a vector *)
  Variable signed : list jv -> list jv -> jv.     (* calc_signed_costs: vector (feasibility), costs *)

  (* One step = one effect of Job.evaluate / sync_individual / sync_all that a process
     death can separate from the next one.  c names a connection (one per sync call in
     thread-safe mode), i an individual id. *)
  Inductive step :=
  | SStart (i : Z)                   (* state := IN_PROGRESS; the objective is entered *)
  | SCosts (i : Z)                   (* individual.costs := objective(vector) *)
  | SSigned (i : Z)                  (* calc_signed_costs *)
  | SDone (i : Z)                    (* state := EVALUATED *)
  | SFail (i : Z) (v : list jv)      (* objective raised: new random vector, state := EMPTY *)
  | SExec (c i : Z)                  (* execute(upsert, [id, json.dumps(to_dict())]) on connection c *)
  | SCommit (c : Z)                  (* conn.commit() *)
  | SReturn (i : Z).                 (* the synchronisation of i has returned *)

  Record cstate := {
    c_mem : Z -> individual;               (* the Python objects *)
    c_pend : Z -> list (Z * jv);           (* statements executed but not committed, per connection *)
    c_db : store;                          (* the committed table: what a crash leaves behind *)
    c_ret : list Z;                        (* ids whose synchronisation has returned *)
    c_ph : Z -> nat }.                     (* ghost: progress of Job.evaluate on i (0 empty .. 4 evaluated) *)

  Definition upd {A} (f : Z -> A) (k : Z) (v : A) : Z -> A := fun k' => if Z.eqb k' k then v else f k'.

  Definition set_state (x : individual) (s : istate) : individual :=
    {| i_id := i_id x; i_vector := i_vector x; i_costs := i_costs x; i_costs_signed := i_costs_signed x;
       i_state := s; i_population_id := i_population_id x; i_algorithm_id := i_algorithm_id x;
       i_custom := i_custom x; i_features := i_features x; i_parents := i_parents x; i_children := i_children x |}.
  Definition set_costs (x : individual) (c : list jv) : individual :=
    {| i_id := i_id x; i_vector := i_vector x; i_costs := c; i_costs_signed := i_costs_signed x;
       i_state := i_state x; i_population_id := i_population_id x; i_algorithm_id := i_algorithm_id x;
       i_custom := i_custom x; i_features := i_features x; i_parents := i_parents x; i_children := i_children x |}.
  Definition set_signed (x : individual) (c : jv) : individual :=
    {| i_id := i_id x; i_vector := i_vector x; i_costs := i_costs x; i_costs_signed := c;
       i_state := i_state x; i_population_id := i_population_id x; i_algorithm_id := i_algorithm_id x;
       i_custom := i_custom x; i_features := i_features x; i_parents := i_parents x; i_children := i_children x |}.
  Definition set_vector (x : individual) (v : list jv) : individual :=
    {| i_id := i_id x; i_vector := v; i_costs := i_costs x; i_costs_signed := i_costs_signed x;
       i_state := i_state x; i_population_id := i_population_id x; i_algorithm_id := i_algorithm_id x;
       i_custom := i_custom x; i_features := i_features x; i_parents := i_parents x; i_children := i_children x |}.

  Definition apply_pending (p : list (Z * jv)) (db : store) : store :=
    fold_left (fun d kr => upsert (fst kr) (snd kr) d) p db.

  Definition do_step (st : cstate) (x : step) : cstate :=
    match x with
    | SStart i =>
        {| c_mem := upd (c_mem st) i (set_state (c_mem st i) InProgress); c_pend := c_pend st;
           c_db := c_db st; c_ret := c_ret st; c_ph := upd (c_ph st) i 1%nat |}
    | SCosts i =>
        {| c_mem := upd (c_mem st) i (set_costs (c_mem st i) (objective (i_vector (c_mem st i))));
           c_pend := c_pend st; c_db := c_db st; c_ret := c_ret st; c_ph := upd (c_ph st) i 2%nat |}
    | SSigned i =>
        {| c_mem := upd (c_mem st) i
                        (set_signed (c_mem st i) (signed (i_vector (c_mem st i)) (i_costs (c_mem st i))));
           c_pend := c_pend st; c_db := c_db st; c_ret := c_ret st; c_ph := upd (c_ph st) i 3%nat |}
    | SDone i =>
        {| c_mem := upd (c_mem st) i (set_state (c_mem st i) Evaluated); c_pend := c_pend st;
           c_db := c_db st; c_ret := c_ret st; c_ph := upd (c_ph st) i 4%nat |}
    | SFail i v =>
        {| c_mem := upd (c_mem st) i (set_state (set_vector (c_mem st i) v) Empty); c_pend := c_pend st;
           c_db := c_db st; c_ret := c_ret st; c_ph := upd (c_ph st) i 0%nat |}
    | SExec c i =>
        {| c_mem := c_mem st; c_pend := upd (c_pend st) c (c_pend st c ++ [(i, to_dict (c_mem st i))]);
           c_db := c_db st; c_ret := c_ret st; c_ph := c_ph st |}
    | SCommit c =>
        {| c_mem := c_mem st; c_pend := upd (c_pend st) c [];
           c_db := apply_pending (c_pend st c) (c_db st); c_ret := c_ret st; c_ph := c_ph st |}
    | SReturn i =>
        {| c_mem := c_mem st; c_pend := c_pend st; c_db := c_db st; c_ret := i :: c_ret st; c_ph := c_ph st |}
    end.

  Definition run_steps (tr : list step) (st : cstate) : cstate := fold_left do_step tr st.

  (* what a fresh process finds after the writer died: the committed table; statements
     executed on connections that never committed are rolled back (assumption on SQLite) *)
  Definition recovered (st : cstate) : store := c_db st.
  (* rows whose commit may be in flight at an arbitrary instant *)
  Definition in_flight (st : cstate) (conns : list Z) : list (Z * jv) := flat_map (c_pend st) conns.

  (* the order Job.evaluate / the store impose on the steps (checked on observed traces,
     proved for every interleaving of the per-design step lists) *)
  Definition step_ok (st : cstate) (x : step) : bool :=
    match x with
    | SStart i => Nat.eqb (c_ph st i) 0
    | SCosts i => Nat.eqb (c_ph st i) 1
    | SSigned i => Nat.eqb (c_ph st i) 2
    | SDone i => Nat.eqb (c_ph st i) 3
    | SFail i _ => Nat.eqb (c_ph st i) 1
    | SExec _ i => Nat.eqb (c_ph st i) 4
    | SCommit _ => true
    | SReturn i => existsb (Z.eqb i) (keys (c_db st))
    end.

  Fixpoint legal (st : cstate) (tr : list step) : bool :=
    match tr with
    | [] => true
    | x :: tr' => step_ok st x && legal (do_step st x) tr'
    end.

  (* Job.evaluate on design i followed by sync_individual on its own connection (named i) *)
  Definition job (i : Z) : list step :=
    [SStart i; SCosts i; SSigned i; SDone i; SExec i i; SCommit i; SReturn i].
  (* sync_all on connection c over the recorded individuals *)
  Definition sync_all_steps (c : Z) (ids : list Z) : list step :=
    map (SExec c) ids ++ [SCommit c] ++ map SReturn ids.

  (* a fresh individual as Individual(vector) builds it (the fields the steps do not touch
     are irrelevant here) *)
  Definition fresh (i : Z) (v : list jv) : individual :=
    {| i_id := i; i_vector := v; i_costs := []; i_costs_signed := JArr []; i_state := Empty;
       i_population_id := JNum (NInt (-1)); i_algorithm_id := JNum (NInt 0); i_custom := JObj [];
       i_features := []; i_parents := []; i_children := [] |}.

  Fixpoint vector_of (designs : list (Z * list jv)) (i : Z) : list jv :=
    match designs with
    | [] => []
    | (k, v) :: ds => if Z.eqb k i then v else vector_of ds i
    end.

  Definition init_state (designs : list (Z * list jv)) (db0 : store) : cstate :=
    {| c_mem := fun i => fresh i (vector_of designs i); c_pend := fun _ => []; c_db := db0;
       c_ret := []; c_ph := fun _ => 0%nat |}.
End Crash.

(* all interleavings of a family of step lists *)
Inductive merge {A : Type} : list (list A) -> list A -> Prop :=
| merge_done : forall ts, (forall t, In t ts -> t = []) -> merge ts []
| merge_pick : forall ts1 x t ts2 tr,
    merge (ts1 ++ t :: ts2) tr -> merge (ts1 ++ (x :: t) :: ts2) (x :: tr).

Definition prefix {A : Type} (p l : list A) : Prop := exists s, l = p ++ s.
