(* Model of artap/operators.py ParetoDominance.compare and EpsilonDominance.compare.
   A signed-cost vector is (objective list, feasibility marker); the marker is the
   last element of costs_signed (False/0 = satisfies all constraints).
   Verdicts: 0 = neither, 1 = first dominates, 2 = second dominates. *)
From Coq Require Import List ZArith Bool.
Import ListNotations.
Local Open Scope Z_scope.

Section Dom.
  Context {T : Type} (ltb : T -> T -> bool).

  (* the constraint-violation prelude shared by both comparators; None = fall through *)
  Definition marker_verdict (pm qm : Z) : option nat :=
    if pm =? qm then None
    else if pm =? 0 then Some 1%nat
    else if qm =? 0 then Some 2%nat
    else if Z.abs pm <? Z.abs qm then Some 1%nat
    else if Z.abs qm <? Z.abs pm then Some 2%nat
    else None.

  (* the two-flag scan with early exit (zip truncates to the shorter list) *)
  Fixpoint scan (dp dq : bool) (p q : list T) : nat :=
    match p, q with
    | a :: p', b :: q' =>
        if ltb b a then (if dp then 0%nat else scan dp true p' q')
        else if ltb a b then (if dq then 0%nat else scan true dq p' q')
        else scan dp dq p' q'
    | _, _ => if Bool.eqb dq dp then 0%nat else if dp then 1%nat else 2%nat
    end.

  Definition pareto_compare (p q : list T * Z) : nat :=
    match marker_verdict (snd p) (snd q) with
    | Some v => v
    | None => scan false false (fst p) (fst q)
    end.

  (* epsilon comparator: sc i = scaling of coordinate i (x / eps_(i mod k));
     d1 d2 = the two tie-break sums (computed by the driver from the pow tape) *)
  Variable sc : nat -> T -> T.

  Fixpoint escan (i : nat) (dp dq : bool) (p q : list T) : option nat :=
    match p, q with
    | a :: p', b :: q' =>
        let a' := sc i a in let b' := sc i b in
        if ltb b' a' then (if dp then Some 0%nat else escan (S i) dp true p' q')
        else if ltb a' b' then (if dq then Some 0%nat else escan (S i) true dq p' q')
        else escan (S i) dp dq p' q'
    | _, _ => if negb dp && negb dq then None else if dp then Some 1%nat else Some 2%nat
    end.

  Definition eps_compare (d1 d2 : T) (p q : list T * Z) : nat :=
    match marker_verdict (snd p) (snd q) with
    | Some v => v
    | None =>
        match escan 0 false false (fst p) (fst q) with
        | Some v => v
        | None => if ltb d1 d2 then 1%nat else 2%nat
        end
    end.
End Dom.
