(* Run-level model for property C08: which vectors one generation of NSGA-II, eps-MOEA, OMOPSO, SMPSO and PSOGA
   submits to the objective, as a function of the current population and of an oracle script.
     job.py               Job.evaluate (re-roll after a failed evaluation)                      job / evaluate_all
     algorithm_genetic.py GeneticAlgorithm.generate (select, SBX, polynomial mutation, duplicate filter), EpsMOEA.run
     algorithm_NSGAII.py  NSGAII.run
     algorithm_swarm.py   OMOPSO.run / SMPSO.run / PSOGA.run (update_position, turbulence, GA operators)
   Only the design vectors are modelled.  Everything that depends on cost values or on the random module -
   tournament selection, archive choice, truncation, population acceptance, velocities, the uniform draws and
   pre-clip values inside the operators, which evaluations fail and what gen_vector re-rolls - is an oracle
   input (the `script`), recorded from the real run by the harness.  Executable definitions only. *)
From Coq Require Import List Bool Arith.
From Artap Require Import Model.Variation.
Import ListNotations.

Section RunModel.
  Context {T : Type} (ltb : T -> T -> bool).
  Variable far : T -> T -> bool.          (* abs(b - a) > EPSILON *)
  Variable half : T.                      (* 0.5 *)
  Variable add : T -> T -> T.
  Variable flip : T -> T.                 (* velocity * -1     (OMOPSO, PSOGA) *)
  Variable damp : T -> T.                 (* velocity * 0.001  (SMPSO) *)
  Variable close : T -> T -> bool.        (* abs(a - b) < 1e-10, the coordinate test of Individual.__eq__ *)
  Variable params : list (T * T).

  Local Notation vec := (list T).
  Local Notation tape := (list (entry (T:=T))).

  (* Job.evaluate: the objective sees the vector; after a failure (TimeoutError / RuntimeError) the vector is
     replaced by a fresh gen_vector and tried again, at most 5 evaluations in all (then the run aborts).  The
     individual keeps the last vector.  rerolls = the re-rolled vectors that were evaluated. *)
  Fixpoint evaluate_all (vs : list vec) (rr : list (list vec)) : option (list vec * list vec) :=
    match vs, rr with
    | [], [] => Some ([], [])
    | v :: vs', r :: rr' =>
        if 4 <? length r then None
        else match evaluate_all vs' rr' with
             | Some (sub, fin) => Some ((v :: r) ++ sub, last r v :: fin)
             | None => None
             end
    | _, _ => None
    end.

  Fixpoint select_all {A : Type} (l : list A) (idx : list nat) : option (list A) :=
    match idx with
    | [] => Some []
    | i :: is => match nth_error l i, select_all l is with
                 | Some a, Some r => Some (a :: r)
                 | _, _ => None
                 end
    end.

  (* one pass of the loop body of GeneticAlgorithm.generate / the GA part of PSOGA.run:
       parent1 = select(...); parent2 = select(...) | archive.rand_choice()
       vector_1, vector_2 = crossover.cross(parent1.vector, parent2.vector)
       child1.vector = mutator.mutate(vector_1); child2.vector = mutator.mutate(vector_2)          (PmMutator) *)
  Record breed := { b_i1 : nat; b_i2 : nat; b_sbx : tape; b_m1 : tape; b_m2 : tape }.

  Definition breed_pair (pc pm : T) (pool : list vec) (b : breed) : option (vec * vec) :=
    match nth_error pool (b_i1 b), nth_error pool (b_i2 b) with
    | Some p1, Some p2 =>
        match sbx_cross ltb far half pc params p1 p2 (b_sbx b) with
        | Some (c1, c2) =>
            match pm_mutate ltb pm params c1 (b_m1 b), pm_mutate ltb pm params c2 (b_m2 b) with
            | Some d1, Some d2 => Some (d1, d2)
            | _, _ => None
            end
        | None => None
        end
    | _, _ => None
    end.

  (* Individual.__eq__(self, other): every coordinate of self within 1e-10 of other's *)
  Fixpoint vclose (a b : vec) : bool :=
    match a, b with
    | [], _ => true
    | x :: a', y :: b' => close x y && vclose a' b'
    | _ :: _, [] => false
    end.

  (*  if len(offsprings) == 0: offsprings.append(child1)
      if any(child1 == o for o in offsprings) and len(offsprings) < N: pass
      else: offsprings.append(child1)
      if any(child2 == o for o in offsprings) and len(offsprings) < N: pass
      elif len(offsprings) < N: offsprings.append(child2)                                                    *)
  Definition add_children (N : nat) (offs : list vec) (c1 c2 : vec) : list vec :=
    let o1 := match offs with [] => [c1] | _ => offs end in
    let o2 := if existsb (vclose c1) o1 && (length o1 <? N) then o1 else o1 ++ [c1] in
    if existsb (vclose c2) o2 && (length o2 <? N) then o2
    else if length o2 <? N then o2 ++ [c2] else o2.

  (* while len(offsprings) < N: ...   one breed event per pass; the script must have exactly the passes needed *)
  Fixpoint generate (N : nat) (pc pm : T) (pool : list vec) (events : list breed) (offs : list vec)
    : option (list vec) :=
    match events with
    | [] => if N <=? length offs then Some offs else None
    | b :: bs =>
        if N <=? length offs then None
        else match breed_pair pc pm pool b with
             | Some (c1, c2) => generate N pc pm pool bs (add_children N offs c1 c2)
             | None => None
             end
    end.

  (* the oracle inputs of one generation (fields not used by an algorithm must be empty) *)
  Record script := {
    s_events : list breed;            (* GA: the passes of generate;  PSOGA: exactly one *)
    s_rerolls : list (list vec);      (* per evaluated individual, in order: the re-rolled vectors *)
    s_keep : list nat;                (* NSGA-II: truncation survivors, indices into offsprings ++ population;
                                         eps-MOEA: the population after pop_acceptance, indices into population ++ offsprings;
                                         swarm: the order of the swarm when it is copied, indices into the previous swarm *)
    s_keep_arch : list nat;           (* eps-MOEA: archive afterwards, indices into archive ++ offsprings *)
    s_vel : list vec;                 (* swarm: velocity of each particle when update_position is called *)
    s_tapes : list tape;              (* swarm: the tape of each particle's turbulence mutation ([] when not mutated) *)
    s_rerolls2 : list (list vec) }.   (* PSOGA: re-rolls of the two GA offspring *)

  (* NSGAII.run, one pass of the loop:
       offsprings = self.generate(individuals); self.evaluate(offsprings)
       offsprings += copies of individuals; sort; individuals = nondominated_truncate(offsprings, N)  *)
  Definition nsga2_step (N : nat) (pc pm : T) (pop : list vec) (s : script) : option (list vec * list vec) :=
    match s_keep_arch s, s_vel s, s_tapes s, s_rerolls2 s with
    | [], [], [], [] =>
        match generate N pc pm pop (s_events s) [] with
        | Some offs =>
            match evaluate_all offs (s_rerolls s) with
            | Some (sub, offs') =>
                match select_all (offs' ++ pop) (s_keep s) with
                | Some pop' => Some (sub, pop')
                | None => None
                end
            | None => None
            end
        | None => None
        end
    | _, _, _, _ => None
    end.

  (* EpsMOEA.run, one pass: parent 2 comes from the archive (pool = population ++ archive); every evaluated
     offspring goes through pop_acceptance (replaces a member of the population or is dropped) and archive.add *)
  Definition epsmoea_step (N : nat) (pc pm : T) (st : list vec * list vec) (s : script)
    : option (list vec * (list vec * list vec)) :=
    let (pop, arch) := st in
    match s_vel s, s_tapes s, s_rerolls2 s with
    | [], [], [] =>
        match generate N pc pm (pop ++ arch) (s_events s) [] with
        | Some offs =>
            match evaluate_all offs (s_rerolls s) with
            | Some (sub, offs') =>
                match select_all (pop ++ offs') (s_keep s), select_all (arch ++ offs') (s_keep_arch s) with
                | Some pop', Some arch' => Some (sub, (pop', arch'))
                | _, _ => None
                end
            | None => None
            end
        | None => None
        end
    | _, _, _ => None
    end.

  (* swarm: offsprings = copies of the swarm, in the order the swarm list has at that moment (s_keep: SMPSO and
     PSOGA sort the list in place inside crowding_distance); update_velocity (oracle); update_position; turbulence:
     particle i is mutated by the mutator with `mut i` inner draws (None: not mutated, its tape must be empty) *)
  Fixpoint swarm_move (bounce : T -> T) (mut : nat -> option nat) (prob : T) (i : nat)
           (pop vel : list vec) (tapes : list tape) : option (list vec) :=
    match pop, vel, tapes with
    | [], [], [] => Some []
    | x :: pop', v :: vel', t :: tapes' =>
        match position_update ltb add bounce params x v with
        | Some (x1, _) =>
            let x2 := match mut i with
                      | Some k => mutate_with ltb k prob params x1 t
                      | None => match t with [] => Some x1 | _ => None end
                      end in
            match x2, swarm_move bounce mut prob (S i) pop' vel' tapes' with
            | Some y, Some r => Some (y :: r)
            | _, _ => None
            end
        | None => None
        end
    | _, _, _ => None
    end.

  (* OMOPSO.turbulence: i % 3 == 0 -> UniformMutator (1 inner draw), else NonUniformMutation (2 inner draws) *)
  Definition omopso_mut (i : nat) : option nat := Some (if Nat.modulo i 3 =? 0 then 1 else 2).
  (* SMPSO.turbulence: i % 6 == 0 -> PmMutator *)
  Definition smpso_mut (i : nat) : option nat := if Nat.modulo i 6 =? 0 then Some 1 else None.

  Definition swarm_step (bounce : T -> T) (mut : nat -> option nat) (prob : T) (pop : list vec) (s : script)
    : option (list vec * list vec) :=
    match s_events s, s_keep_arch s, s_rerolls2 s with
    | [], [], [] =>
        match select_all pop (s_keep s) with
        | Some pop1 =>
            match swarm_move bounce mut prob 0 pop1 (s_vel s) (s_tapes s) with
            | Some moved => evaluate_all moved (s_rerolls s)
            | None => None
            end
        | None => None
        end
    | _, _, _ => None
    end.

  Definition omopso_step := swarm_step flip omopso_mut.
  Definition smpso_step := swarm_step damp smpso_mut.

  (* PSOGA.run, one pass: move and evaluate the swarm, then one SBX + polynomial mutation on two selected
     particles; the two offspring are evaluated and appended to the swarm (which grows by two per pass) *)
  Definition psoga_step (pc pm : T) (pop : list vec) (s : script) : option (list vec * list vec) :=
    match s_events s, s_keep_arch s, select_all pop (s_keep s) with
    | [b], [], Some pop1 =>
        match swarm_move flip (fun _ => None) pm 0 pop1 (s_vel s) (s_tapes s) with
        | Some moved =>
            match evaluate_all moved (s_rerolls s) with
            | Some (sub1, offs) =>
                match breed_pair pc pm offs b with
                | Some (c1, c2) =>
                    match evaluate_all [c1; c2] (s_rerolls2 s) with
                    | Some (sub2, fin2) => Some (sub1 ++ sub2, offs ++ fin2)
                    | None => None
                    end
                | None => None
                end
            | None => None
            end
        | None => None
        end
    | _, _, _ => None
    end.

  (* a run: evaluate the initial designs, then one step per script; result = every vector submitted to the
     objective, in order, and the final state *)
  Fixpoint iterate {S : Type} (step : S -> script -> option (list vec * S)) (st : S) (ss : list script)
    : option (list vec * S) :=
    match ss with
    | [] => Some ([], st)
    | s :: ss' =>
        match step st s with
        | Some (sub, st') =>
            match iterate step st' ss' with
            | Some (sub', st'') => Some (sub ++ sub', st'')
            | None => None
            end
        | None => None
        end
    end.

  Definition run_with {S : Type} (init : list vec -> S) (step : S -> script -> option (list vec * S))
             (pop0 : list vec) (rr0 : list (list vec)) (ss : list script) : option (list vec * S) :=
    match evaluate_all pop0 rr0 with
    | Some (sub0, pop) =>
        match iterate step (init pop) ss with
        | Some (sub, st) => Some (sub0 ++ sub, st)
        | None => None
        end
    | None => None
    end.

  Definition run_nsga2 (N : nat) (pc pm : T) := run_with (fun p => p) (nsga2_step N pc pm).
  (* the archive starts with the members of the evaluated initial population that archive.add accepts:
     indices into that population *)
  Definition run_epsmoea (N : nat) (pc pm : T) (arch0 : list nat) (pop0 : list vec) (rr0 : list (list vec))
             (ss : list script) : option (list vec * (list vec * list vec)) :=
    match evaluate_all pop0 rr0 with
    | Some (sub0, pop) =>
        match select_all pop arch0 with
        | Some arch =>
            match iterate (epsmoea_step N pc pm) (pop, arch) ss with
            | Some (sub, st) => Some (sub0 ++ sub, st)
            | None => None
            end
        | None => None
        end
    | None => None
    end.
  Definition run_omopso (prob : T) := run_with (fun p => p) (omopso_step prob).
  Definition run_smpso (prob : T) := run_with (fun p => p) (smpso_step prob).
  Definition run_psoga (pc pm : T) := run_with (fun p => p) (psoga_step pc pm).
End RunModel.

Arguments b_i1 {T} _.
Arguments b_i2 {T} _.
Arguments b_sbx {T} _.
Arguments b_m1 {T} _.
Arguments b_m2 {T} _.
Arguments Build_breed {T} _ _ _ _ _.
Arguments Build_script {T} _ _ _ _ _ _ _.
Arguments s_events {T} _.
Arguments s_rerolls {T} _.
Arguments s_keep {T} _.
Arguments s_keep_arch {T} _.
Arguments s_vel {T} _.
Arguments s_tapes {T} _.
Arguments s_rerolls2 {T} _.
