(* Small-step model of parallel evaluation (C07): operators.py `Evaluator.evaluate_parallel`
   (joblib threads, require='sharedmem': one `Job.evaluate(individual)` per EMPTY design of the batch,
   all sharing the Problem object; code as repaired by finding F8), job.py `Job.evaluate` cut into the steps a thread switch can separate
   at the granularity of the property (objective call and store synchronisation are separate steps),
   datastore.py `sync_individual` as a per-id upsert.

   The big-step model of the same code is Model/Job.v (`job_evaluate`, `evaluate_serial`); this file
   re-uses its data (ind, call, outcome, env, state) and its primitive updates, so that the serial
   order of the small steps is literally `evaluate_serial` (Proofs/ParallelProofs.v, bridge lemma).

   One TASK = Job.evaluate for one design `id`; its steps, per attempt `att` of `for i in range(5)`:
     KStart   individual.state = IN_PROGRESS; constraints; features["feasible"] = all(g < 0)
     KObj     costs = problem.surrogate.evaluate(individual)     -- the objective call (logged);
              the outcome (value / TimeoutError,RuntimeError / other exception) stays in the thread
     KWrite   individual.costs = costs; calc_signed_costs; state = EVALUATED            (outcome Ok)
     KSync    problem.data_store.sync_individual(individual)      -- upsert of the row `id`
     KFail    failed copy appended to problem.failed; features["feasible"] = False  (outcome Transient)
     KReroll  individual.vector = gen_vector(...); state = EMPTY; continue
   Shared state = Job.state (individuals by id, problem.failed, sync log, objective call log) plus
   the thread-local pending outcome of each task (`p_pend`).  Every step is total.

   An execution is a list of steps; an interleaving of tasks is a `merge` of their step lists.
   Hypothesis of the property, made explicit as `local_env`: the outcome of the objective and the
   replacement vector depend on (design, attempt, vector) and not on the global call number. *)
From Coq Require Import List Bool Arith.
From Artap Require Import Model.Job.
Import ListNotations.
Local Open Scope nat_scope.
Set Implicit Arguments.

Inductive kind := KStart | KObj | KWrite | KSync | KFail | KReroll.

Record step := { st_id : nat; st_att : nat; st_kind : kind }.

(* all interleavings of a family of lists: the next element of the execution is the head of one of them *)
Inductive merge {A : Type} : list (list A) -> list A -> Prop :=
| merge_done : forall ls, Forall (fun l => l = []) ls -> merge ls []
| merge_step : forall l1 x l l2 tr, merge (l1 ++ l :: l2) tr -> merge (l1 ++ (x :: l) :: l2) (x :: tr).

Section Parallel.
  Variable T : Type.
  Variable ltb : T -> T -> bool.
  Variable zero : T.
  Variable roundp : nat -> T -> T.
  Variable smul : bool -> T -> T.

  Notation ind := (ind T).
  Notation call := (call T).
  Notation env := (env T).
  Notation state := (state T).
  Notation outcome := (outcome T).

  (* the outcome of the objective call a thread is holding, with the replacement vector it would use *)
  Definition pending : Type := (outcome * list T)%type.

  Record pstate := { p_st : state; p_pend : nat -> option pending }.

  Definition lift (st : state) : pstate := {| p_st := st; p_pend := fun _ => None |}.

  (* the objective may not look at the global call number *)
  Definition local_env (e : env) : Prop :=
    forall c c' : call, c_id c = c_id c' -> c_att c = c_att c' -> c_vec c = c_vec c' ->
      e_obj e c = e_obj e c' /\ e_reroll e c = e_reroll e c'.

  (* what one step does, as a function of what its own thread can see: its individual, its pending
     outcome, and (through the call record only) the number of calls logged so far *)
  Record effect := {
    f_ind : option ind;            (* new content of heap[id] *)
    f_call : option call;          (* objective invocation to log *)
    f_failed : option ind;         (* problem.failed.append *)
    f_store : option ind;          (* sync_individual snapshot *)
    f_pend : option pending }.     (* thread-local result of the objective call *)

  Definition no_effect : effect :=
    {| f_ind := None; f_call := None; f_failed := None; f_store := None; f_pend := None |}.

  Definition effect_of (e : env) (s : step) (i : ind) (pd : option pending) (ncalls : nat) : effect :=
    match st_kind s with
    | KStart =>
        {| f_ind := Some {| ivec := ivec i; icosts := icosts i; isigned := isigned i; istate := InProgress;
                            ifeas := feasible_of ltb zero (ifeas i) (e_cons e (ivec i)); iprec := iprec i |};
           f_call := None; f_failed := None; f_store := None; f_pend := None |}
    | KObj =>
        let c := {| c_no := ncalls; c_id := st_id s; c_att := st_att s; c_vec := ivec i |} in
        {| f_ind := None; f_call := Some c; f_failed := None; f_store := None;
           f_pend := Some (e_obj e c, e_reroll e c) |}
    | KWrite =>
        match pd with
        | Some (Ok costs, _) =>
            {| f_ind := Some {| ivec := ivec i; icosts := costs;
                                isigned := Some (signed_costs roundp smul (iprec i) (e_signs e) costs (ifeas i));
                                istate := Evaluated; ifeas := ifeas i; iprec := iprec i |};
               f_call := None; f_failed := None; f_store := None; f_pend := None |}
        | _ => no_effect
        end
    | KSync =>
        {| f_ind := None; f_call := None; f_failed := None; f_store := Some i; f_pend := None |}
    | KFail =>
        match pd with
        | Some (Transient, _) =>
            {| f_ind := Some {| ivec := ivec i; icosts := icosts i; isigned := isigned i; istate := istate i;
                                ifeas := false; iprec := iprec i |};
               f_call := None; f_failed := Some (mk_failed (ivec i)); f_store := None; f_pend := None |}
        | _ => no_effect
        end
    | KReroll =>
        match pd with
        | Some (Transient, v) =>
            {| f_ind := Some {| ivec := v; icosts := icosts i; isigned := isigned i; istate := Empty;
                                ifeas := ifeas i; iprec := iprec i |};
               f_call := None; f_failed := None; f_store := None; f_pend := None |}
        | _ => no_effect
        end
    end.

  Definition opt_app {A : Type} (l : list A) (x : option A) : list A :=
    match x with Some a => l ++ [a] | None => l end.

  Definition apply_effect (id : nat) (f : effect) (ps : pstate) : pstate :=
    let st := p_st ps in
    {| p_st := {| s_heap := match f_ind f with Some i => upd (s_heap st) id i | None => s_heap st end;
                  s_pop := s_pop st;
                  s_failed := opt_app (s_failed st) (f_failed f);
                  s_store := opt_app (s_store st) (option_map (fun i => (id, i)) (f_store f));
                  s_calls := opt_app (s_calls st) (f_call f) |};
       p_pend := match f_pend f with
                 | Some x => fun k => if k =? id then Some x else p_pend ps k
                 | None => p_pend ps
                 end |}.

  (* one atomic step on the shared state; a step of a design that does not exist does nothing *)
  Definition exec (e : env) (ps : pstate) (s : step) : pstate :=
    match nth_error (s_heap (p_st ps)) (st_id s) with
    | None => ps
    | Some i => apply_effect (st_id s)
                  (effect_of e s i (p_pend ps (st_id s)) (length (s_calls (p_st ps)))) ps
    end.

  Definition run (e : env) (tr : list step) (ps : pstate) : pstate := fold_left (exec e) tr ps.

  (* ---- the step list of one task: Job.evaluate(heap[id]) followed in isolation ---- *)
  Definition mkstep (id att : nat) (k : kind) : step := {| st_id := id; st_att := att; st_kind := k |}.

  Fixpoint attempt_steps (e : env) (id fuel att : nat) (i : ind) : list step :=
    match fuel with
    | 0 => []
    | S fuel' =>
        let c := {| c_no := 0; c_id := id; c_att := att; c_vec := ivec i |} in
        mkstep id att KStart :: mkstep id att KObj ::
        match e_obj e c with
        | Ok _ => [mkstep id att KWrite; mkstep id att KSync]
        | Transient =>
            mkstep id att KFail :: mkstep id att KReroll ::
            attempt_steps e id fuel' (S att)
              {| ivec := e_reroll e c; icosts := icosts i; isigned := isigned i; istate := Empty; ifeas := false;
                 iprec := iprec i |}
        | Fatal _ => []
        end
    end.

  (* The task of design `id`.  evaluate_parallel submits a job only for a design that is EMPTY when the
     batch is submitted (`for individual in individuals if individual.state == EMPTY`, the same filter as
     evaluate_serial; Job.evaluate's own `if state == EVALUATED: return` is then never taken); every other
     design of the batch has no step at all. *)
  Definition task_steps (e : env) (heap : list ind) (id : nat) : list step :=
    match nth_error heap id with
    | None => []
    | Some i => match istate i with
                | Empty => attempt_steps e id 5 0 i
                | _ => []
                end
    end.

  (* evaluate_parallel: one task per element of the batch *)
  Definition par_tasks (e : env) (heap : list ind) (batch : list nat) : list (list step) :=
    map (task_steps e heap) batch.

  (* ---- observable abstraction of the shared state ---- *)
  (* an objective call without its global number *)
  Definition strip (c : call) : nat * nat * list T := (c_id c, c_att c, c_vec c).
  Definition calls_by (id : nat) (l : list call) : list (nat * nat * list T) :=
    map strip (filter (fun c => c_id c =? id) l).
  Definition syncs_by (id : nat) (l : list (nat * ind)) : list (nat * ind) :=
    filter (fun p => fst p =? id) l.
  (* content of the store: the row of `id` is the last snapshot synchronised for it (upsert) *)
  Definition row_of (id : nat) (l : list (nat * ind)) : option ind :=
    match rev (syncs_by id l) with
    | [] => None
    | p :: _ => Some (snd p)
    end.

  (* ---- the store write as SQLite shows it to sync_individual (datastore.py 157-168) ----
     sync_individual opens a connection of its own, INSERTs (Python's sqlite3 issues BEGIN EXCLUSIVE first) and COMMITs.
     While another connection owns the database lock the INSERT raises sqlite3.OperationalError ("database is locked")
     after the busy timeout; sync_individual then calls ITSELF again: a new connection, the same upsert - an unbounded
     retry.  A refused attempt has written nothing (a COMMIT that fails is rolled back) and touches nothing of the shared
     Problem: it is a step without effect, and it is not a failure of the evaluation.  ASSUMPTION of the model (and of the
     property): the lock is eventually released, i.e. every execution contains the successful write KSync of every task.
     An extended execution is a list of ordinary steps and refused write attempts; KSync stays the atomic upsert. *)
  Inductive xstep := XStep (s : step) | XRefused (id att : nat).

  Definition xexec (e : env) (ps : pstate) (x : xstep) : pstate :=
    match x with XStep s => exec e ps s | XRefused _ _ => ps end.
  Definition xrun (e : env) (tr : list xstep) (ps : pstate) : pstate := fold_left (xexec e) tr ps.

  (* the execution without the refused attempts *)
  Fixpoint erase (tr : list xstep) : list step :=
    match tr with
    | [] => []
    | XStep s :: r => s :: erase r
    | XRefused _ _ :: r => erase r
    end.

  (* refused attempts are made by a task that is writing: after its KWrite, before its KSync (not needed by the
     theorems, which hold wherever the refusals are; used by the non-vacuity example) *)
  Fixpoint refusals_while_writing (writing : list nat) (tr : list xstep) : bool :=
    match tr with
    | [] => true
    | XStep s :: r =>
        match st_kind s with
        | KWrite => refusals_while_writing (st_id s :: writing) r
        | KSync => refusals_while_writing (filter (fun k => negb (k =? st_id s)) writing) r
        | _ => refusals_while_writing writing r
        end
    | XRefused id _ :: r => existsb (Nat.eqb id) writing && refusals_while_writing writing r
    end.
End Parallel.

Arguments lift {T} st.
Arguments no_effect {T}.
