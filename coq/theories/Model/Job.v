(* Model of the evaluation path of artap: job.py `Job.evaluate` (skip EVALUATED, at most five
   attempts, transient failure -> failed copy + re-rolled vector, other exception -> re-raise),
   operators.py `Evaluator.evaluate_serial` / `evaluate_scalar`, algorithm.py `Algorithm.evaluate`
   (serial branch), algorithm_sweep.py `SweepAlgorithm.run`, individual.py `calc_signed_costs`.
   Shared by C05 and C06 (and meant as the base of C07, C09, C11, C14).

   ---------------------------------------------------------------------------------------
   INTERFACE (everything below is inside `Section Job`, parameters in this order)
     T                      type of numbers (vector coordinates, costs, constraint values)
     ltb zero               `v < 0.0` of the feasibility test is `ltb v zero`
     roundp smul            `sign * np.round(cost, decimals=features["precision"])` is `smul maximise (roundp precision cost)`
                            (Run/C05Run.v gives the binary64 instance `froundp` / `fsmul`)
   Data
     dstate                 Empty | InProgress | Evaluated | Failed          (Individual.State)
     ind                    one Individual: ivec icosts isigned istate ifeas iprec
                            isigned = None            <-> costs_signed == []
                            isigned = Some (l, m)     <-> costs_signed == l + [m]   (m = `not feasible`)
                            ifeas = truthiness of features["feasible"] (initially 0.0 = false)
                            iprec = features["precision"] (7 for every Individual artap creates)
     call                   one invocation of the user's objective: c_no (global call number =
                            number of earlier invocations), c_id (design), c_att (attempt 0..4 inside
                            its job), c_vec (the vector the objective was given)
     outcome                Ok costs | Transient (TimeoutError, RuntimeError and its subclasses) |
                            Fatal kind (any other exception; kind = the harness's code of its class)
     env                    the external world, an INPUT of the model (never an axiom):
                              e_signs  : list bool        Problem.signs, true = maximise (-1)
                              e_obj    : call -> outcome  objective / fault schedule; may look at the call
                                                          number, the design, the attempt and the vector
                              e_cons   : list T -> list T evaluate_inequality_constraints(vector)
                              e_reroll : call -> list T   what gen_vector returns after the failed call
     state                  s_heap   : list ind           all Individual objects, design id = position
                                                          (objects are shared by reference in Python:
                                                          batches and problem.individuals hold ids)
                            s_pop    : list nat           problem.individuals
                            s_failed : list ind           problem.failed
                            s_store  : list (nat * ind)   data_store.sync_individual snapshots, in order
                            s_calls  : list call          log of objective invocations, in order
     result                 Done | Raised5 (RuntimeError "To many failures") | RaisedFatal kind
   Operations (all total, all return the new state)
     attempt e id att i st          one pass of the retry loop body; None = `continue`
     attempts e id fuel att i st    the `for i in range(fuel)` loop (fuel = 5 in the code)
     job_evaluate e st id           Job.evaluate(heap[id])
     evaluate_serial e st batch     Evaluator.evaluate_serial = Algorithm.evaluate for max_processes <= 1;
                                    stops at the first design whose job raises
     evaluate_history e st batches  repeated Algorithm.evaluate calls (the caller catches exceptions and goes on)
     evaluate_scalar e st x         Evaluator.evaluate_scalar(x) (what ScipyOpt / NLopt call)
     sweep e st vectors             SweepAlgorithm.run with generator.generate() = vectors
     signed_costs prec signs costs feas  Individual.calc_signed_costs
   Not modelled: time stamps, algorithm_id, printing, the surrogate wrapper (C19; the default
   wrapper passes the call through), exceptions raised by the constraint function or by
   data_store.sync_individual, an objective that mutates the individual it is given.
   --------------------------------------------------------------------------------------- *)
From Coq Require Import List Bool Arith.
Import ListNotations.
Local Open Scope nat_scope.
Set Implicit Arguments.

Inductive dstate := Empty | InProgress | Evaluated | Failed.
Inductive result := Done | Raised5 | RaisedFatal (kind : nat).

Definition dstate_eqb (a b : dstate) : bool :=
  match a, b with
  | Empty, Empty | InProgress, InProgress | Evaluated, Evaluated | Failed, Failed => true
  | _, _ => false
  end.

Section Lists.
  Context {A B C : Type}.
  (* map over two lists, truncating to the shorter one (Python's map / zip) *)
  Fixpoint map2 (f : A -> B -> C) (a : list A) (b : list B) : list C :=
    match a, b with
    | x :: a', y :: b' => f x y :: map2 f a' b'
    | _, _ => []
    end.
  (* in-place update of position n (no-op outside the list) *)
  Fixpoint upd (l : list A) (n : nat) (x : A) : list A :=
    match l, n with
    | [], _ => []
    | _ :: l', 0 => x :: l'
    | y :: l', S n' => y :: upd l' n' x
    end.
End Lists.

Section Job.
  Variable T : Type.
  Variable ltb : T -> T -> bool.
  Variable zero : T.
  Variable roundp : nat -> T -> T.
  Variable smul : bool -> T -> T.

  Record ind := {
    ivec : list T;
    icosts : list T;
    isigned : option (list T * bool);
    istate : dstate;
    ifeas : bool;
    iprec : nat }.

  Record call := { c_no : nat; c_id : nat; c_att : nat; c_vec : list T }.

  Inductive outcome := Ok (costs : list T) | Transient | Fatal (kind : nat).

  Record env := {
    e_signs : list bool;
    e_obj : call -> outcome;
    e_cons : list T -> list T;
    e_reroll : call -> list T }.

  Record state := {
    s_heap : list ind;
    s_pop : list nat;
    s_failed : list ind;
    s_store : list (nat * ind);
    s_calls : list call }.

  (* Individual(vector): EMPTY, costs [], costs_signed [], features["feasible"] = 0.0 *)
  Definition fresh (v : list T) : ind :=
    {| ivec := v; icosts := []; isigned := None; istate := Empty; ifeas := false; iprec := 7 |}.

  (* failed_individual = Individual(individual.vector); failed_individual.state = FAILED *)
  Definition mk_failed (v : list T) : ind :=
    {| ivec := v; icosts := []; isigned := None; istate := Failed; ifeas := false; iprec := 7 |}.

  (* if len(constraints) > 0: features["feasible"] = all(v < 0.0 for v in constraints) *)
  Definition feasible_of (old : bool) (g : list T) : bool :=
    match g with
    | [] => old
    | _ => forallb (fun v => ltb v zero) g
    end.

  (* list(map(lambda x, y: x * np.round(y, decimals=precision), signs, costs)) + [not features["feasible"]] *)
  Definition signed_costs (prec : nat) (signs : list bool) (costs : list T) (feas : bool) : list T * bool :=
    (map2 (fun s c => smul s (roundp prec c)) signs costs, negb feas).

  Definition log_call (st : state) (c : call) : state :=
    {| s_heap := s_heap st; s_pop := s_pop st; s_failed := s_failed st; s_store := s_store st;
       s_calls := s_calls st ++ [c] |}.
  Definition add_failed (st : state) (f : ind) : state :=
    {| s_heap := s_heap st; s_pop := s_pop st; s_failed := s_failed st ++ [f]; s_store := s_store st;
       s_calls := s_calls st |}.
  Definition add_store (st : state) (id : nat) (i : ind) : state :=
    {| s_heap := s_heap st; s_pop := s_pop st; s_failed := s_failed st; s_store := s_store st ++ [(id, i)];
       s_calls := s_calls st |}.
  Definition set_heap (st : state) (h : list ind) : state :=
    {| s_heap := h; s_pop := s_pop st; s_failed := s_failed st; s_store := s_store st; s_calls := s_calls st |}.
  Definition add_pop (st : state) (ids : list nat) : state :=
    {| s_heap := s_heap st; s_pop := s_pop st ++ ids; s_failed := s_failed st; s_store := s_store st;
       s_calls := s_calls st |}.

  (* the call the next invocation of the objective will be *)
  Definition next_call (st : state) (id att : nat) (v : list T) : call :=
    {| c_no := length (s_calls st); c_id := id; c_att := att; c_vec := v |}.

  (* body of the retry loop for the individual `i` (design `id`), attempt number `att`.
     Some r = the loop is left (return / raise), None = `continue` *)
  Definition attempt (e : env) (id att : nat) (i : ind) (st : state) : ind * state * option result :=
    let feas := feasible_of (ifeas i) (e_cons e (ivec i)) in
    let c := next_call st id att (ivec i) in
    let st1 := log_call st c in
    match e_obj e c with
    | Ok costs =>
        let i' := {| ivec := ivec i; icosts := costs;
                     isigned := Some (signed_costs (iprec i) (e_signs e) costs feas);
                     istate := Evaluated; ifeas := feas; iprec := iprec i |} in
        (i', add_store st1 id i', Some Done)
    | Transient =>
        let i' := {| ivec := e_reroll e c; icosts := icosts i; isigned := isigned i;
                     istate := Empty; ifeas := false; iprec := iprec i |} in
        (i', add_failed st1 (mk_failed (ivec i)), None)
    | Fatal k =>
        ({| ivec := ivec i; icosts := icosts i; isigned := isigned i; istate := InProgress; ifeas := feas;
            iprec := iprec i |},
         st1, Some (RaisedFatal k))
    end.

  (* for i in range(fuel): ... ; raise RuntimeError("To many failures has appeared.") *)
  Fixpoint attempts (e : env) (id fuel att : nat) (i : ind) (st : state) : ind * state * result :=
    match fuel with
    | 0 => (i, st, Raised5)
    | S fuel' =>
        match attempt e id att i st with
        | (i', st', Some r) => (i', st', r)
        | (i', st', None) => attempts e id fuel' (S att) i' st'
        end
    end.

  (* Job.evaluate(heap[id]); the individual object is updated in place *)
  Definition job_evaluate (e : env) (st : state) (id : nat) : state * result :=
    match nth_error (s_heap st) id with
    | None => (st, Done)
    | Some i =>
        match istate i with
        | Evaluated => (st, Done)
        | _ => let '(i', st', r) := attempts e id 5 0 i st in
               (set_heap st' (upd (s_heap st') id i'), r)
        end
    end.

  (* for individual in individuals: if individual.state == EMPTY: job.evaluate(individual)
     (the `costs.append(None)` around it lands on the list object that Job.evaluate has just
     replaced, so it is not visible); an exception leaves the loop *)
  Fixpoint evaluate_serial (e : env) (st : state) (batch : list nat) : state * result :=
    match batch with
    | [] => (st, Done)
    | id :: rest =>
        match nth_error (s_heap st) id with
        | Some i =>
            match istate i with
            | Empty =>
                match job_evaluate e st id with
                | (st', Done) => evaluate_serial e st' rest
                | (st', r) => (st', r)
                end
            | _ => evaluate_serial e st rest
            end
        | None => evaluate_serial e st rest
        end
    end.

  (* repeated Algorithm.evaluate calls by a caller that catches what they raise *)
  Fixpoint evaluate_history (e : env) (st : state) (batches : list (list nat)) : state * list result :=
    match batches with
    | [] => (st, [])
    | b :: rest =>
        let '(st', r) := evaluate_serial e st b in
        let '(st'', rs) := evaluate_history e st' rest in
        (st'', r :: rs)
    end.

  (* a new Individual object; its id is the next heap position *)
  Definition alloc (st : state) (i : ind) : state := set_heap st (s_heap st ++ [i]).

  (* value handed back to the scalar optimiser: costs_signed[0] *)
  Inductive scalar_ret := SVal (x : T) | SMark (b : bool) | SNone | SRaise (r : result).

  (* individual = Individual(list(vector)); problem.individuals.append(individual);
     job.evaluate(individual); return individual.costs_signed[0] *)
  Definition evaluate_scalar (e : env) (st : state) (x : list T) : state * scalar_ret :=
    let id := length (s_heap st) in
    let st1 := add_pop (alloc st (fresh x)) [id] in
    match job_evaluate e st1 id with
    | (st2, Done) =>
        (st2, match nth_error (s_heap st2) id with
              | Some i => match isigned i with
                          | Some (y :: _, _) => SVal y
                          | Some ([], m) => SMark m
                          | None => SNone
                          end
              | None => SNone
              end)
    | (st2, r) => (st2, SRaise r)
    end.

  (* vectors = generator.generate(); individuals = [Individual(v) ...]; problem.individuals += individuals;
     self.evaluate(individuals) *)
  Definition sweep (e : env) (st : state) (vectors : list (list T)) : state * result :=
    let ids := seq (length (s_heap st)) (length vectors) in
    let st1 := add_pop (set_heap st (s_heap st ++ map fresh vectors)) ids in
    evaluate_serial e st1 ids.

  Definition init_state : state :=
    {| s_heap := []; s_pop := []; s_failed := []; s_store := []; s_calls := [] |}.
End Job.

Arguments Ok {T} costs.
Arguments Transient {T}.
Arguments Fatal {T} kind.
Arguments SMark {T} b.
Arguments SNone {T}.
Arguments SRaise {T} r.
Arguments init_state {T}.
